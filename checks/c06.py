"""C06 - the Badger raft log honours the raft storage contract, per group, across reopen.

spec/WalStore.tla (transcription of raft.MemoryStorage + the wal calls), WalStoreGen (binding G),
WalStoreTrace (binding V; Which=b decides, Which=m must always accept).  Harness: cmd/wal."""
import json

import vlib


def is_reset(line):
    return line.startswith('{"ev":"reset"')


def kind(e):
    if e["ev"] == "save":
        k = "save"
        if e["sidx"] > 0:
            k = "savesnap"
        if e["terms"]:
            k += "+ents"
        if e["hs"]:
            k += "+hs"
        return k + ":" + e["g"]
    return e["ev"] + ":" + e["g"]


def history_of(trace_path, lineno):
    buf = []
    with open(trace_path) as f:
        for n, line in enumerate(f):
            if is_reset(line):
                buf = []
            buf.append(line)
            if n == lineno:
                break
    return [json.loads(x) for x in buf]


def report(ctx, trace, viols, origin):
    by_sig = {}
    if not viols:
        return 0
    lines = open(trace).read().splitlines()
    starts = []
    cur = 0
    for n, line in enumerate(lines):
        if is_reset(line):
            cur = n
        starts.append(cur)
    for v in viols[:3000]:
        evs = [json.loads(x) for x in lines[starts[v[0]]:v[0] + 1]]
        calls = [e for e in evs if e["ev"] not in ("reset", "end")]
        # canonical group names: the group of the failing call is "x"
        gx = calls[-1]["g"]
        sig = "%s@%s" % (v[1], ",".join(kind(e).replace(":" + gx, ":x").replace(":g1", ":y").replace(":g2", ":y") for e in calls))
        if sig not in by_sig or len(calls) < len(by_sig[sig]):
            by_sig[sig] = calls
    # report the shortest history per failing check
    best = {}
    for sig, calls in by_sig.items():
        k = sig.split("@")[0]
        if k not in best or len(calls) < len(by_sig[best[k]]):
            best[k] = sig
    for k in sorted(best):
        sig = best[k]
        calls = by_sig[sig]
        last = calls[-1]
        what = "%s after %s (%s): Badger answers %s, reference answers %s" % (
            k, [kind(e) for e in calls], origin, json.dumps(last["b"])[:400], json.dumps(last["m"])[:400])
        ctx.finding(sig, what, {"calls": [{x: e[x] for x in ("ev", "g", "start", "terms", "hs", "sidx", "sterm", "idx", "err")} for e in calls],
                                "badger": last["b"], "memory": last["m"]})
    return len(by_sig)


def validate_both(ctx, trace, origin):
    vm, n = vlib.validate_trace(ctx, "WalStoreTrace", "WalStoreTrace_m.cfg", trace, is_reset, chunk_events=20000)
    if vm:
        evs = history_of(trace, vm[0][0])
        raise vlib.NoVerdict("WalStore disagrees with raft.MemoryStorage (%s) after %s: the transcription is wrong" %
                             (vm[0][1], [kind(e) for e in evs if e["ev"] not in ("reset", "end")]))
    vb, n = vlib.validate_trace(ctx, "WalStoreTrace", "WalStoreTrace_b.cfg", trace, is_reset, chunk_events=20000)
    nh = sum(1 for line in open(trace) if is_reset(line))
    ctx.log("%s: %d call histories, %d events: reference store accepted, Badger store: %d failed checks" % (origin, nh, n, len(vb)))
    report(ctx, trace, vb, origin)
    return nh


def run(ctx):
    quick = ctx.tier == "quick"
    wal = ctx.go_build("cmd/wal", "wal")
    if ctx.replay:
        case = json.load(open(ctx.replay))["case"]
        hp = ctx.path("replay_hist.ndjson")
        with open(hp, "w") as f:
            f.write(json.dumps({"h": [dict(c, op=c["ev"]) for c in case["calls"]]}) + "\n")
        ctx.run([wal, "replay", hp, ctx.path("replay_trace.ndjson"), "9"])
        validate_both(ctx, ctx.path("replay_trace.ndjson"), "replay")
        ctx.cov["traces_validated_against_impl"] = 1
        ctx.sample(case)
        return
    r = ctx.tlc("WalStore", ctx.cfg("WalStore_mc.cfg", {"MaxOps": 5 if quick else 7}), timeout=1800, heap="10g")
    if r.violated:
        raise vlib.NoVerdict("WalStore violates %s: specification bug" % r.violated)
    ctx.cov["exhaustive"] = True
    hist = ctx.path("walhist.ndjson")
    seen = set()
    n = [0]
    with open(hist, "w") as hf:
        def keep(line):
            if line.startswith('<<"H", "'):
                js = json.loads(line.rstrip("\n")[7:-2])
                if js in seen:
                    return
                seen.add(js)
                hf.write(js + "\n")
                n[0] += 1
        ctx.tlc("WalStoreGen", ctx.cfg("WalStoreGen.cfg", {"MaxOps": 4 if quick else 5}), workers=4, timeout=900, keep_lines=keep)
    seen.clear()
    trace = ctx.path("waltrace.ndjson")
    ctx.run([wal, "replay", hist, trace, "4"], timeout=1800)
    total = validate_both(ctx, trace, "model histories")
    evs = history_of(trace, 400)
    ctx.sample({"calls": [kind(e) for e in evs if e["ev"] not in ("reset", "end")], "last_answers_badger": evs[-1].get("b")})
    rtrace = ctx.path("walrand.ndjson")
    nr = 400 if quick else 6000
    ctx.run([wal, "random", str(nr), "14", str(ctx.seed), rtrace], timeout=1800)
    total += validate_both(ctx, rtrace, "random histories")
    # logs far longer than the model's: a write burst between two snapshot rounds, a snapshot of several MB - compacted
    # by ONE local snapshot, reopened, written to again (answers at the boundaries against the reference store's)
    ltrace = ctx.path("wallong.ndjson")
    sizes = ["3000:100", "120000:1", "40000:10000000"] if quick else ["3000:100", "120000:1", "40000:10000000", "400000:1", "150000:12000000", "105000:1"]
    ctx.run([wal, "long", ltrace] + sizes, timeout=1800)
    vl, nl = vlib.validate_trace(ctx, "WalStoreTrace", "WalStoreTrace_b.cfg", ltrace, is_reset)
    levs = vlib.read_ndjson(ltrace)
    if sum(1 for e in levs if e["ev"] == "long") != 6 * len(sizes):
        raise vlib.NoVerdict("the long-log driver did not get through its stages")
    seen_long = set()
    for v in vl:
        e = levs[v[0]]
        cls = "entries>1e5" if e["n"] > 100000 else ("snapshot>9MB" if e["snapbytes"] > 9000000 else "short")
        sig = "%s@%s:%s" % (v[1], cls, e["stage"])
        if sig in seen_long:
            continue
        seen_long.add(sig)
        ctx.finding(sig, "%s: a log of %d entries, snapshot of %d bytes, after %s: %s Badger answers %s, reference answers %s" %
                    (sig, e["n"], e["snapbytes"], e["stage"], ("call failed with '%s';" % e["err"]) if e["err"] else "", e["lb"][:300], e["lm"][:300]), {"event": e})
    ctx.log("long logs: %d stages of %d histories: %d failed checks" % (nl, len(sizes), len(vl)))
    ctx.cov["long_log_histories"] = len(sizes)
    total += len(sizes)
    mut = json.loads(json.dumps(levs))
    mut[3]["lb"] = mut[3]["lb"].replace("first=", "first=1", 1)
    p3 = ctx.path("self3.ndjson")
    open(p3, "w").writelines(json.dumps(e) + "\n" for e in mut)
    v3, _ = vlib.validate_trace(ctx, "WalStoreTrace", "WalStoreTrace_b.cfg", p3, is_reset)
    ctx.cov["binding_selftest"]["corrupted_long_log_answer_rejected"] = any(v[1] == "LongLog" for v in v3)
    if not ctx.cov["binding_selftest"]["corrupted_long_log_answer_rejected"]:
        raise vlib.NoVerdict("binding self-test failed: a corrupted long-log answer is accepted")
    # binding self-test: corrupt one answer of the Badger store / drop a call
    good = open(rtrace).read().splitlines(True)[:300]
    while good and not good[-1].startswith('{"ev":"end"'):
        good.pop()
    st = {}
    mut = [json.loads(x) for x in good]
    for e in mut:
        if e["ev"] == "save" and e["terms"]:
            e["b"][e["g"]]["last"] += 1
            break
    p1 = ctx.path("self1.ndjson")
    open(p1, "w").writelines(json.dumps(e) + "\n" for e in mut)
    v1, _ = vlib.validate_trace(ctx, "WalStoreTrace", "WalStoreTrace_b.cfg", p1, is_reset)
    v0, _ = vlib.validate_trace(ctx, "WalStoreTrace", "WalStoreTrace_b.cfg", rtrace, is_reset, chunk_events=20000) if False else ([], 0)
    st["corrupted_last_index_rejected"] = any(v[1] == "LastIndex" for v in v1)
    # drop one call that appended entries: the answers recorded after it no longer fit the shortened history.  (A call
    # whose effect the next calls overwrite completely can be dropped unnoticed: a few candidates are tried.)
    cands = [i for i, x in enumerate(good) if json.loads(x)["ev"] == "save" and json.loads(x)["terms"]][:6]
    st["dropped_call_rejected"] = False
    for k, ci in enumerate(cands):
        mut = [json.loads(x) for x in good]
        del mut[ci]
        p2 = ctx.path("self2-%d.ndjson" % k)
        open(p2, "w").writelines(json.dumps(e) + "\n" for e in mut)
        try:
            v2, _ = vlib.validate_trace(ctx, "WalStoreTrace", "WalStoreTrace_m.cfg", p2, is_reset)
            if len(v2) > 0:
                st["dropped_call_rejected"] = True
        except vlib.NoVerdict:
            st["dropped_call_rejected"] = True     # the shortened history is no longer evaluable at all
        if st["dropped_call_rejected"]:
            break
    ctx.cov["binding_selftest"].update(st)
    if not all(st.values()):
        raise vlib.NoVerdict("binding self-test failed: %s" % st)
    ctx.cov["traces_validated_against_impl"] = total
    ctx.assumptions += ["Badger's own crash consistency and iterator semantics are trusted",
                        "entry sizes are uniform (one abstract unit); size limits are exercised in units of one entry"]
    return "model_checking"
