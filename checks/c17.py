"""C17: see fanfam.py and DESIGN.md section 5."""
import fanfam


def run(ctx):
    return fanfam.run_size(ctx)
