"""C12 - no request can crash a node or poison the replicated log.

spec/Api.tla (decision table: valid / ill-formed classes, Ok / Err, Alive, replay; switch Validates), ApiTrace
(binding V).  Harness: cmd/api (request classes fired at real single-node server processes; kill -9 + restart)."""
import json
import subprocess
from concurrent.futures import ThreadPoolExecutor

import vlib


def run(ctx):
    quick = ctx.tier == "quick"
    node = ctx.go_build("cmd/anndbnode", "anndbnode")
    api = ctx.go_build("cmd/api", "api")
    r = ctx.tlc("Api", "Api_mc.cfg", timeout=600)
    if r.violated:
        raise vlib.NoVerdict("Api violates %s with Validates=TRUE" % r.violated)
    ctx.cov["exhaustive"] = True
    rr = ctx.tlc("Api", ctx.cfg("Api_mc.cfg", {"Validates": "FALSE"}), timeout=600, name="Api-novalidate", count=False)
    ctx.cov["binding_selftest"]["switch_Validates_FALSE_gives_counterexample"] = rr.violated
    if not rr.violated:
        raise vlib.NoVerdict("vacuity guard failed: unvalidated ill-formed requests do not violate Alive / NoPoison")
    names = subprocess.check_output([api, "list"]).decode().split()
    if ctx.replay:
        names = [json.load(open(ctx.replay))["case"]["event"]["class"]]
    k = 6
    groups = [names[i::k] for i in range(k)]

    def one(a):
        i, g = a
        tr = ctx.path("api-%d.ndjson" % i)
        try:
            subprocess.run([api, node, ctx.path("apiw-%d" % i), tr, json.dumps(g)], stdout=subprocess.PIPE, stderr=subprocess.PIPE,
                           timeout=1500, env=vlib.goenv())
        except subprocess.TimeoutExpired:
            raise vlib.NoVerdict("api driver timed out")
        return [x for x in open(tr).read().splitlines() if x.strip()]
    with ThreadPoolExecutor(max_workers=k) as ex:
        parts = list(ex.map(one, [(i, g) for i, g in enumerate(groups) if g]))
    lines = [x for p in parts for x in p]
    if len(lines) != len(names):
        raise vlib.NoVerdict("api driver covered %d of %d classes" % (len(lines), len(names)))
    trace = ctx.path("api.ndjson")
    open(trace, "w").write("\n".join(lines) + "\n")
    viols, n = vlib.validate_trace(ctx, "ApiTrace", "ApiTrace.cfg", trace, lambda l: True, chunk_events=5000)
    evs = [json.loads(x) for x in lines]
    for v in viols:
        e = evs[v[0]]
        if v[1] == "Setup":
            if e["setup"].startswith("server did not start"):
                raise vlib.NoVerdict("set-up of a server for class %s failed: %s" % (e["class"], e["setup"]))
            # the server runs and refuses the set-up's own requests: a plain dataset creation, the insert of one item
            # (any 128-bit id is an id) - well-formed requests that must succeed
            ctx.finding("ValidRejected@setup", "ValidRejected@setup: a running server refuses the set-up (create a dataset, insert one item) before class %s: %s"
                        % (e["class"], e["setup"][:300]), {"event": e})
            continue
        if v[1] == "SilentSuccess":      # C09's business (reported by its check)
            ctx.notes.append("SilentSuccess@%s belongs to C09" % e["class"])
            continue
        ctx.finding("%s@%s" % (v[1], e["class"]), "%s after request class %s: outcome %s %s; alive=%d %s; restart=%d %s; probes: %s / %s"
                    % (v[1], e["class"], e["outcome"], e["err"][:100], e["alive"], e["why"], e["restart"], e["restartwhy"], e["probe"][:80], e["replayprobe"][:80]),
                    {"event": e})
    ctx.log("%d request classes on real server processes (each followed by kill -9 + restart): %d failed checks" % (n, len(viols)))
    ctx.sample(evs[0])
    ctx.sample([e for e in evs if e["valid"] == 0][0])
    st = {}
    mut = json.loads(json.dumps(evs[:10]))
    mut[2]["alive"], mut[2]["why"] = 0, "panic: injected"
    p = ctx.path("self1.ndjson")
    open(p, "w").writelines(json.dumps(e) + "\n" for e in mut)
    v, _ = vlib.validate_trace(ctx, "ApiTrace", "ApiTrace.cfg", p, lambda l: True)
    st["dead_server_rejected"] = any(x[1] == "Crash" for x in v)
    mut = json.loads(json.dumps(evs[:10]))
    mut[4]["restart"] = 0
    p = ctx.path("self2.ndjson")
    open(p, "w").writelines(json.dumps(e) + "\n" for e in mut)
    v, _ = vlib.validate_trace(ctx, "ApiTrace", "ApiTrace.cfg", p, lambda l: True)
    st["failed_restart_rejected"] = any(x[1] == "PoisonedLog" for x in v)
    ctx.cov["binding_selftest"].update(st)
    if not all(st.values()):
        raise vlib.NoVerdict("binding self-test failed: %s" % st)
    # a cluster of three real servers: partition-level requests (normally issued by peers) sent to members that know
    # the partition but do not host it - every node has to survive them, and to come back after kill -9
    import clusfam
    lines, nbad = clusfam.real_server_kinds(ctx, ["durable"], {"NodeDied", "RestartFailed"}, 1 if ctx.tier == "quick" else 3)
    npr = sum(1 for x in lines if '"ev":"probe"' in x)
    ctx.log("real cluster: %d partition-level requests to non-hosting members: %d nodes lost" % (npr, nbad))
    if npr == 0:
        raise vlib.NoVerdict("no partition-level probe reached the real cluster")
    ctx.cov["real_cluster_foreign_partition_requests"] = npr
    ctx.cov["traces_validated_against_impl"] = n + 1
    ctx.cov["classes"] = names
    ctx.assumptions += ["exploration driven by a decision-table model over %d request feature classes, not exhaustive over protobuf values" % len(names),
                        "one real single-node server process per class, with a valid dataset (dimension 3, 2 partitions) and one stored item"]
    return "model_checking"
