"""C14: see clusfam.py and DESIGN.md section 5."""
import clusfam


def run(ctx):
    return clusfam.run_family(ctx)
