"""C14: see clusfam.py and DESIGN.md section 5."""
import json
import subprocess

import clusfam
import vlib


def groups_stop(ctx):
    """'After a deletion ... its partitions stop serving': on the real control plane (cmd/ctrl) every running raft group
    belongs to a loaded partition of a dataset of the catalogue - also when a fast replay lets the allocator loop get to
    a new partition only after a later entry added this node to it (ControlPlaneTrace GroupOutlivesPartition)."""
    import c18
    # design: ReplicaLoad.tla - the apply goroutine against the allocator loop, which reads a partition's replica set only
    # after the rendezvous; TLC: at most one group, and what runs is what the catalogue says; the shipped loadRaft
    # (LoadOnce = FALSE) gives the counterexample create(without this node), addSelf, loop - forced below on the real code
    r = ctx.tlc("ReplicaLoad", "ReplicaLoad_mc.cfg", timeout=300, name="ReplicaLoad")
    if r.violated:
        raise vlib.NoVerdict("ReplicaLoad violates %s in the repaired position: specification bug" % r.violated)
    rg = ctx.tlc("ReplicaLoad", ctx.cfg("ReplicaLoad_mc.cfg", {"LoadOnce": "FALSE"}), timeout=300, name="ReplicaLoad-shipped", count=False)
    ctx.cov["binding_selftest"]["switch_LoadOnce_FALSE_gives_counterexample"] = bool(rg.violated)
    if not rg.violated:
        raise vlib.NoVerdict("vacuity guard failed: a loadRaft that overwrites a loaded group does not violate ReplicaLoad")
    ctrl = ctx.go_build("cmd/ctrl", "ctrl")
    lines = []
    scs = c18.replay_readd() + [{"name": "delete", "steps": ["create:1", "create:1", "settle", "delete", "delete"]}]
    for i, sc in enumerate(scs):
        tr = ctx.path("ctrl14-%d.ndjson" % i)
        for attempt in (1, 2):
            try:
                subprocess.run([ctrl, tr, json.dumps(sc)], stdout=subprocess.PIPE, stderr=subprocess.PIPE, timeout=90, env=vlib.goenv())
                lines.append(open(tr).read().strip().splitlines()[-1])
                break
            except Exception:
                if attempt == 2:
                    raise vlib.NoVerdict("control-plane harness produced no event twice for %s" % json.dumps(sc))
    trace = ctx.path("ctrl14.ndjson")
    open(trace, "w").write("\n".join(lines) + "\n")
    viols, n = vlib.validate_trace(ctx, "ControlPlaneTrace", "ControlPlaneTrace.cfg", trace, lambda l: True)
    evs = [json.loads(x) for x in lines]
    by = {}
    for v in viols:
        if v[1] == "GroupOutlivesPartition":
            by.setdefault("GroupOutlivesPartition@%s" % evs[v[0]]["name"], []).append(evs[v[0]])
    for sig in sorted(by):
        e = min(by[sig], key=lambda x: len(x["steps"]))
        ctx.finding(sig, "%s: entries %s -> %d raft group(s) run that belong to no loaded partition of the catalogue (%d such runs)"
                    % (sig, e["steps"], e["extragroups"], len(by[sig])), {"scenario": {"name": e["name"], "steps": e["steps"]}, "event": e})
    ctx.log("%d control-plane sequences: running raft groups against the catalogue: %d failed checks" % (n, sum(len(x) for x in by.values())))
    mut = json.loads(json.dumps(evs[:1]))
    mut[0]["extragroups"] = 1
    p = ctx.path("selfgroups.ndjson")
    open(p, "w").writelines(json.dumps(e) + "\n" for e in mut)
    v2, _ = vlib.validate_trace(ctx, "ControlPlaneTrace", "ControlPlaneTrace.cfg", p, lambda l: True)
    ctx.cov["binding_selftest"]["leaked_raft_group_rejected"] = any(x[1] == "GroupOutlivesPartition" for x in v2)
    if not ctx.cov["binding_selftest"]["leaked_raft_group_rejected"]:
        raise vlib.NoVerdict("binding self-test failed: a leaked raft group was accepted")


def run(ctx):
    level = clusfam.run_family(ctx)
    if not ctx.replay:
        groups_stop(ctx)
    return level
