"""C18 - membership changes and restarts never wedge a node's control plane.

spec/ControlPlane.tla (apply goroutine vs allocator loop; TLC deadlock check; switches WatchSendUnderLock,
UnderRepl), ControlPlaneTrace (binding V).  Harness: cmd/ctrl (real Conn + Allocator + DatasetManager over a
scripted zero group, watchdog + goroutine-dump signature) and the real-server restart scenarios of clusfam."""
import itertools
import json
import subprocess
from concurrent.futures import ThreadPoolExecutor

import clusfam
import vlib


def scenarios(quick):
    out = []
    alpha = ["conf+2", "create:1", "create:2", "delete", "conf-2", "conf+3"]
    n = 0
    for k in (2, 3) if quick else (2, 3, 4):
        for seq in itertools.product(alpha, repeat=k):
            if seq.count("delete") > seq.count("create:1") + seq.count("create:2"):
                continue
            n += 1
            if quick and k == 3 and n % 4:
                continue
            if not quick and k == 4 and n % 5:
                continue
            out.append({"name": "seq", "steps": list(seq)})
            out.append({"name": "burst", "steps": ["burst"] + list(seq)})
    # the TLC deadlock trace of ControlPlane (UnderRepl, entries <<conf, create>>): an under-replicated
    # partition exists, then a membership change and a create are applied back to back
    out.append({"name": "tlc-deadlock-underrepl", "steps": ["create:2", "settle", "burst", "conf+2", "create:1"]})
    return out


def run(ctx):
    quick = ctx.tier == "quick"
    ctrl = ctx.go_build("cmd/ctrl", "ctrl")
    # ---- design: deadlock freedom per entry sequence and switch position
    ok = [("E_create_only", "TRUE"), ("E_conf_only", "TRUE"), ("E_conf_create", "FALSE"), ("E_burst", "FALSE")]
    d = ctx.specdir()
    base = open(d + "/ControlPlane_mc.cfg").read()

    def tlc(ents, ur, under, name, count=True):
        txt = base.replace("Entries <- E_conf_create", "Entries <- " + ents).replace("UnderRepl = TRUE", "UnderRepl = " + ur) \
                  .replace("WatchSendUnderLock = FALSE", "WatchSendUnderLock = " + under)
        open(d + "/" + name + ".cfg", "w").write(txt)
        return ctx.tlc("ControlPlaneMC", name + ".cfg", timeout=300, name=name, count=count)
    for ents, ur in ok:
        r = tlc(ents, ur, "FALSE", "cp-" + ents)
        if r.deadlock or r.violated:
            raise vlib.NoVerdict("ControlPlane deadlocks for %s in the repaired position: specification bug" % ents)
    ctx.cov["exhaustive"] = True
    r1 = tlc("E_conf_create", "FALSE", "TRUE", "cp-sendunderlock", count=False)
    ctx.cov["binding_selftest"]["switch_WatchSendUnderLock_TRUE_gives_deadlock"] = r1.deadlock
    r2 = tlc("E_conf_create", "TRUE", "FALSE", "cp-underrepl", count=False)
    ctx.cov["model_deadlock_remaining_under_replicated"] = r2.deadlock
    if not r1.deadlock:
        raise vlib.NoVerdict("vacuity guard failed: send under lock does not deadlock the model")
    # ---- the real control plane under the same entry sequences
    scs = scenarios(quick)

    def one(a):
        i, sc = a
        tr = ctx.path("ctrl-%d.ndjson" % i)
        try:
            subprocess.run([ctrl, tr, json.dumps(sc)], stdout=subprocess.PIPE, stderr=subprocess.PIPE, timeout=90, env=vlib.goenv())
        except subprocess.TimeoutExpired:
            return json.dumps({"ev": "ctrl", "name": sc["name"], "steps": sc["steps"], "entries": 0, "applied": 0, "pending": 1,
                               "stalled": 1, "signature": "harness timeout", "serving": 0})
        try:
            return open(tr).read().strip().splitlines()[-1]
        except Exception:
            return json.dumps({"ev": "ctrl", "name": sc["name"], "steps": sc["steps"], "entries": 0, "applied": 0, "pending": 1,
                               "stalled": 1, "signature": "harness produced no event", "serving": 0})
    with ThreadPoolExecutor(max_workers=10) as ex:
        lines = list(ex.map(one, enumerate(scs)))
    trace = ctx.path("ctrl.ndjson")
    open(trace, "w").write("\n".join(lines) + "\n")
    viols, n = vlib.validate_trace(ctx, "ControlPlaneTrace", "ControlPlaneTrace.cfg", trace, lambda l: True, chunk_events=5000)
    evs = [json.loads(x) for x in lines]
    by = {}
    for v in viols:
        e = evs[v[0]]
        sig = "%s@%s" % (v[1], e["signature"] or "-")
        by.setdefault(sig, []).append(e)
    for sig in sorted(by):
        e = min(by[sig], key=lambda x: len(x["steps"]))
        ctx.finding(sig, "%s: entries %s -> applied %d, pending %d (%d such runs)" % (sig, e["steps"], e["applied"], e["pending"], len(by[sig])),
                    {"scenario": {"name": e["name"], "steps": e["steps"]}, "event": e})
    ctx.log("%d entry sequences on the real control plane: %d stalled" % (n, sum(e["stalled"] for e in evs)))
    ctx.sample(evs[0])
    ctx.sample(evs[-1])
    # ---- restart of real servers with existing datasets (with and without a catalogue snapshot)
    trace2, res = clusfam.run_scenarios(ctx, 1)
    v2, n2 = vlib.validate_trace(ctx, "ClusterViewTrace", "ClusterViewTrace.cfg", trace2, lambda l: l.startswith('{"ev":"scenario"'), chunk_events=100000)
    lines2 = open(trace2).read().splitlines()
    for v in v2:
        if v[1] in ("RestartFailed", "NodeDied"):
            e = json.loads(lines2[v[0]])
            ctx.finding("%s@real-server" % v[1], "a real server did not come back / died: %s" % json.dumps(e)[:500], {"event": e})
    nrestarts = sum(1 for x in lines2 if '"ev":"started"' in x)
    ctx.log("%d real-server (re)starts observed" % nrestarts)
    st = {}
    mut = json.loads(json.dumps(evs[:20]))
    mut[3]["stalled"], mut[3]["pending"] = 1, 2
    p = ctx.path("self1.ndjson")
    open(p, "w").writelines(json.dumps(e) + "\n" for e in mut)
    v, _ = vlib.validate_trace(ctx, "ControlPlaneTrace", "ControlPlaneTrace.cfg", p, lambda l: True)
    st["undrained_log_rejected"] = any(x[1] == "Stall" for x in v)
    ctx.cov["binding_selftest"].update(st)
    if not all(st.values()):
        raise vlib.NoVerdict("binding self-test failed: %s" % st)
    ctx.cov["traces_validated_against_impl"] = n + len(res)
    ctx.assumptions += ["the zero group is scripted: one apply goroutine applying entries in order, membership entries applied as Conn.AddNode/RemoveNode",
                        "a stall = the log is not drained 6 s after the last entry was queued; its signature = the blocked goroutines' anndb frames"]
    return "model_checking"
