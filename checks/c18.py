"""C18 - membership changes and restarts never wedge a node's control plane.

spec/ControlPlane.tla (apply goroutine vs allocator loop; TLC deadlock check; switches WatchSendUnderLock,
UnderRepl), ControlPlaneTrace (binding V).  Harness: cmd/ctrl (real Conn + Allocator + DatasetManager over a
scripted zero group, watchdog + goroutine-dump signature) and the real-server restart scenarios of clusfam."""
import itertools
import json
import re
import subprocess
from concurrent.futures import ThreadPoolExecutor

import clusfam
import vlib


def replay_readd():
    """A fast replay: the allocator loop gets to a new partition (watch) only after a later catalogue entry has added this
    node to its replica set and loaded the group (the loop is held between receiving the update and reading the
    replica set).  Afterwards the dataset is deleted: no raft group of it keeps running (C14), nothing stalls (C18)."""
    return [{"name": "replay-readd", "steps": s} for s in (
        ["hold-watch", "rcreate:2:2", "pnode+1", "settle", "release-watch", "settle"],
        ["hold-watch", "rcreate:2:2", "pnode+1", "settle", "release-watch", "settle", "rdelete", "create:1"],
        ["conf+2", "hold-watch", "rcreate:3:2", "pnode+1", "settle", "release-watch", "settle", "conf-2", "rdelete"],
        ["rcreate:2:2", "settle", "pnode+1", "settle", "rdelete"])]


def scenarios(quick):
    out = []
    alpha = ["conf+2", "create:1", "create:2", "delete", "conf-2", "conf+3"]
    n = 0
    for k in (2, 3) if quick else (2, 3, 4):
        for seq in itertools.product(alpha, repeat=k):
            if seq.count("delete") > seq.count("create:1") + seq.count("create:2"):
                continue
            n += 1
            if quick and k == 3 and n % 4:
                continue
            if not quick and k == 4 and n % 5:
                continue
            out.append({"name": "seq", "steps": list(seq)})
            out.append({"name": "burst", "steps": ["burst"] + list(seq)})
    # the TLC deadlock trace of ControlPlane (UnderRepl, entries <<conf, create>>): an under-replicated
    # partition exists, then a membership change and a create are applied back to back
    out.append({"name": "tlc-deadlock-underrepl", "steps": ["create:2", "settle", "burst", "conf+2", "create:1"]})
    # long membership histories (what a node that has been up for a while has seen, and what a restart replays
    # in one burst): every notification has to be consumed, however many there were before it
    churn = []
    for i in range(9 if quick else 30):
        churn += ["conf+%d" % (2 + i % 4), "conf-%d" % (2 + i % 4)]
    out.append({"name": "churn", "steps": ["create:1"] + churn + ["create:1", "delete"]})
    out.append({"name": "churn-burst", "steps": ["create:1", "settle", "burst"] + churn + ["create:1", "delete"]})
    out.append({"name": "churn-catalogue", "steps": sum([[c, "create:1"] if i % 5 == 0 else [c] for i, c in enumerate(churn)], []) + ["delete"]})
    # a restart that re-announces a peer which the catalogue already lists as a replica of an under-replicated
    # partition, followed by that peer's removal: the worker has to get through both
    for steps in (["burst", "rcreate:3:1,2", "conf+2", "conf-2"], ["rcreate:3:1,2", "conf+2", "settle", "conf+3", "conf-2"],
                  ["burst", "rcreate:3:1,2", "rcreate:2:1", "conf+2", "conf+3", "create:2", "conf-3"], ["burst", "conf+2", "create:3", "conf-2"],
                  ["rcreate:2:1,2", "rcreate:3:1,3", "conf+3", "conf+2", "settle", "create:1", "conf-2", "delete"]):
        out.append({"name": "reannounce", "steps": steps})
    # a restart with a replica whose stored raft snapshot does not load: the group fails to start, the allocator goes
    # on without it; the dataset is deleted later (the half-started group is stopped) and the catalogue keeps changing
    for steps in (["rcreate!:1:1", "settle", "rdelete", "create:1", "create:1", "delete"],
                  ["burst", "rcreate!:2:1,2", "conf+2", "rdelete", "create:2", "conf-2", "create:1"],
                  ["create:1", "rcreate!:1:1", "rcreate:1:1", "settle", "rdelete", "delete", "create:1"]):
        out.append({"name": "unloadable-replica", "steps": steps})
    # a client write without a deadline sits in a partition group that still has a leader but can no longer commit (the
    # replica it was given does not answer); the write gives up at the server's own limit - the dataset is then
    # deleted and the catalogue keeps changing: unloading the partition must not wait for that caller for ever
    out.append({"name": "stuck-write", "steps": ["rcreate:2:1", "sleep:1800", "conf+2", "sleep:1800", "fwrite", "rdelete", "create:1", "create:1", "delete"]})
    out += replay_readd()
    # membership changes while other goroutines of the node dial peers (two locks in cluster.Conn: address book, connections)
    dchurn = []
    for i in range(40 if quick else 150):
        dchurn += ["conf+%d" % (2 + i % 4), "conf-%d" % (2 + i % 4)]
    out.append({"name": "dial-churn", "steps": ["dialers", "create:1"] + dchurn + ["create:1", "delete"]})
    out.append({"name": "read-churn", "steps": ["readers", "create:1"] + dchurn + ["create:2", "delete"]})
    out.append({"name": "dial-churn-burst", "steps": ["dialers", "create:1", "settle", "burst"] + dchurn + ["create:1", "delete"]})
    # a partition whose raft group has no leader (its other replica is not there): the peer is removed, the
    # dataset deleted, further catalogue changes follow - every wait on that group has to be abandonable
    for steps in (["conf+2", "create:2", "settle", "conf-2", "delete", "create:1"],
                  ["conf+2", "create:2", "settle", "conf-2", "settle", "delete", "create:1", "delete"],
                  ["conf+2", "conf+3", "create:3", "settle", "conf-3", "conf-2", "delete", "create:1"],
                  ["conf+2", "create:2", "create:2", "settle", "conf-2", "delete", "delete", "conf+3", "create:2"]):
        out.append({"name": "leaderless", "steps": steps})
        out.append({"name": "leaderless-burst", "steps": ["burst"] + [x for x in steps if x != "settle"]})
    # entries proposed by other nodes: this node is dropped from / added to replica sets of partitions it
    # does or does not host (it left and re-joined; partition leaders propose removals for every partition)
    for steps in (["conf+2", "fcreate:2", "pnode-1", "pnode+1", "create:1", "delete"],
                  ["conf+2", "fcreate:2", "pnode-1", "pnode-1", "pnode+1", "pnode-1", "pnode+1"],
                  ["conf+2", "fcreate:1", "pnode-1", "pnode+1", "pnode+2", "pnode-2", "create:1"],
                  ["conf+2", "conf+3", "fcreate:3", "conf-3", "pnode-3", "pnode+1", "pnode-1", "conf+3", "pnode+3"]):
        out.append({"name": "foreign", "steps": steps})
        out.append({"name": "foreign-burst", "steps": ["burst"] + steps})
    return out


def run(ctx):
    quick = ctx.tier == "quick"
    ctrl = ctx.go_build("cmd/ctrl", "ctrl")
    # ---- design: deadlock freedom per entry sequence and switch position
    ok = [("E_create_only", "TRUE", 10), ("E_conf_only", "TRUE", 10), ("E_conf_create", "TRUE", 10), ("E_burst", "TRUE", 10),
          ("E_churn", "TRUE", 2), ("E_conf_create", "FALSE", 10), ("E_burst", "FALSE", 1)]
    d = ctx.specdir()
    base = open(d + "/ControlPlane_mc.cfg").read()

    def tlc(ents, ur, under, name, count=True, inline="FALSE", cap=10, answer="TRUE"):
        txt = base.replace("Entries <- E_conf_create", "Entries <- " + ents).replace("UnderRepl = TRUE", "UnderRepl = " + ur) \
                  .replace("WatchSendUnderLock = FALSE", "WatchSendUnderLock = " + under) \
                  .replace("InlineNodeChanges = FALSE", "InlineNodeChanges = " + inline).replace("NotifCap = 10", "NotifCap = %d" % cap) \
                  .replace("AnswerEveryUpd = TRUE", "AnswerEveryUpd = " + answer)
        open(d + "/" + name + ".cfg", "w").write(txt)
        return ctx.tlc("ControlPlaneMC", name + ".cfg", timeout=300, name=name, count=count)
    for ents, ur, cap in ok:
        r = tlc(ents, ur, "FALSE", "cp-%s-%s-%d" % (ents, ur, cap), cap=cap)
        if r.deadlock or r.violated:
            raise vlib.NoVerdict("ControlPlane deadlocks for %s (proposals %s, capacity %d) in the repaired position: specification bug" % (ents, ur, cap))
    ctx.cov["exhaustive"] = True
    # vacuity guards: each shipped behaviour deadlocks the model
    r1 = tlc("E_conf_create", "FALSE", "TRUE", "cp-sendunderlock", count=False, inline="TRUE")
    ctx.cov["binding_selftest"]["switch_WatchSendUnderLock_TRUE_gives_deadlock"] = r1.deadlock
    r2 = tlc("E_conf_create", "TRUE", "FALSE", "cp-inline-lock", count=False, inline="TRUE")
    ctx.cov["binding_selftest"]["switch_InlineNodeChanges_TRUE_conf_create_gives_deadlock"] = r2.deadlock
    r3 = tlc("E_churn", "TRUE", "FALSE", "cp-inline-notif", count=False, inline="TRUE", cap=2)
    ctx.cov["binding_selftest"]["switch_InlineNodeChanges_TRUE_churn_gives_deadlock"] = r3.deadlock
    r4 = tlc("E_conf_create", "TRUE", "FALSE", "cp-noanswer", count=False, answer="FALSE")
    ctx.cov["binding_selftest"]["switch_AnswerEveryUpd_FALSE_gives_deadlock"] = r4.deadlock
    if not r4.deadlock:
        raise vlib.NoVerdict("vacuity guard failed: an applied proposal that is never answered does not deadlock the model")
    if not (r1.deadlock and r2.deadlock and r3.deadlock):
        raise vlib.NoVerdict("vacuity guard failed: a shipped behaviour does not deadlock the model (%s %s %s)" % (r1.deadlock, r2.deadlock, r3.deadlock))
    # cluster.Conn's two locks: the apply loop (RemoveNode / AddNode) against dialling goroutines
    rl = ctx.tlc("ConnLocks", "ConnLocks_mc.cfg", timeout=300, name="ConnLocks")
    if rl.deadlock or rl.violated:
        raise vlib.NoVerdict("ConnLocks deadlocks / violates %s in the shipped lock order: specification bug" % rl.violated)
    rl2 = ctx.tlc("ConnLocks", ctx.cfg("ConnLocks_mc.cfg", {"DialNested": "TRUE"}), timeout=300, name="ConnLocks-nested", count=False)
    ctx.cov["binding_selftest"]["switch_DialNested_TRUE_gives_deadlock"] = rl2.deadlock
    if not rl2.deadlock:
        raise vlib.NoVerdict("vacuity guard failed: a Dial that nests the two locks does not deadlock the model")
    rl3 = ctx.tlc("ConnLocks", ctx.cfg("ConnLocks_mc.cfg", {"NestedRead": "TRUE"}), timeout=300, name="ConnLocks-nestedread", count=False)
    ctx.cov["binding_selftest"]["switch_NestedRead_TRUE_gives_deadlock"] = rl3.deadlock
    if not rl3.deadlock:
        raise vlib.NoVerdict("vacuity guard failed: an address-book reader that takes the read lock twice does not deadlock the model")
    # ---- the real control plane under the same entry sequences
    scs = scenarios(quick)

    def one(a):
        i, sc = a
        tr = ctx.path("ctrl-%d.ndjson" % i)
        try:
            p = subprocess.run([ctrl, tr, json.dumps(sc)], stdout=subprocess.PIPE, stderr=subprocess.PIPE, timeout=90, env=vlib.goenv())
            err = p.stderr.decode(errors="replace")
            if p.returncode != 0 and "\npanic:" in "\n" + err:
                # the control plane's own code panicked (no recover in the allocator / apply goroutines): the node is gone
                frames = re.findall(r"github.com/marekgalovic/anndb/(?:storage|cluster|storage/raft)\.\(\*?(\w+)\)\.(\w+)", err.split("goroutine ", 2)[1] if "goroutine " in err else err)
                top = "<".join("%s.%s" % f for f in frames[:3]) or "outside anndb"
                if frames:
                    return json.dumps({"ev": "ctrl", "name": sc["name"], "steps": sc["steps"], "entries": len(sc["steps"]), "applied": 0, "pending": 1,
                                       "stalled": 1, "signature": "crash@" + top, "serving": 0})
        except subprocess.TimeoutExpired:
            return None       # the harness has its own watchdog (6 s): hitting the outer limit says the machine is loaded
        try:
            return open(tr).read().strip().splitlines()[-1]
        except Exception:
            return None
    with ThreadPoolExecutor(max_workers=10) as ex:
        lines = list(ex.map(one, enumerate(scs)))
    for i, x in enumerate(lines):
        if x is None:       # again, alone; a harness that still reports nothing is a tool failure, never a stall
            ctx.log("control-plane scenario %d produced no event within the time limit: running it again alone" % i)
            lines[i] = one((i, scs[i]))
            if lines[i] is None:
                raise vlib.NoVerdict("control-plane harness produced no event twice for %s" % json.dumps(scs[i])[:300])
    trace = ctx.path("ctrl.ndjson")
    open(trace, "w").write("\n".join(lines) + "\n")
    viols, n = vlib.validate_trace(ctx, "ControlPlaneTrace", "ControlPlaneTrace.cfg", trace, lambda l: True, chunk_events=5000)
    evs = [json.loads(x) for x in lines]
    by = {}
    for v in viols:
        e = evs[v[0]]
        if v[1] == "GroupOutlivesPartition":     # C14's business (a deleted dataset's partitions stop): reported by its check
            ctx.notes.append("GroupOutlivesPartition@%s belongs to C14" % e["name"])
            continue
        sig = "%s@%s" % (v[1], e["signature"] or "-")
        by.setdefault(sig, []).append(e)
    for sig in sorted(by):
        e = min(by[sig], key=lambda x: len(x["steps"]))
        ctx.finding(sig, "%s: entries %s -> applied %d, pending %d (%d such runs)" % (sig, e["steps"], e["applied"], e["pending"], len(by[sig])),
                    {"scenario": {"name": e["name"], "steps": e["steps"]}, "event": e})
    ctx.log("%d entry sequences on the real control plane: %d stalled" % (n, sum(e["stalled"] for e in evs)))
    ctx.sample(evs[0])
    ctx.sample(evs[-1])
    # ---- restart of real servers with existing datasets (with and without a catalogue snapshot)
    trace2, res = clusfam.run_scenarios(ctx, 1)
    v2, n2 = vlib.validate_trace(ctx, "ClusterViewTrace", "ClusterViewTrace.cfg", trace2, lambda l: l.startswith('{"ev":"scenario"'), chunk_events=100000)
    lines2 = open(trace2).read().splitlines()
    seen = set()
    for v in v2:
        e = json.loads(lines2[v[0]])
        if v[1] in ("RestartFailed", "NodeDied"):
            ctx.finding("%s@real-server" % v[1], "a real server did not come back / died: %s" % json.dumps(e)[:500], {"event": e})
            continue
        sc = ""
        for x in reversed(lines2[:v[0] + 1]):
            if x.startswith('{"ev":"scenario"'):
                sc = json.loads(x)["name"]
                break
        # a member died and was removed, datasets were deleted and created: a node that no longer answers List, or
        # refuses / never sees the catalogue changes, has a wedged control plane
        # whatever the scenario: a live node whose List call runs into its deadline no longer answers - its catalogue
        # apply loop (or whoever holds its lock) is stuck
        if v[1] == "ViewError" and "deadline" in e.get("err", "").lower() and sc != "dead-leave":
            sig = "Wedged@%s:ViewError" % sc
            if sig not in seen:
                seen.add(sig)
                ctx.finding(sig, "%s: a live node no longer answers List (restart / catching up with existing datasets): %s" % (sig, json.dumps({k: e[k] for k in e if k != "datasets"})[:400]), {"event": e})
            continue
        if sc == "dead-leave" and v[1] in ("ViewError", "DeleteFailed", "CreateFailed", "CatalogueDiffers", "CatalogueLostOnRestart", "DeletedStillListed"):
            sig = "Wedged@dead-leave:%s" % v[1]
            if sig not in seen:
                seen.add(sig)
                ctx.finding(sig, "%s: after a dead member was removed a node stopped applying / serving the catalogue: %s" % (sig, json.dumps(e)[:400]), {"event": e})
    nrestarts = sum(1 for x in lines2 if '"ev":"started"' in x)
    ctx.log("%d real-server (re)starts observed" % nrestarts)
    st = {}
    mut = json.loads(json.dumps(evs[:20]))
    mut[3]["stalled"], mut[3]["pending"] = 1, 2
    p = ctx.path("self1.ndjson")
    open(p, "w").writelines(json.dumps(e) + "\n" for e in mut)
    v, _ = vlib.validate_trace(ctx, "ControlPlaneTrace", "ControlPlaneTrace.cfg", p, lambda l: True)
    st["undrained_log_rejected"] = any(x[1] == "Stall" for x in v)
    ctx.cov["binding_selftest"].update(st)
    if not all(st.values()):
        raise vlib.NoVerdict("binding self-test failed: %s" % st)
    ctx.cov["traces_validated_against_impl"] = n + len(res)
    ctx.assumptions += ["the zero group is scripted: one apply goroutine applying entries in order, membership entries applied as Conn.AddNode/RemoveNode",
                        "a stall = the log is not drained 6 s after the last entry was queued; its signature = the blocked goroutines' anndb frames"]
    return "model_checking"
