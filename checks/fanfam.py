"""Shared pipeline of the scatter/gather checks C09 (search) and C17 (size).

spec/FanOut.tla, FanOutSize.tla (design, with the switches CloseChans / LoopVarShared), FanOutGen
(binding G/S: schedules), FanOutTrace (binding V).  Harness: cmd/fanout (real storage.Dataset against
scripted remote nodes, gates at the collector loops)."""
import json

import vlib


def harvest(ctx):
    path = ctx.path("sched.ndjson")
    seen = set()
    with open(path, "w") as f:
        def keep(line):
            if line.startswith('<<"H", "'):
                js = json.loads(line.rstrip("\n")[7:-2])
                if js not in seen:
                    seen.add(js)
                    f.write(js + "\n")
        ctx.tlc("FanOutGen", "FanOutGen.cfg", workers=2, timeout=600, keep_lines=keep)
    # TLC's emission order depends on worker timing: sort for a seed-stable selection
    lines = sorted(open(path).read().splitlines())
    # every schedule in which all workers succeed and nobody cancels (the success path in all
    # completion orders), plus a seed-dependent 1/stride sample of the rest
    stride = 12 if ctx.tier == "quick" else 2
    sel = []
    for n, line in enumerate(lines):
        s = json.loads(line)
        if (all(v == "ok" for v in s["o"].values()) and "X" not in s["s"]) or (n + ctx.seed) % stride == 0:
            sel.append(line)
    open(path, "w").write("\n".join(sel) + "\n")
    return path, len(lines)


def report(ctx, trace, viols, origin):
    evs = vlib.read_ndjson(trace)
    by = {}
    for v in viols:
        e = evs[v[0]]
        outs = ",".join("%s" % e["o"][w] for w in sorted(e["o"]))
        sig = "%s@%s:%s" % (v[1], e["ev"], outs)
        if e["ev"] == "parts":
            sig = "%s@parts:%s" % (v[1], e["s"][0])
        by.setdefault(sig, []).append(e)
    for sig in sorted(by):
        es = by[sig]
        e = min(es, key=lambda x: len(x["s"]))
        ctx.finding(sig, "%s (%s): workers %s, schedule %s, k=%s -> returned %s %s %s; %d such calls"
                    % (sig, origin, e["o"], e["s"], e.get("k"), e["ret"], e["res"], e["err"], len(es)),
                    {"event": e})
    return evs


def selftest(ctx, good_trace):
    allevs = vlib.read_ndjson(good_trace)
    evs = [e for e in allevs if e["ret"] == "ok" and e["res"]][:20] + allevs[:30]
    st = {}
    mut = json.loads(json.dumps(evs))
    for e in mut:
        if e["ret"] == "ok" and e["res"]:
            e["res"][0][-1] += 1
            break
    p = ctx.path("self1.ndjson")
    open(p, "w").writelines(json.dumps(e) + "\n" for e in mut)
    v, _ = vlib.validate_trace(ctx, "FanOutTrace", "FanOutTrace.cfg", p, lambda l: True)
    st["corrupted_result_rejected"] = len(v) > 0
    mut = json.loads(json.dumps(evs))
    for e in mut:
        if e["ret"] == "ok" and e["o"]:
            e["o"][sorted(e["o"])[0]] = "err"     # pretend a worker had failed: the success is now illegal
            break
    p = ctx.path("self2.ndjson")
    open(p, "w").writelines(json.dumps(e) + "\n" for e in mut)
    v, _ = vlib.validate_trace(ctx, "FanOutTrace", "FanOutTrace.cfg", p, lambda l: True)
    st["success_despite_failed_worker_rejected"] = any(x[1] == "PartialSuccess" for x in v)
    ctx.cov["binding_selftest"].update(st)
    if not all(st.values()):
        raise vlib.NoVerdict("binding self-test failed: %s" % st)


def run_search(ctx):
    quick = ctx.tier == "quick"
    fan = ctx.go_build("cmd/fanout", "fanout")
    # design: repaired position holds (also terminates under fairness); shipped positions give counterexamples
    r = ctx.tlc("FanOut", "FanOut_mc.cfg", timeout=600)
    if r.violated:
        raise vlib.NoVerdict("FanOut with CloseChans=none violates %s: specification bug" % r.violated)
    ctx.cov["exhaustive"] = True
    for pos in ("both", "resOnly"):
        rr = ctx.tlc("FanOut", ctx.cfg("FanOut_mc.cfg", {"CloseChans": '"%s"' % pos}), timeout=600, name="FanOut-" + pos, count=False)
        ctx.cov["binding_selftest"]["switch_CloseChans_%s_gives_counterexample" % pos] = rr.violated
        if not rr.violated:
            raise vlib.NoVerdict("vacuity guard failed for CloseChans=%s" % pos)
    sched, ns = harvest(ctx)
    trace = ctx.path("search.ndjson")
    ctx.run([fan, "search", sched, trace, str(ctx.seed), "1"], timeout=3000)
    trace1 = ctx.path("search-1p.ndjson")      # and on a single P (see run_size)
    ctx.run([fan, "search", sched, trace1, str(ctx.seed + 1), "3" if quick else "1"], timeout=3000, env={"GOMAXPROCS": "1"})
    with open(trace, "a") as f:
        f.write(open(trace1).read())
    viols, n = vlib.validate_trace(ctx, "FanOutTrace", "FanOutTrace.cfg", trace, lambda l: True, chunk_events=2000)
    evs = report(ctx, trace, viols, "Dataset.Search under forced schedules")
    nf = sum(e["forced"] for e in evs)
    ctx.log("Search: %d of %d TLC schedules forced on the real Dataset (%d fully forced): %d failed checks" % (n, ns, nf, len(viols)))
    ctx.sample(evs[7])
    total = n
    ptrace = ctx.path("parts.ndjson")
    npart = 600 if quick else 6000
    ctx.run([fan, "parts", str(npart), ptrace, str(ctx.seed)], timeout=3000)
    viols, n = vlib.validate_trace(ctx, "FanOutTrace", "FanOutTrace.cfg", ptrace, lambda l: True, chunk_events=2000)
    evs = report(ctx, ptrace, viols, "Dataset.SearchPartitions, collector released early/late")
    ctx.log("SearchPartitions: %d calls: %d failed checks" % (n, len(viols)))
    ctx.sample(evs[3])
    total += n
    selftest(ctx, trace)
    # the real gRPC handlers of a server process: searches over a dataset / partition that is not there (what a
    # lagging member sees right after a creation) and with a wrong dimension must fail, not return an empty success
    import subprocess
    api = ctx.go_build("cmd/api", "api")
    node = ctx.go_build("cmd/anndbnode", "anndbnode")
    classes = ["search.unknowndataset", "searchparts.unknowndataset", "searchparts.foreign", "searchparts.shortpartitionid", "search.dim",
               "searchparts.dim", "search.emptyquery", "searchparts.emptyquery", "search.ok"]
    atr = ctx.path("api-search.ndjson")
    procs = []
    for gi in range(3):
        procs.append(subprocess.Popen([api, node, ctx.path("apiw-%d" % gi), ctx.path("api-search-%d.ndjson" % gi), json.dumps(classes[gi::3])],
                                      stdout=subprocess.PIPE, stderr=subprocess.PIPE, env=vlib.goenv()))
    for pr in procs:
        try:
            pr.communicate(timeout=600)
        except subprocess.TimeoutExpired:
            pr.kill()
            raise vlib.NoVerdict("api driver timed out")
    with open(atr, "w") as f:
        for gi in range(3):
            f.write(open(ctx.path("api-search-%d.ndjson" % gi)).read())
    av, an = vlib.validate_trace(ctx, "ApiTrace", "ApiTrace.cfg", atr, lambda l: True, chunk_events=5000)
    aevs = vlib.read_ndjson(atr)
    if an != len(classes):
        raise vlib.NoVerdict("api driver covered %d of %d search classes" % (an, len(classes)))
    for v in av:
        e = aevs[v[0]]
        if v[1] == "Setup":
            raise vlib.NoVerdict("set-up of a server for class %s failed: %s" % (e["class"], e["setup"]))
        if v[1] == "SilentSuccess":
            ctx.finding("SilentSuccess@%s" % e["class"], "SilentSuccess: the request class %s was answered with an (empty) success instead of an error" % e["class"], {"event": e})
    ctx.log("%d search request classes against the real handlers: %d silent successes" % (an, sum(1 for v in av if v[1] == "SilentSuccess")))
    # the running system: searches through every one of three real server processes (partitions spread with two
    # replicas each, every search fans out to real peers), before and after kill -9 / restart and with a node down:
    # the 5 nearest are the 5 nearest of the full result, which holds exactly the acknowledged items
    import clusfam
    lines, nbad = clusfam.real_server_kinds(ctx, ["durable"], {"TopKNotUnion", "AckedLostOnRestart", "GhostAfterRestart"}, 1 if quick else 3)
    nsr = sum(1 for x in lines if '"ev":"found"' in x and '"err":""' in x)
    ctx.log("real servers: %d fan-out searches checked against the acknowledged writes: %d failed checks" % (nsr, nbad))
    if nsr == 0:
        raise vlib.NoVerdict("no search result was obtained from the real servers")
    ctx.cov["real_server_searches_checked"] = nsr
    ctx.cov["traces_validated_against_impl"] = total + 1
    ctx.cov["schedules_available"] = ns
    ctx.assumptions += ["Go's choice among ready select cases is not controllable: each schedule fixes the state in which the choice is made, and many schedules reach each state",
                        "remote nodes are scripted gRPC servers; only the caller (storage.Dataset) is under test",
                        "partition-level correctness (what each partition returns) is C01"]
    return "model_checking"


def run_size(ctx):
    quick = ctx.tier == "quick"
    fan = ctx.go_build("cmd/fanout", "fanout")
    r = ctx.tlc("FanOutSize", "FanOutSize_mc.cfg", timeout=600)
    if r.violated:
        raise vlib.NoVerdict("FanOutSize with LoopVarShared=FALSE violates %s: specification bug" % r.violated)
    ctx.cov["exhaustive"] = True
    rr = ctx.tlc("FanOutSize", ctx.cfg("FanOutSize_mc.cfg", {"LoopVarShared": "TRUE"}), timeout=600, name="FanOutSize-shared", count=False)
    ctx.cov["binding_selftest"]["switch_LoopVarShared_TRUE_gives_counterexample"] = rr.violated
    if not rr.violated:
        raise vlib.NoVerdict("vacuity guard failed for LoopVarShared=TRUE")
    sched, ns = harvest(ctx)
    trace = ctx.path("size.ndjson")
    ctx.run([fan, "size", sched, trace, str(ctx.seed), "1"], timeout=3000)
    # the same schedules on a single P: goroutines then start in the runtime's LIFO order (the helper that closes
    # the channel runs before the lookups it waits for), which many cores never show
    trace1 = ctx.path("size-1p.ndjson")
    ctx.run([fan, "size", sched, trace1, str(ctx.seed + 1), "3" if quick else "1"], timeout=3000, env={"GOMAXPROCS": "1"})
    with open(trace, "a") as f:
        f.write(open(trace1).read())
    viols, n = vlib.validate_trace(ctx, "FanOutTrace", "FanOutTrace.cfg", trace, lambda l: True, chunk_events=2000)
    evs = report(ctx, trace, viols, "Dataset.SizeInfo under forced schedules")
    ctx.log("SizeInfo: %d of %d TLC schedules forced on the real Dataset: %d failed checks" % (n, ns, len(viols)))
    ctx.sample(evs[5])
    selftest(ctx, trace)
    # the running system: three real server processes, a dataset of four partitions with two replicas each, writes
    # through every node; the size every node reports (its local partitions + lookups at the real peers) is the
    # number of live items - also after kill -9 / restart and with one node down
    import clusfam
    lines, nbad = clusfam.real_server_kinds(ctx, ["durable", "size-down"], {"SizeNotSum", "ForeignPartitionServed"}, 1 if quick else 3)
    nsz = sum(1 for x in lines if '"ev":"found"' in x and '"sizeerr":""' in x)
    ctx.log("real servers: %d dataset sizes reported by the nodes checked against the acknowledged writes: %d failed checks" % (nsz, nbad))
    if nsz == 0:
        raise vlib.NoVerdict("no dataset size was obtained from the real servers")
    ctx.cov["real_server_sizes_checked"] = nsz
    ctx.cov["traces_validated_against_impl"] = n + 1
    ctx.assumptions += ["remote nodes are scripted gRPC servers with distinct power-of-two sizes, so a double count or a missed partition changes the sum"]
    return "model_checking"
