"""C13 - the index is safe under concurrent inserts, removals and searches.

spec/HnswConc.tla (Insert / Remove / Search cut at the yield points; TLC: LenOK, QuiescentEpLive, NoNilDeref per
thread program), HnswConcTrace (binding V).  Harness: cmd/conc (gate-forced schedules through the verif yield points,
free-running stress with call-interval stamps; also built with -race)."""
import json
import re
import os
import subprocess

import hnswfam
import vlib


def run(ctx):
    quick = ctx.tier == "quick"
    conc = ctx.go_build("cmd/conc", "conc")
    part = ctx.go_build("cmd/part", "part")
    d = ctx.specdir()
    base = open(os.path.join(d, "HnswConc_mc.cfg")).read()

    def tlc(prog, init, name, safe="TRUE", count=True, start="TRUE"):
        open(os.path.join(d, name + ".cfg"), "w").write(base.replace("Prog <- P_writer_readers", "Prog <- " + prog)
                                                        .replace("Initial <- I3", "Initial <- " + init)
                                                        .replace("SafeHandOver = TRUE", "SafeHandOver = " + safe)
                                                        .replace("StartFiltered = TRUE", "StartFiltered = " + start))
        return ctx.tlc("HnswConcMC", name + ".cfg", timeout=300, name=name, count=count)
    for prog, init in (("P_writer_readers", "I3"), ("P_ins_readers", "I1"), ("P_rem_rem", "I3"), ("P_rem_ins", "I1")):
        r = tlc(prog, init, "conc-" + prog)
        if r.violated:
            raise vlib.NoVerdict("HnswConc violates %s for program %s in the repaired position: specification bug" % (r.violated, prog))
    ctx.cov["exhaustive"] = True
    r1 = tlc("P_rem_rem", "I3", "conc-remrem-shipped", safe="FALSE", count=False)
    r2 = tlc("P_rem_ins", "I1", "conc-remins-shipped", safe="FALSE", count=False)
    ctx.cov["binding_selftest"]["switch_SafeHandOver_FALSE_rem_rem_counterexample"] = r1.violated
    ctx.cov["binding_selftest"]["switch_SafeHandOver_FALSE_rem_ins_counterexample"] = r2.violated
    r3 = tlc("P_writer_readers", "I3", "conc-start-unfiltered", start="FALSE", count=False)
    ctx.cov["binding_selftest"]["switch_StartFiltered_FALSE_single_writer_counterexample"] = r3.violated
    if not r3.violated:
        raise vlib.NoVerdict("vacuity guard failed: a search that does not filter its start vertex does not violate SearchLive")
    if not (r1.violated and r2.violated):
        raise vlib.NoVerdict("vacuity guard failed: the shipped hand-over does not violate the model invariants with two writers")
    with open(os.path.join(d, "HnswRankDef.tla"), "w") as f:
        f.write(hnswfam.write_rank_module(ctx, part, "euclidean", 7, 3))
    # ---- forced schedules (TLC counterexamples + the single writer parked at every yield point)
    trace = ctx.path("conc.ndjson")
    ctx.run([conc, "forced", ctx.path("forced.ndjson")], timeout=300)
    parts = [open(ctx.path("forced.ndjson")).read()]
    origin = ["forced"] * len(parts[0].splitlines())
    # ---- stress: the server's usage (1 writer, many readers) and the benchmark's (many writers)
    runs = [(1, 4), (1, 2), (3, 2), (4, 0)] * (2 if quick else 12)
    for i, (w, r) in enumerate(runs):
        p = ctx.path("stress-%d.ndjson" % i)
        where = "stress:%s" % ("single-writer" if w == 1 else "multi-writer")
        try:
            sp = subprocess.run([conc, "stress", p, str(ctx.seed * 100 + i), str(w), str(r), "300" if quick else "1500"],
                                stdout=subprocess.PIPE, stderr=subprocess.PIPE, timeout=600, env=vlib.goenv(), cwd=ctx.scratch)
        except subprocess.TimeoutExpired:
            raise vlib.NoVerdict("stress run %d timed out" % i)
        if sp.returncode != 0:
            err = sp.stderr.decode(errors="replace")
            m = re.search(r"^fatal error: (concurrent map[^\n]*|all goroutines are asleep[^\n]*)", err, re.M)
            if not m:
                raise vlib.NoVerdict("stress harness exit %d: %s" % (sp.returncode, err[-2000:]))
            # the Go runtime killed the process inside the index code: an unrecoverable crash of the real code
            frames = [x.strip() for x in err.splitlines() if "anndb/index." in x][:4]
            ctx.finding("RuntimeFatal@%s" % where, "RuntimeFatal@%s: the Go runtime aborted the process with '%s' with %d writers and %d readers on one index (%s)"
                        % (where, m.group(0), w, r, "; ".join(frames)), {"writers": w, "readers": r, "seed": ctx.seed * 100 + i, "stderr": err[:3000]})
            continue
        txt = open(p).read()
        parts.append(txt)
        origin += ["stress:%s" % ("single-writer" if w == 1 else "multi-writer")] * len(txt.splitlines())
    open(trace, "w").write("".join(parts))
    viols, n = vlib.validate_trace(ctx, "HnswConcTrace", "HnswConcTrace.cfg", trace, lambda l: True, chunk_events=1500)
    lines = open(trace).read().splitlines()
    by = {}
    for v in viols:
        e = json.loads(lines[v[0]])
        where = origin[v[0]]
        if where == "forced":
            where = "forced:" + e["name"]
        sig = "%s@%s" % (v[1], where)
        by.setdefault(sig, []).append(e)
    for sig in sorted(by):
        e = by[sig][0]
        ctx.finding(sig, "%s: %s (%d such events)" % (sig, json.dumps({k: e[k] for k in e if k not in ("sr",)})[:500], len(by[sig])), {"event": e})
    ns = sum(1 for x in lines if x.startswith('{"e":') or '"ev":"search"' in x)
    ctx.log("%d events (%d concurrent searches, %d stress runs, %d forced schedules) validated: %d failed checks" %
            (n, ns, len(runs), len(parts[0].splitlines()), len(viols)))
    ctx.sample(json.loads(parts[0].splitlines()[3]))
    ctx.sample(json.loads([x for x in lines if '"ev":"search"' in x][5]))
    # ---- the race detector (reported, not decided: the Go memory model is outside the specification)
    try:
        rb = ctx.go_build("cmd/conc", "conc-race", race=True)
        p = subprocess.run([rb, "stress", ctx.path("race.ndjson"), "7", "1", "3", "300"], stdout=subprocess.PIPE, stderr=subprocess.PIPE, timeout=300, env=vlib.goenv())
        ctx.cov["race_detector_reports_single_writer"] = p.stderr.decode(errors="replace").count("WARNING: DATA RACE")
    except Exception as e:      # noqa
        ctx.cov["race_detector_reports_single_writer"] = "not run: %s" % str(e)[:100]
    st = {}
    good = [e for e in (json.loads(x) for x in lines if '"ev":"search"' in x) if e["res"]][:30]
    mut = json.loads(json.dumps(good))
    for e in mut:
        if e["res"]:
            k = str(e["res"][0][0])
            e["ops"][k] = [[1, 2, "insert", "ok", 1], [3, 4, "remove", "ok", 1]]   # the item was gone long before the search
            e["s"], e["e"] = 1000000, 1000001
            break
    p = ctx.path("self1.ndjson")
    open(p, "w").writelines(json.dumps(e) + "\n" for e in mut)
    v, _ = vlib.validate_trace(ctx, "HnswConcTrace", "HnswConcTrace.cfg", p, lambda l: True)
    st["ghost_result_rejected"] = any(x[1] == "SearchGhost" for x in v)
    ctx.cov["binding_selftest"].update(st)
    if not all(st.values()):
        raise vlib.NoVerdict("binding self-test failed: %s" % st)
    ctx.cov["traces_validated_against_impl"] = len(runs) + len(parts[0].splitlines())
    ctx.assumptions += ["'no data races' is a statement about the Go memory model and is not decided by the specification; the stress binary is also run under -race and the count is recorded",
                        "per-id linearizability is checked through a necessary condition (successful inserts and removes balance and agree with final presence), not by a full search",
                        "a search result is a ghost only if every successful insert of the id was definitely removed (a remove called after the insert returned and finished before the search started)"]
    return "model_checking"
