"""C15 - the AVX / SSE distance kernels agree with the portable kernels and stay in bounds.

spec/Kernel.tla (loop structure of the generated assembly: unrolled vector loop, single vector loop,
horizontal sum, odd scalar, scalar pairs - per (W, U)), KernelGen (binding G: the plan of loads and the
summation order per length), KernelTrace (binding V).  harness/cmd/kern evaluates every emitted plan in
IEEE-754 binary32 and compares it bit for bit with the real kernels, called on vectors in a guarded
arena; the property-level checks (forward error bound around the exact distance for kernel and portable
implementation, out-of-bounds dependence, symmetry, sign, self distance, CPU dispatch) produce the verdict.
DESIGN.md section 5, C15 and section 10.9.
"""
import json
import os

import vlib

SHAPES = [(8, 4), (8, 2), (4, 4), (4, 2), (1, 1)]


def emit_plans(ctx, maxlen, out_path, minlen=1, mode="w"):
    n = 0
    with open(out_path, mode) as out:
        for w, u in SHAPES:
            gen = ctx.cfg("KernelGen.cfg", {"W": w, "U": u, "MinLen": minlen, "MaxLen": maxlen}, name="KernelGen_%d_%d_%d.cfg" % (w, u, minlen))
            seen = set()

            def keep(line):
                if line.startswith('<<"K", "'):
                    js = json.loads(line.rstrip("\n")[len('<<"K", '):-2])
                    if js not in seen:
                        seen.add(js)
                        out.write(js + "\n")
            ctx.tlc("KernelGen", gen, workers=1, timeout=1800, keep_lines=keep, name="KernelGen-%d-%d" % (w, u), count=False)
            if len(seen) != maxlen - minlen + 1:
                raise vlib.NoVerdict("KernelGen W=%d U=%d emitted %d plans for %d lengths" % (w, u, len(seen), maxlen - minlen + 1))
            n += len(seen)
    return n


def classify(ctx, trace_path, viols, prefix=""):
    evs = vlib.read_ndjson(trace_path)
    drift = {}
    by_sig = {}
    for v in viols:
        ln, kind = v[0], v[1]
        e = evs[ln]
        if kind == "Drift":
            k = "%s.%s" % (e["impl"], e["kern"])
            drift[k] = drift.get(k, 0) + (e["cases"] - e["exact"])
            continue
        if kind == "Crash":
            cls = e["group"]
            sig = "Crash@%s.%s:%s" % (e["impl"], e["kern"], cls)
            what = "the process dies with %s in %s (%s)" % (e["signal"], e["frame"].split("/")[-1], e["last"])
            by_sig.setdefault(sig, (what, {"event": e}))
            continue
        if kind in ("Shape", "Malformed"):
            raise vlib.NoVerdict("kernel trace line %d is not a well-formed event of this harness: %s" % (ln, kind))
        f = e["fail"][int(v[2]) - 1]
        sig = "%s@%s.%s:%s" % (f["kind"], e["impl"], e["kern"], f["cls"])
        if sig not in by_sig or e["len"] < by_sig[sig][1]["len"]:
            by_sig[sig] = ("%s (placement %s)" % (f["detail"], f["place"]),
                           {"impl": e["impl"], "kern": e["kern"], "len": e["len"], "class": f["cls"], "placement": f["place"], "group": e["group"]})
    for sig in sorted(by_sig):
        what, case = by_sig[sig]
        ctx.finding(sig, prefix + sig.split("@")[0] + ": " + what, case)
    for k, n in sorted(drift.items()):
        ctx.model_drift("%s: %d calls return a value that is not the bit pattern of the Kernel.tla plan evaluated in binary32" % (k, n))
    return by_sig


def is_reset(line):
    return True


def run(ctx):
    quick = ctx.tier == "quick"
    kern = ctx.go_build("cmd/kern", "kern")
    maxlen = 520 if quick else 4096
    mc_len = 1100 if quick else 4096

    # 1. the design: every length, every shape of the generated code; all invariants + termination
    for w, u in SHAPES[:4]:
        mc = ctx.cfg("Kernel_mc.cfg", {"W": w, "U": u, "MaxLen": mc_len}, name="Kernel_mc_%d_%d.cfg" % (w, u))
        r = ctx.tlc("Kernel", mc, timeout=1800, coverage=(quick and (w, u) == (8, 4)), name="Kernel-%d-%d" % (w, u))
        if r.violated or r.deadlock:
            raise vlib.NoVerdict("Kernel.tla violates %s for W=%d U=%d in the shipped switch position: specification bug" % (r.violated, w, u))
    ctx.cov["exhaustive"] = True
    # 2. vacuity guards: each switch in the other position must give a counterexample
    st = ctx.cov["binding_selftest"]
    for name, over in (("VecBound_ceil", {"VecBound": '"ceil"'}), ("TailOddFirst_FALSE", {"TailOddFirst": "FALSE"}),
                       ("TailExit_lt_without_peel", {"TailExit": '"lt"', "TailOddFirst": "FALSE"})):
        o = {"W": 8, "U": 4, "MaxLen": 40}
        o.update(over)
        r = ctx.tlc("Kernel", ctx.cfg("Kernel_mc.cfg", o, name="Kernel_sw_%s.cfg" % name), timeout=300, name="Kernel-" + name, count=False)
        st["switch_%s_gives_counterexample" % name] = bool(r.violated)
        if not r.violated:
            raise vlib.NoVerdict("vacuity guard failed: switch %s does not violate Kernel.tla" % name)

    # 3. binding G: plans for every length, evaluated against the real kernels
    plans = ctx.path("plans.ndjson")
    np_ = emit_plans(ctx, maxlen, plans)
    if quick:
        # a few lengths around the next powers of two as well (wrappers that work in blocks have their seams there)
        np_ += emit_plans(ctx, 1040, plans, minlen=1020, mode="a")
        np_ += emit_plans(ctx, 2056, plans, minlen=2040, mode="a")
    ctx.log("TLC emitted %d plans" % np_)
    trace = ctx.path("kern_trace.ndjson")
    ctx.run([kern, "sweep", plans, trace, str(ctx.seed), ctx.tier], timeout=3000)
    # 4. binding V
    viols, n = vlib.validate_trace(ctx, "KernelTrace", "KernelTrace.cfg", trace, is_reset, chunk_events=4000)
    evs = vlib.read_ndjson(trace)
    lens = [e for e in evs if e["ev"] == "len"]
    calls = sum(e["cases"] for e in lens)
    exact = sum(e["exact"] for e in lens)
    ctx.log("validated %d events: %d kernel calls, %d bit-exact with the model plan, %d failed checks" % (n, calls, exact, len(viols)))
    classify(ctx, trace, viols)
    ctx.cov["kernel_calls"] = calls
    ctx.cov["kernel_calls_bit_exact_with_model_plan"] = exact
    ctx.cov["judged_against_error_bound"] = sum(e["judged"] for e in lens)
    ctx.cov["outside_portable_regime_not_judged"] = sum(e["unjudged"] for e in lens)
    ctx.cov["lengths"] = "1..%d" % maxlen
    ctx.cov["max_error_over_tolerance"] = {"%s.%s" % (i, k): max([float(e["maxerr"]) for e in lens if e["impl"] == i and e["kern"] == k and e["nfail"] == 0] or [0])
                                           for i in ("avx", "sse", "native") for k in ("euclidean", "manhattan", "cosine")}
    ctx.cov["traces_validated_against_impl"] = len(evs)
    for e in lens:
        if e["impl"] == "avx" and e["len"] in (37, 131) and e["group"] == "unaligned":
            ctx.sample({k: e[k] for k in ("impl", "kern", "group", "len", "w", "u", "cases", "exact", "judged", "nfail", "maxerr")})

    # 5. binding self-test: a corrupted / dropped field must be rejected; a kernel that skips its tail must be seen
    good = [e for e in lens if e["nfail"] == 0 and e["exact"] == e["cases"]][:50]
    if len(good) < 10:
        raise vlib.NoVerdict("binding self-test: fewer than 10 clean events")
    mut = [dict(e) for e in good]
    mut[3]["fail"] = [{"kind": "Disagree", "cls": "ints", "place": "end", "detail": "self-test"}]
    mut[3]["nfail"] = 1
    mut[5]["w"] = 16
    p1 = ctx.path("self_corrupt.ndjson")
    with open(p1, "w") as f:
        for e in mut:
            f.write(json.dumps(e) + "\n")
    v1, _ = vlib.validate_trace(ctx, "KernelTrace", "KernelTrace.cfg", p1, is_reset)
    st["injected_disagreement_rejected"] = any(v[1] == "Disagree" for v in v1)
    st["corrupted_shape_rejected"] = any(v[1] == "Shape" for v in v1)
    # plans of the "ceil" switch position fed to the harness: the real kernels must NOT match them
    bad = ctx.path("plans_bad.ndjson")
    with open(plans) as f, open(bad, "w") as g:
        for line in f:
            p = json.loads(line)
            if p["w"] == 8 and p["len"] in (9, 17, 40, 67) and len(p["plan"]) == 2:
                p["plan"][1]["n"] -= 1          # a plan that forgets the last element
                g.write(json.dumps(p) + "\n")
    t2 = ctx.path("kern_bad.ndjson")
    ctx.run([kern, "sweep", bad, t2, str(ctx.seed), "quick"], timeout=600)
    e2 = [e for e in vlib.read_ndjson(t2) if e["ev"] == "len" and e["impl"] == "avx"]
    st["wrong_plan_not_bit_exact"] = bool(e2) and all(e["exact"] < e["cases"] for e in e2)
    if not all(st.values()):
        raise vlib.NoVerdict("binding self-test failed: %s" % st)

    ctx.cov["rule"] = ("TLC checks the loop structure of the six generated kernels (bounds, exactly-once coverage, tail parity, termination) for "
                       "every length; the emitted plan per length is evaluated in binary32 and must equal the real kernel's result bit for bit "
                       "(else MODEL-DRIFT); verdicts come from the real kernels: forward error bound around the exact distance, guard pages / "
                       "canaries, symmetry, sign, self distance, CPU dispatch")
    ctx.assumptions += ["Go's float32 arithmetic on amd64 is IEEE-754 binary32 without fusion (explicit conversions in the evaluator)",
                        "cosine distance is judged only where both squared norms lie in [2^-100, 2^126] (outside, the portable algorithm itself over/underflows); zero vectors are not judged",
                        "alignment is probed at all 4-byte offsets modulo 32 that the placements produce, next to PROT_NONE pages on either side"]
    return "model_checking"
