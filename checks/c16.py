"""C16 - every partition is placed on min(R, N) distinct member nodes, independently.

spec/Catalogue.tla (Placements = the allowed set, independent per partition), CatalogueTrace (binding V).
Harness: cmd/place (the real allocator over a real cluster.Conn)."""
import json

import vlib


def run(ctx):
    quick = ctx.tier == "quick"
    place = ctx.go_build("cmd/place", "place")
    # the allowed set, enumerated by TLC (vacuity: non-diagonal placements exist in the model)
    r = ctx.tlc("Catalogue", ctx.cfg("Catalogue_mc.cfg", {"Nodes": "{1, 2, 3}", "NP": 2, "R": 2, "MaxLog": 1}), timeout=600)
    if r.violated:
        raise vlib.NoVerdict("Catalogue violates %s" % r.violated)
    ctx.cov["exhaustive"] = True
    trace = ctx.path("place.ndjson")
    ctx.run([place, trace, str(ctx.seed), "64" if quick else "512"], timeout=900)
    viols, n = vlib.validate_trace(ctx, "CatalogueTrace", "CatalogueTrace.cfg", trace, lambda l: True, chunk_events=3000)
    evs = vlib.read_ndjson(trace)
    by = {}
    for v in viols:
        e = evs[v[0]]
        sig = "%s@%s" % (v[1], "R<N" if e["r"] < e["n"] else "R>=N")
        by.setdefault(sig, []).append(e)
    for sig in sorted(by):
        e = min(by[sig], key=lambda x: (x["n"], x["p"], x["r"]))
        ctx.finding(sig, "%s: N=%d members, R=%d, P=%d -> %s (%d such events)" % (sig, e["n"], e["r"], e["p"], json.dumps(e)[:300], len(by[sig])), {"event": e})
    ctx.log("%d placement events validated: %d failed checks" % (n, len(viols)))
    ctx.sample([e for e in evs if e["ev"] == "place" and e["n"] == 4 and e["p"] == 3 and e["r"] == 2][0])
    # the whole path on a real server: DatasetManager.Create with a request that already carries partitions
    import subprocess
    node = ctx.go_build("cmd/anndbnode", "anndbnode")
    api = ctx.go_build("cmd/api", "api")
    atr = ctx.path("api-c16.ndjson")
    try:
        subprocess.run([api, node, ctx.path("apiw-c16"), atr, json.dumps(["create.ok", "create.withpartitions"])], stdout=subprocess.PIPE,
                       stderr=subprocess.PIPE, timeout=600, env=vlib.goenv())
    except subprocess.TimeoutExpired:
        raise vlib.NoVerdict("api driver timed out")
    aev = vlib.read_ndjson(atr)
    if len(aev) != 2 or any(e["setup"] for e in aev):
        raise vlib.NoVerdict("api driver did not run the creation classes: %s" % json.dumps(aev)[:300])
    for e in aev:
        if e["outcome"] != "ok" and e["alive"] == 1:
            ctx.finding("PlacementInvalid@%s" % e["class"], "PlacementInvalid@%s: %s" % (e["class"], e["err"][:300]), {"event": e})
    ctx.cov["real_server_creations"] = len(aev)
    st = {}
    mut = json.loads(json.dumps(evs[:40]))
    for e in mut:
        if e["ev"] == "place" and e["pl"] and len(e["pl"][0]) >= 1:
            e["pl"][0][0] = 999      # a node that is not a member
            break
    p = ctx.path("self1.ndjson")
    open(p, "w").writelines(json.dumps(e) + "\n" for e in mut)
    v, _ = vlib.validate_trace(ctx, "CatalogueTrace", "CatalogueTrace.cfg", p, lambda l: True)
    st["non_member_rejected"] = any(x[1] == "PlacementInvalid" for x in v)
    ctx.cov["binding_selftest"].update(st)
    if not all(st.values()):
        raise vlib.NoVerdict("binding self-test failed: %s" % st)
    ctx.cov["traces_validated_against_impl"] = n
    ctx.assumptions += ["independence is a possibility property: decided by requiring a non-diagonal placement among the draws (false-alarm probability <= 2^-draws)"]
    return "model_checking"
