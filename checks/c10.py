"""C10 - item routing is a stable, total function of the id and the partition count.

spec/Cluster.tla (owner function, entry nodes, API paths; switch PathOwner), ClusterTrace (binding V).
Harness: cmd/route (real Dataset write paths; every partition on its own scripted node)."""
import json

import clusfam
import vlib


def run(ctx):
    quick = ctx.tier == "quick"
    route = ctx.go_build("cmd/route", "route")
    r = ctx.tlc("ClusterMC", "Cluster_mc.cfg", timeout=600)
    if r.violated:
        raise vlib.NoVerdict("Cluster violates %s" % r.violated)
    ctx.cov["exhaustive"] = True
    bad = ctx.cfg("Cluster_mc.cfg", {}, name="Cluster_bad.cfg")
    txt = open(ctx.specdir() + "/Cluster_bad.cfg").read().replace("PathOwner <- GoodPaths", "PathOwner <- BadPaths")
    open(ctx.specdir() + "/Cluster_bad.cfg", "w").write(txt)
    rr = ctx.tlc("ClusterMC", "Cluster_bad.cfg", timeout=600, name="Cluster-badpath", count=False)
    ctx.cov["binding_selftest"]["path_with_other_owner_function_gives_counterexample"] = rr.violated
    if not rr.violated:
        raise vlib.NoVerdict("vacuity guard failed: a path computing another owner does not violate OwnerOnly")
    trace = ctx.path("route.ndjson")
    ctx.run([route, trace, str(ctx.seed), "60" if quick else "600"], timeout=1800)
    viols, n = vlib.validate_trace(ctx, "ClusterTrace", "ClusterTrace.cfg", trace, lambda l: l.startswith('{"ev":"dataset"'), chunk_events=5000)
    evs = vlib.read_ndjson(trace)
    by = {}
    for v in viols:
        e = evs[v[0]]
        sig = "%s@%s:%s" % (v[1], e["entry"], e["path"])
        by.setdefault(sig, []).append(e)
    for sig in sorted(by):
        e = by[sig][0]
        ctx.finding(sig, "%s: id %s with %d partitions entering at %s through %s went to partition %d (%s); %d such calls"
                    % (sig, e["hex"], e["np"], e["entry"], e["path"], e["got"], e["err"][:80], len(by[sig])), {"event": e})
    ctx.log("%d routed write calls validated: %d failed checks" % (n, len(viols)))
    ctx.sample([e for e in evs if e["ev"] == "route"][100])
    st = {}
    mut = json.loads(json.dumps(evs[:200]))
    for e in mut[50:]:
        if e["ev"] == "route" and e["np"] > 1 and e["path"] == "bupdate":
            e["got"] = (e["got"] + 1) % e["np"]
            break
    else:
        mut = json.loads(json.dumps([x for x in evs if x["ev"] == "dataset" or x["np"] == 3][:200]))
        for e in mut[50:]:
            if e["ev"] == "route" and e["path"] == "bupdate":
                e["got"] = (e["got"] + 1) % e["np"]
                break
    p = ctx.path("self1.ndjson")
    open(p, "w").writelines(json.dumps(e) + "\n" for e in mut)
    v, _ = vlib.validate_trace(ctx, "ClusterTrace", "ClusterTrace.cfg", p, lambda l: False)
    st["one_path_routing_elsewhere_rejected"] = any(x[1] == "OwnerDiffers" for x in v)
    ctx.cov["binding_selftest"].update(st)
    if not all(st.values()):
        raise vlib.NoVerdict("binding self-test failed: %s" % st)
    # the partition list a dataset was created with is what routing indexes into: on real server
    # processes it must keep its order through descriptor reads, log compaction, snapshot restore
    # and restart (ClusterViewTrace: PartitionOrderChanged)
    ctrace, res = clusfam.run_scenarios(ctx, 1 if quick else 4, ["snapshot", "lagging"])
    cv, cn = vlib.validate_trace(ctx, "ClusterViewTrace", "ClusterViewTrace.cfg", ctrace, lambda l: l.startswith('{"ev":"scenario"'), chunk_events=100000)
    clines = open(ctrace).read().splitlines()
    byk = {}
    for v in cv:
        if v[1] != "PartitionOrderChanged":
            continue
        e = json.loads(clines[v[0]])
        byk.setdefault("PartitionOrderChanged@%s" % e.get("after", ""), []).append(e)
    for sig in sorted(byk):
        e = byk[sig][0]
        ctx.finding(sig, "%s: node %s lists a dataset's partitions in another order than the dataset was created with (%d such views): %s"
                    % (sig, e.get("node"), len(byk[sig]), json.dumps(e["datasets"])[:400]), {"event": e})
    ctx.log("%d real-cluster scenarios (descriptor reads, snapshot, restart): %d views, %d partition-order failures"
            % (len(res), sum(1 for x in clines if '"ev":"view"' in x), sum(len(x) for x in byk.values())))
    ctx.cov["traces_validated_against_impl"] = n + len(res)
    ctx.assumptions += ["'for all 128-bit ids and partition counts up to 1024' is arithmetic on one pure function beyond TLC's integers: covered for partition counts 1,2,3,7,16 and ids spanning the extremes of both 64-bit halves plus seeded random ids only",
                        "forwarded single-item requests are observed at scripted owners; the owner re-routes with the same function"]
    return "model_checking"
