"""C04 - replicas applying the same log hold identical contents; snapshot equals replay.

spec/PartitionSM.tla (design, over the RepLog abstraction), PartitionMapGen (binding G: logs),
PartitionSMTrace (binding V).  Harness: cmd/part replicas (several real partition state machines
fed byte-identical entries, snapshot of one restored into another at every cut point)."""
import json
import os

import hnswfam
import vlib

SHORT = hnswfam.SHORT


def is_reset(line):
    return line.startswith('{"ev":"reset"')


def report(ctx, trace, viols, combo):
    by_kind = {}
    for v in viols:
        by_kind.setdefault(v[1], []).append(v[0])
    for kind in sorted(by_kind):
        best = None
        for ln in by_kind[kind][:40]:
            evs = hnswfam.history_of(trace, ln)
            if best is None or len(evs) < len(best):
                best = evs
        a_ops = [e for e in best if e["ev"] == "apply" and e["r"] == "A"]
        last = best[-1]
        sig = "%s@%s" % (kind, ",".join(SHORT.get(e["op"], e["op"]) for e in a_ops))
        if last["ev"] == "branch" or last.get("r") == "B":
            br = [e for e in best if e["ev"] == "branch"][-1]
            sig += "|cut=%d,from=%d" % (br["cut"], br["from"])
        what = "%s (%d failing events, %s): log %s; failing event %s" % (
            kind, len(by_kind[kind]), combo,
            json.dumps([{k: e[k] for k in ("op", "id", "pt", "lvl", "meta", "items", "res", "errs")} for e in a_ops])[:500],
            json.dumps({k: last.get(k) for k in ("ev", "r", "idx", "cut", "from", "rerr", "res", "errs", "st")})[:500])
        ctx.finding(sig, what, {"log": a_ops, "failing_event": last, "combo": combo})


def run(ctx):
    quick = ctx.tier == "quick"
    part = ctx.go_build("cmd/part", "part")
    # 1. design
    r = ctx.tlc("PartitionSM", ctx.cfg("PartitionSM_mc.cfg", {"MaxLog": 2 if quick else 3}), timeout=1800, heap="12g")
    if r.violated:
        raise vlib.NoVerdict("PartitionSM violates %s: specification bug" % r.violated)
    ctx.cov["exhaustive"] = True
    # 2. logs: every map state's shortest history extended by every operation of the alphabet
    hist_path = ctx.path("maphist.ndjson")
    keep, n, hf = hnswfam.harvest_hist(hist_path)
    ctx.tlc("PartitionMapGen", "PartitionMapGen.cfg", workers=2, timeout=600, keep_lines=keep)
    hf.close()
    combos = [("euclidean", "simple", 1)] if quick else [("euclidean", "simple", 1), ("cosine", "heuristic", 2), ("manhattan", "heuristic-extend", 1)]
    total = 0
    for ci, (m, a, M) in enumerate(combos):
        cfgp = ctx.path("rcfg-%d.json" % ci)
        json.dump({"index": {"metric": m, "algo": a, "M": M, "MMax": M, "MMax0": 2 * M}, "np": 3, "dim": 3, "keys": ["a"],
                   "vals": 2, "ks": [1], "nids": 3, "maxlvl": 1, "stride": 4 if quick else 1, "offset": ctx.seed, "ids": (ctx.seed + ci) % 4},
                  open(cfgp, "w"))
        trace = ctx.path("rtrace-%d.ndjson" % ci)
        ctx.run([part, "replicas", cfgp, hist_path, trace, str(ctx.seed), "8" if quick else "30"], timeout=2400)
        viols, nev = vlib.validate_trace(ctx, "PartitionSMTrace", "PartitionSMTrace.cfg", trace, is_reset, chunk_events=60000)
        nh = sum(1 for line in open(trace) if is_reset(line))
        nb = sum(1 for line in open(trace) if line.startswith('{"ev":"branch"'))
        ctx.log("%s/%s: %d logs, %d snapshot branches, %d events validated: %d failed checks" % (m, a, nh, nb, nev, len(viols)))
        report(ctx, trace, viols, "%s/%s" % (m, a))
        total += nh + nb
        if ci == 0:
            evs = hnswfam.history_of(trace, 60)
            ctx.sample({"log_and_branches": [{k: e.get(k) for k in ("ev", "r", "idx", "cut", "from", "op", "id", "pt", "res", "rerr")} for e in evs[:14]]})
            # binding self-test on the first log: corrupt a replica's contents / drop an entry on a branch
            good, cur = None, []
            with open(trace) as tf:
                for ln, line in enumerate(tf):
                    if is_reset(line) and cur:
                        evs_ = [json.loads(x) for x in cur]
                        if any(e["ev"] == "apply" and e["r"] == "B" and e["st"]["live"] for e in evs_) and \
                           any(e["ev"] == "apply" and e["r"] == "A" and e["res"] == "ok" for e in evs_):
                            good = cur
                            break
                        cur = []
                    cur.append(line)
                    if ln > 200000:
                        break
            if good is None:
                raise vlib.NoVerdict("binding self-test: no log with a populated second replica among the first histories")
            st = {}
            mut = [json.loads(x) for x in good]
            for e in mut:
                if e["ev"] == "apply" and e["r"] == "B" and e["st"]["live"]:
                    e["st"]["live"][0]["pt"] = e["st"]["live"][0]["pt"] % 3 + 1
                    break
            p1 = ctx.path("self1.ndjson")
            open(p1, "w").writelines(json.dumps(e) + "\n" for e in mut)
            v1, _ = vlib.validate_trace(ctx, "PartitionSMTrace", "PartitionSMTrace.cfg", p1, is_reset)
            st["corrupted_replica_contents_rejected"] = len(v1) > 0
            mut = [json.loads(x) for x in good]
            for i, e in enumerate(mut):
                if e["ev"] == "apply" and e["r"] == "A" and e["res"] == "ok":
                    del mut[i]
                    break
            p2 = ctx.path("self2.ndjson")
            open(p2, "w").writelines(json.dumps(e) + "\n" for e in mut)
            v2, _ = vlib.validate_trace(ctx, "PartitionSMTrace", "PartitionSMTrace.cfg", p2, is_reset)
            st["dropped_entry_rejected"] = len(v2) > 0
            ctx.cov["binding_selftest"].update(st)
            if not all(st.values()):
                raise vlib.NoVerdict("binding self-test failed: %s" % st)
    ctx.cov["traces_validated_against_impl"] = total
    ctx.assumptions += ["the replicated log delivers the same bytes in the same order to every replica (established by C05)",
                        "levels are carried in the entries, as the proposer does"]
    return "model_checking"
