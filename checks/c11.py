"""C11 - write acknowledgements are truthful and reach the right caller.

spec/ProposeWait.tla (caller / apply-loop protocol with the switch NotifCap), ProposeWaitTrace (binding V).
Harness: cmd/propose (real Dataset write path over a real single-replica raft group, gate between
raft.Propose and the caller's select, scripted remote owners)."""
import json

import vlib


def run(ctx):
    quick = ctx.tier == "quick"
    prop = ctx.go_build("cmd/propose", "propose")
    r = ctx.tlc("ProposeWaitMC", "ProposeWait_mc.cfg", timeout=600)
    if r.violated:
        raise vlib.NoVerdict("ProposeWait with NotifCap=1 violates %s: specification bug" % r.violated)
    ctx.cov["exhaustive"] = True
    r0 = ctx.tlc("ProposeWaitMC", ctx.cfg("ProposeWait_mc.cfg", {"NotifCap": 0}), timeout=600, name="ProposeWait-cap0", count=False)
    ctx.cov["binding_selftest"]["switch_NotifCap_0_gives_counterexample"] = r0.violated
    if not r0.violated:
        raise vlib.NoVerdict("vacuity guard failed: NotifCap=0 does not violate Delivered")
    r1 = ctx.tlc("ProposeWaitMC", ctx.cfg("ProposeWait_mc.cfg", {"RecycleChannels": "TRUE"}), timeout=600, name="ProposeWait-recycle", count=False)
    ctx.cov["binding_selftest"]["switch_RecycleChannels_TRUE_gives_counterexample"] = r1.violated
    if not r1.violated:
        raise vlib.NoVerdict("vacuity guard failed: recycled, undrained channels do not violate Truthful")
    trace = ctx.path("propose.ndjson")
    rounds = 4 if quick else 40
    ctx.run([prop, "run", trace, str(ctx.seed), str(rounds)], timeout=3000)
    viols, n = vlib.validate_trace(ctx, "ProposeWaitTrace", "ProposeWaitTrace.cfg", trace, lambda l: True, chunk_events=3000)
    evs = vlib.read_ndjson(trace)
    by = {}
    for v in viols:
        e = evs[v[0]]
        if e["ev"] == "write":
            sig = "%s@%s:%s:%s" % (v[1], e["kind"], e["path"], e["order"])
        elif e["ev"] == "conc":
            sig = "%s@conc:%s" % (v[1], "same" if e["same"] else "distinct")
        else:
            sig = "%s@%s" % (v[1], e["kind"])
        by.setdefault(sig, []).append(e)
    for sig in sorted(by):
        e = by[sig][0]
        ctx.finding(sig, "%s: %s (%d such calls)" % (sig, json.dumps(e)[:500], len(by[sig])), {"event": e})
    ctx.log("%d real write calls validated: %d failed checks" % (n, len(viols)))
    for e in evs:
        if e["ev"] == "write" and e["order"] == "apply-first":
            ctx.sample(e)
            break
    ctx.sample([e for e in evs if e["ev"] == "batch"][0])
    # binding self-test
    st = {}
    mut = json.loads(json.dumps(evs[:60]))
    for e in mut:
        if e["ev"] == "write" and e["path"] == "local" and e["ret"] == "ok" and e["kind"] == "insert":
            e["after"] = 0      # an acknowledged insert that is not there
            break
    p = ctx.path("self1.ndjson")
    open(p, "w").writelines(json.dumps(e) + "\n" for e in mut)
    v, _ = vlib.validate_trace(ctx, "ProposeWaitTrace", "ProposeWaitTrace.cfg", p, lambda l: True)
    st["ack_without_effect_rejected"] = any(x[1] == "FalseAck" for x in v)
    mut = json.loads(json.dumps(evs[:60]))
    for e in mut:
        if e["ev"] == "write" and e["path"] == "noaddr":
            e["ret"] = "ok"
            break
    p = ctx.path("self2.ndjson")
    open(p, "w").writelines(json.dumps(e) + "\n" for e in mut)
    v, _ = vlib.validate_trace(ctx, "ProposeWaitTrace", "ProposeWaitTrace.cfg", p, lambda l: True)
    st["ack_for_unreachable_owner_rejected"] = any(x[1] == "FalseAck" for x in v)
    ctx.cov["binding_selftest"].update(st)
    if not all(st.values()):
        raise vlib.NoVerdict("binding self-test failed: %s" % st)
    # "... and to no one else": a replica applies entries that were proposed through another replica while a caller of
    # its own is registered and waiting - nothing may reach that caller (replica D of the C04 harness, PartitionSMTrace)
    import c04
    import hnswfam
    part = ctx.go_build("cmd/part", "part")
    hist_path = ctx.path("maphist.ndjson")
    keep, nh, hf = hnswfam.harvest_hist(hist_path)
    ctx.tlc("PartitionMapGen", "PartitionMapGen.cfg", workers=2, timeout=600, keep_lines=keep, count=False)
    hf.close()
    cfgp = ctx.path("rcfg-c11.json")
    json.dump({"index": {"metric": "euclidean", "algo": "simple", "M": 1, "MMax": 1, "MMax0": 2}, "np": 3, "dim": 3, "keys": ["a"],
               "vals": 2, "ks": [1], "nids": 3, "maxlvl": 1, "stride": 16 if quick else 4, "offset": ctx.seed}, open(cfgp, "w"))
    rtrace = ctx.path("rtrace-c11.ndjson")
    ctx.run([part, "replicas", cfgp, hist_path, rtrace, str(ctx.seed), "8"], timeout=2400)
    rv, rn = vlib.validate_trace(ctx, "PartitionSMTrace", "PartitionSMTrace.cfg", rtrace, c04.is_reset, chunk_events=60000)
    mis = [v for v in rv if v[1] == "OutcomeMisdelivered"]
    ctx.log("%d events of replicas with a waiting caller of their own: %d outcomes misdelivered" % (rn, len(mis)))
    c04.report(ctx, rtrace, mis, "euclidean/simple")
    ctx.cov["replica_applies_with_a_foreign_caller_waiting"] = sum(1 for line in open(rtrace) if '"r":"D"' in line)
    # the running system: a sequential client against three real server processes - every acknowledgement and every
    # definite refusal ("exists", "not found") has to be true of the item at that moment, through whichever node
    import clusfam
    lines, nbad = clusfam.real_server_kinds(ctx, ["durable", "slow-replica", "no-quorum"], {"AckedWithoutQuorum", "DuplicateInsertAcked", "AbsentItemAcked", "SpuriousExists", "SpuriousNotFound",
                                                              "AckedLostOnRestart", "GhostAfterRestart"}, 1 if ctx.tier == "quick" else 3)
    nw = sum(1 for x in lines if '"ev":"wack"' in x)
    ctx.log("real servers: %d write outcomes checked: %d failed checks" % (nw, nbad))
    if nw == 0:
        raise vlib.NoVerdict("no write outcome was obtained from the real servers")
    ctx.cov["real_server_write_outcomes"] = nw
    ctx.cov["traces_validated_against_impl"] = n + 1
    ctx.assumptions += ["one real single-replica raft group on an in-memory Badger; multi-replica behaviour of the log is C05",
                        "the scripted remote owner fails batch items whose id ends in an odd byte"]
    return "model_checking"
