"""Shared pipeline of the raft-host checks C05 (consensus glue) and C03 (durability of acknowledged writes).

spec/RaftHost.tla (design; exhaustive for 2 replicas, 3 replicas in the thorough tier), RaftHostTrace (binding V).
Harness: cmd/raftsim - one scenario per child process on a simulated cluster of real nodes (real RaftGroups on
Badger behind a fault proxy, real Datasets on top), crash = Goexit at a boundary of the ready loop."""
import json
import os
import subprocess
import time
from concurrent.futures import ThreadPoolExecutor

import vlib

KINDS = {
    "C05": ["Rebootstrap", "ResumeOlder", "ResumeNewer", "Unattested", "ApplyMismatch", "ApplyOrder", "ApplyNotDurable", "Panic", "NoConverge", "SnapshotConfStale", "SnapshotLabel", "SnapshotContents"],
    "C03": ["AckedLost", "NeverSubmitted", "ContentsVsLog", "Panic", "Rebootstrap", "ResumeNewer", "SnapshotLabel", "SnapshotContents"],
}
POINTS = ["ready", "send1", "presave", "saved", "applied", "send2", "preadvance", "advanced"]


def scenarios(ctx):
    quick = ctx.tier == "quick"
    out = []
    seed = ctx.seed * 1000
    k = 0

    def add(**kw):
        nonlocal k
        k += 1
        sc = dict(n=3, seed=seed + k, ops=6, opsafter=3, drop=0.0, dup=0.0, delay=0.0, crashnode=0, crashcycle=0,
                  crashpoint="", crash2=0, restartpeers="all", snapshotat=0, partition=0, follower=False, dropsnap=0,
                  stepdown="", crashwhen="", initial=0, conf="", slowsnapms=0, snapafter=False)
        sc.update(kw)
        out.append(sc)
    # every boundary of the ready cycle x role x a few cycle numbers (RaftHost!CrashPts x Cycle)
    cycles = [1, 3, 6] if quick else [1, 2, 3, 4, 6, 9, 13]
    for p in POINTS:
        for role in (-1, -2):
            for c in cycles:
                add(crashnode=role, crashcycle=c, crashpoint=p, follower=(c % 2 == 0))
    # one replica: every boundary, no quorum to hide behind
    for p in POINTS:
        for c in ([2, 5] if quick else [1, 2, 3, 5, 8]):
            add(n=1, crashnode=1, crashcycle=c, crashpoint=p, ops=5, opsafter=0)
    # message faults, partitions, snapshots, five replicas with a crashed minority of two
    for i in range(6 if quick else 60):
        add(drop=0.15, dup=0.1, delay=0.2, crashnode=-2 if i % 2 else -1, crashcycle=2 + i % 5, crashpoint=POINTS[i % len(POINTS)],
            partition=(i % 4) if i % 3 == 0 else 0, follower=True, ops=8)
    for i in range(3 if quick else 24):
        add(snapshotat=3, crashnode=-2 if i % 2 else -1, crashcycle=6 + i, crashpoint=["snapshot", "saved", "applied"][i % 3], ops=8, opsafter=4)
    # a follower crashes early, the others compact their logs past it, the snapshot message that would
    # bring it back is lost once or twice: it must still catch up
    for i in range(3 if quick else 18):
        add(snapshotat=7, crashnode=-2, crashcycle=1 + i % 3, crashpoint=["saved", "ready", "advanced"][i % 3], ops=8, opsafter=3, dropsnap=1 + i % 2)
    for i in range(2 if quick else 16):
        add(n=5, crashnode=-1 if i % 2 else -2, crashcycle=2 + i, crashpoint=POINTS[(3 * i) % len(POINTS)], crash2=1 + i % 5, ops=6)
    # a leader steps down in the middle of the run - by a vote request from a follower that was away, or by
    # the new leader's delayed first append - and dies inside the very ready cycle in which it stepped down:
    # what that cycle sends (append response, granted vote) must already be durable
    for sd in ("vote", "app"):
        add(stepdown=sd, ops=4, opsafter=2)
        for j in range(1 if quick else 4):
            for p in (["send1", "presave", "saved", "advanced"] if quick else POINTS):
                add(stepdown=sd, crashnode=-1, crashwhen="stepdown", crashpoint=p, ops=4, opsafter=3)
    # the group's membership changes while a follower is away and the others compact their logs: the follower
    # catches up through a snapshot, snapshots locally, dies and restarts from its own store
    for j in range(2 if quick else 8):
        add(n=4 + j % 2, initial=3, conf="lagging", ops=2, opsafter=2)
    # a node joins the group later (empty log, no peers) and dies at a boundary of one of its first ready cycles -
    # when all it has stored is a term or a vote, or its first entries - and restarts with the partition's node list
    jp = ["saved", "advanced", "presave", "ready"] if quick else POINTS
    for j, p in enumerate(jp):
        for c in ([1, 2] if quick else [1, 2, 3, 5]):
            add(n=4, initial=3, conf="joiner", crashnode=4, crashcycle=c, crashpoint=p, ops=3, opsafter=2, snapshotat=(3 if (j + c) % 3 == 0 else 0))
    # long logs: a local snapshot after more than a hundred entries (anything that keeps a tail of the log behind
    # the snapshot has to label the snapshot with what it contains), then a crash and a restart from it
    for j in range(2 if quick else 6):
        add(n=1 if j % 2 else 3, ops=118 + 7 * j, snapshotat=112 + 5 * j, crashnode=-1 if j % 2 == 0 else 1, crashcycle=1, crashpoint="never (the node dies idle, after the client phase)", opsafter=3)
    # a replica restarts from its stored snapshot (which covers every membership entry), applies two more writes and
    # snapshots again: the second snapshot describes the group as the first did (SnapshotConfStale), and a further
    # restart (the end-of-run store read) finds it
    for j in range(3 if quick else 9):
        add(n=1 if j % 3 == 0 else 3, ops=6, snapshotat=5, snapafter=True, opsafter=2,
            crashnode=1 if j % 3 == 0 else (-1 if j % 2 else -2), crashcycle=1, crashpoint="never (the node dies idle, after the client phase)")
    # a follower that was away is handed the snapshot AND the appends behind it before its ready loop looks again: one
    # Ready carries a snapshot and committed entries (the follower's earlier heartbeat response reaches the leader
    # late, its loop is held at "advanced" while both messages are stepped in) - both have to be acted on
    for j in range(2 if quick else 8):
        add(n=3 if j % 2 == 0 else 5, conf="snapapp", ops=0, opsafter=2)
    # serializing the state machine takes a while (a large index) and the client keeps writing: the snapshot is
    # labelled with the index whose state it holds (SnapshotContents), also the one a restart then starts from
    for j in range(3 if quick else 10):
        add(n=1 if j % 3 == 2 else 3, ops=7 + j % 3, snapshotat=3 + j % 2, slowsnapms=40 + 20 * (j % 3), opsafter=3,
            crashnode=(-1 if j % 2 else -2) if j % 3 != 2 else 1, crashcycle=1, crashpoint="never (the node dies idle, after the client phase)")
    add(n=1, ops=4, opsafter=0)
    add(n=3, ops=6, follower=True)
    return out


def run_one(ctx, sim, i, sc, timeout=120):
    """One scenario in a child process.  Returns lines = None when the child had to be killed at the time limit:
    that is a statement about the machine's load, not about the code (the caller re-runs it alone)."""
    scp = ctx.path("sc-%d.json" % i)
    trp = ctx.path("tr-%d.ndjson" % i)
    json.dump(sc, open(scp, "w"))
    t0 = time.time()
    try:
        p = subprocess.run([sim, scp, trp], stdout=subprocess.PIPE, stderr=subprocess.PIPE, timeout=timeout, env=vlib.goenv())
        rc, err = p.returncode, p.stderr.decode(errors="replace")
    except subprocess.TimeoutExpired:
        return i, sc, None, time.time() - t0
    lines = []
    if os.path.exists(trp):
        lines = [x for x in open(trp).read().splitlines() if x.strip()]
    ended = bool(lines) and '"ev":"end"' in lines[-1]
    if rc != 0 or not ended:
        msg = [x for x in err.splitlines() if x.startswith("panic:") or "fatal error" in x or "tocommit" in x]
        if not msg and rc < 0:
            # killed by a signal without any word from the Go runtime or the raft library: not the code's doing
            raise vlib.NoVerdict("raft scenario %d: child killed by signal %d without a panic message" % (i, -rc))
        lines.append(json.dumps({"ev": "panic", "node": 0, "rc": rc, "msg": (msg[0] if msg else err[-300:])[:300]}))
        lines.append(json.dumps({"ev": "end", "converged": 1, "why": "process died"}))
    return i, sc, lines, time.time() - t0


def run_family(ctx):
    quick = ctx.tier == "quick"
    sim = ctx.go_build("cmd/raftsim", "raftsim")
    if ctx.replay:
        case = json.load(open(ctx.replay))["case"]
        scs = [case["scenario"]]
    else:
        # ---- design
        # 2 replicas, 3 terms, 1 crash, 1 local snapshot (+ the snapshot message it may cause); 2 values in the thorough tier
        two = {"Node": "{n1, n2}", "MaxTerm": 3, "MaxLog": 4}
        if not quick:
            two["Values"] = '{"v1", "v2"}'
        r = ctx.tlc("RaftHost", ctx.cfg("RaftHost_mc.cfg", two), timeout=3000, heap="12g", name="RaftHost-2")
        if r.violated:
            raise vlib.NoVerdict("RaftHost (2 replicas) violates %s: specification bug" % r.violated)
        if not quick:
            # three replicas without a local snapshot (with one the model has not finished after 100 M generated states;
            # snapshots are explored exhaustively with two replicas above, and by simulation below)
            r = ctx.tlc("RaftHost", ctx.cfg("RaftHost_mc.cfg", {"MaxSnap": 0}), timeout=3000, heap="20g", name="RaftHost-3")
            if r.violated:
                raise vlib.NoVerdict("RaftHost (3 replicas) violates %s: specification bug" % r.violated)
            rs = ctx.tlc("RaftHost", "RaftHost_mc.cfg", simulate=60000, depth=80, workers=8, timeout=2400, heap="8g", name="RaftHost-3-snap-sim", count=False)
            if rs.violated:
                raise vlib.NoVerdict("RaftHost (3 replicas, one local snapshot, random behaviours) violates %s: specification bug" % rs.violated)
        ctx.cov["exhaustive"] = True
        for sw, val in (("RestartMode", '"start"'), ("SendPolicy", '"allFirst"'), ("SnapLabel", '"plusone"')):
            ov = {sw: val}
            if sw == "SnapLabel":
                ov.update({"Node": "{n1, n2}", "MaxTerm": 3, "MaxLog": 4})
            rr = ctx.tlc("RaftHost", ctx.cfg("RaftHost_mc.cfg", ov), timeout=900, heap="12g", name="RaftHost-" + sw, count=False)
            ctx.cov["binding_selftest"]["switch_%s_%s_gives_counterexample" % (sw, val.strip('"'))] = rr.violated
            if not rr.violated:
                raise vlib.NoVerdict("vacuity guard failed for %s=%s" % (sw, val))
        # the host's membership bookkeeping (raftConfState, local snapshots, received snapshots, restart)
        r = ctx.tlc("RaftConf", ctx.cfg("RaftConf_mc.cfg", {"MaxLog": 3 if quick else 4}), timeout=1800, heap="8g", name="RaftConf")
        if r.violated:
            raise vlib.NoVerdict("RaftConf violates %s in the repaired switch position: specification bug" % r.violated)
        r = ctx.tlc("RaftConf", ctx.cfg("RaftConf_mc.cfg", {"MaxLog": 3, "RestoreOnRestart": "FALSE"}), timeout=900, heap="8g", name="RaftConf-norestore", count=False)
        if r.violated:
            raise vlib.NoVerdict("RaftConf violates %s with RestoreOnRestart = FALSE (the shipped start-up, which the model says is harmless)" % r.violated)
        # the shipped start-up of a replica that joined a running group and has stored nothing yet (open finding)
        rj = ctx.tlc("RaftConf", ctx.cfg("RaftConf_mc.cfg", {"MaxLog": 3, "JoinerKnows": "FALSE"}), timeout=900, heap="8g", name="RaftConf-joiner", count=False)
        ctx.cov["binding_selftest"]["switch_JoinerKnows_FALSE_gives_counterexample"] = rj.violated
        if "NoFork" not in rj.violated:
            raise vlib.NoVerdict("vacuity guard failed: a joiner that bootstraps from an empty store does not violate NoFork")
        rr = ctx.tlc("RaftConf", ctx.cfg("RaftConf_mc.cfg", {"MaxLog": 3, "UpdateOnInstall": "FALSE"}), timeout=900, heap="8g", name="RaftConf-noupdate", count=False)
        ctx.cov["binding_selftest"]["switch_UpdateOnInstall_FALSE_gives_counterexample"] = rr.violated
        if not rr.violated:
            raise vlib.NoVerdict("vacuity guard failed for UpdateOnInstall=FALSE")
        scs = scenarios(ctx)
    # ---- scenarios on the real code, in parallel child processes
    results = []
    with ThreadPoolExecutor(max_workers=8) as ex:
        futs = [ex.submit(run_one, ctx, sim, i, sc) for i, sc in enumerate(scs)]
        for f in futs:
            results.append(f.result())
    # scenarios that hit the time limit (a loaded machine) run again, alone and with a longer limit
    for k, (i, sc, lines, dt) in enumerate(results):
        if lines is None:
            ctx.log("scenario %d hit the time limit after %.0f s: running it again alone" % (i, dt))
            r = run_one(ctx, sim, i, sc, timeout=300)
            if r[2] is None:
                raise vlib.NoVerdict("raft scenario %d does not finish within 300 s even alone: %s" % (i, json.dumps(sc)))
            results[k] = r
    trace = ctx.path("raft.ndjson")
    starts = []
    with open(trace, "w") as f:
        n = 0
        for i, sc, lines, dt in results:
            starts.append((n, i))
            f.write(json.dumps({"ev": "scenario", "i": i}) + "\n")
            n += 1
            for x in lines:
                f.write(x + "\n")
                n += 1
    viols, nev = vlib.validate_trace(ctx, "RaftHostTrace", "RaftHostTrace.cfg", trace,
                                     lambda line: line.startswith('{"ev": "scenario"'), chunk_events=4000)
    all_lines = open(trace).read().splitlines()
    mine = set(KINDS[ctx.pid])
    by = {}
    other = {}
    for v in viols:
        si = max(s for s in starts if s[0] <= v[0])
        sc = scs[si[1]]
        if v[1] not in mine:
            other[v[1]] = other.get(v[1], 0) + 1
            continue
        crash = [json.loads(x) for x in all_lines[si[0]:v[0] + 1] if '"ev":"crash"' in x]
        role = {-1: "leader", -2: "follower", 0: "none"}.get(sc["crashnode"], "node")
        sig = "%s@n=%d,crash=%s:%s" % (v[1], sc["n"], role, crash[0]["point"] if crash else "none")
        if sc.get("conf") == "joiner":
            # what the joiner had made durable when it died: nothing at all (it cannot tell a restart from a first
            # start), or at least a term / vote / entries / a snapshot
            ci = next((k for k in range(si[0], len(all_lines)) if '"ev":"crash"' in all_lines[k]), len(all_lines))
            stored = any('"ev":"saved"' in x and json.loads(x).get("node") == sc["crashnode"] for x in all_lines[si[0]:ci])
            sig = "%s@n=%d,conf=joiner,stored=%s:%s" % (v[1], sc["n"], "some" if stored else "nothing", json.loads(all_lines[v[0]])["ev"])
        elif sc.get("conf"):
            sig = "%s@n=%d,conf=%s:%s" % (v[1], sc["n"], sc["conf"], json.loads(all_lines[v[0]])["ev"])
        elif sc.get("stepdown"):
            sig = "%s@n=%d,stepdown=%s,crash=%s:%s" % (v[1], sc["n"], sc["stepdown"], role, crash[0]["point"] if crash else "none")
        by.setdefault(sig, []).append((si[1], v[0]))
    if other:
        ctx.notes.append("failed checks of the sibling property (reported by its own check): %s" % other)
    for sig in sorted(by):
        i, ln = by[sig][0]
        sc = scs[i]
        kind = sig.split("@")[0]
        if kind == "NoConverge" and not ctx.replay:
            # liveness-shaped: a stall counts only if it reproduces on an immediate, undisturbed re-run
            again = [run_one(ctx, sim, 100000 + i, sc) for _ in range(2)]
            if not all(any('"converged":0' in x for x in a[2]) for a in again):
                ctx.notes.append("unreproduced stall ignored: %s" % sig)
                continue
        ev = json.loads(all_lines[ln])
        ctx.finding(sig, "%s in scenario %s: failing event %s (%d scenarios)" % (kind, json.dumps(sc), json.dumps(ev)[:400], len(by[sig])),
                    {"scenario": sc, "event": ev})
    ncrash = sum(1 for x in all_lines if '"ev":"crash"' in x)
    ctx.log("%d scenarios on real replicas (%d crashes forced, %d events): %d failed checks" % (len(scs), ncrash, nev, len(viols)))
    ctx.cov["traces_validated_against_impl"] = len(scs)
    ctx.cov["crashes_forced"] = ncrash
    both = 0
    for x in all_lines:
        if '"ev":"ready"' in x and '"snapidx":0' not in x:
            e = json.loads(x)
            if e.get("snapidx", 0) > 0 and e.get("committed"):
                both += 1
    ctx.cov["readys_with_snapshot_and_committed_entries"] = both
    if both == 0:
        ctx.notes.append("no ready cycle carried a snapshot together with committed entries in this run (the snapapp choreography did not come about)")
    ctx.cov["scenario_wall_s_max"] = round(max(r[3] for r in results), 1)
    ctx.sample({"scenario": scs[0], "events": [json.loads(x) for x in results[0][2][:12]]})
    if not ctx.replay:
        selftest(ctx, results[0][2])
    if ctx.pid == "C03" and not ctx.replay:
        durable_on_servers(ctx)
    ctx.assumptions += ["etcd/raft and Badger are trusted; crash instants inside one WriteBatch.Flush are not modelled",
                        "a crash is Goexit of the ready-loop goroutine + a dark transport; the restart uses fresh objects on the same database handle",
                        "ticks are pumped by the harness on top of the production ticker"]
    return "model_checking"


def durable_on_servers(ctx):
    """C03 on real server processes: acknowledged inserts / updates / removes through all three nodes, kill -9 of
    every node and restart on the same directories, then of one node; what a search returns afterwards is checked
    against the acknowledgements by ClusterViewTrace (AckedLostOnRestart, GhostAfterRestart)."""
    import clusfam
    trace, res = clusfam.run_scenarios(ctx, 1 if ctx.tier == "quick" else 4, ["durable"])
    v, n = vlib.validate_trace(ctx, "ClusterViewTrace", "ClusterViewTrace.cfg", trace, lambda l: l.startswith('{"ev":"scenario"'), chunk_events=100000)
    lines = open(trace).read().splitlines()
    by = {}
    for x in v:
        if x[1] in ("AckedLostOnRestart", "GhostAfterRestart", "RestartFailed", "NodeDied"):
            e = json.loads(lines[x[0]])
            by.setdefault("%s@servers:%s" % (x[1], e.get("after", e["ev"])), []).append(e)
    for sig in sorted(by):
        e = by[sig][0]
        ctx.finding(sig, "%s: %s (%d such events)" % (sig, json.dumps(e)[:500], len(by[sig])), {"event": e})
    nf = sum(1 for x in lines if '"ev":"found"' in x)
    na = sum(1 for x in lines if '"ev":"wack"' in x and '"ok":1' in x)
    ctx.log("real servers: %d acknowledged writes, %d searches after kill -9 / restart: %d failed checks" % (na, nf, sum(len(x) for x in by.values())))
    if nf == 0 or na == 0:
        raise vlib.NoVerdict("the durable scenario on real servers produced no acknowledged writes / searches")
    ctx.cov["real_server_acked_writes"] = na
    ctx.cov["real_server_searches_after_restart"] = nf
    # binding self-test: a search that misses an acknowledged item must be rejected
    mut = [json.loads(x) for x in lines]
    for e in reversed(mut):
        if e["ev"] == "found" and e["ids"]:
            e["ids"] = e["ids"][1:]
            break
    p = ctx.path("selfd.ndjson")
    open(p, "w").writelines(json.dumps(e) + "\n" for e in mut)
    v2, _ = vlib.validate_trace(ctx, "ClusterViewTrace", "ClusterViewTrace.cfg", p, lambda l: False)
    ctx.cov["binding_selftest"]["missing_acknowledged_item_rejected"] = any(x[1] == "AckedLostOnRestart" for x in v2)
    if not ctx.cov["binding_selftest"]["missing_acknowledged_item_rejected"]:
        raise vlib.NoVerdict("binding self-test failed: a lost acknowledged item was accepted")


def selftest(ctx, lines):
    """Corrupt one recorded field / drop one event of a good trace: must be rejected."""
    evs = [json.loads(x) for x in lines]
    st = {}
    mut = json.loads(json.dumps(evs))
    done = False
    for e in mut:
        if e["ev"] == "applied" and e["type"] == 0 and e["chg"][0] != "empty" and not done:
            e["digest"] = "ffffffff"     # one replica applies something else at that index
            done = True
    p = ctx.path("self1.ndjson")
    open(p, "w").writelines(json.dumps(e) + "\n" for e in mut)
    v, _ = vlib.validate_trace(ctx, "RaftHostTrace", "RaftHostTrace.cfg", p, lambda l: False)
    st["corrupted_applied_digest_rejected"] = any(x[1] == "ApplyMismatch" for x in v)
    mut = [e for e in json.loads(json.dumps(evs))]
    for i, e in enumerate(mut):
        if e["ev"] == "saved" and e["ents"]:
            del mut[i]          # the durable write that an apply / an acknowledgement relies on
            break
    p = ctx.path("self2.ndjson")
    open(p, "w").writelines(json.dumps(e) + "\n" for e in mut)
    v, _ = vlib.validate_trace(ctx, "RaftHostTrace", "RaftHostTrace.cfg", p, lambda l: False)
    st["dropped_saved_event_rejected"] = any(x[1] in ("ApplyNotDurable", "Unattested") for x in v)
    ctx.cov["binding_selftest"].update(st)
    if not all(st.values()):
        raise vlib.NoVerdict("binding self-test failed: %s" % st)
