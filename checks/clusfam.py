"""Shared pipeline of the L2 checks C14 (catalogue) and C20 (membership): real anndb server
processes (cmd/anndbnode) driven by cmd/clus; spec/Catalogue.tla, Membership.tla (design, with
switches), ClusterViewTrace (binding V)."""
import json
import os
import subprocess
from concurrent.futures import ThreadPoolExecutor

import vlib

KINDS = {
    "C14": ["CatalogueLostOnRestart", "DeletedStillListed", "CatalogueDiffers", "CatalogueMetadataDiffers", "CreateFailed",
            "DeleteFailed", "RestartFailed", "NodeDied", "ViewError"],
    "C20": ["MembersLostOnRestart", "RemovedStillListed", "MemberMissing", "AddressWrong", "JoinFailed", "RestartFailed", "NodeDied",
            "SearchUnavailable", "PeerUnreachable"],      # every node up, a search through some node fails: a peer hosting a partition is not reached
}
SCENARIOS = ["basic", "wiring", "snapshot", "leave", "lagging", "lagging-leave", "joinfail", "lagging-replicas", "joincrash", "rejoin", "leave-boot", "lagging-empty", "dead-leave", "lagging-rejoin", "rejoin-stale", "conf-burst", "lagging-replace", "paused-replace", "rejoin-overtaken", "snapshot-twice"]


def run_scenarios(ctx, repeat, scenarios=None):
    node = ctx.go_build("cmd/anndbnode", "anndbnode")
    clus = ctx.go_build("cmd/clus", "clus")

    def one(args):
        i, sc = args
        work = ctx.path("cl-%d" % i)
        tr = ctx.path("cl-%d.ndjson" % i)
        try:
            p = subprocess.run([clus, node, work, tr, sc], stdout=subprocess.PIPE, stderr=subprocess.PIPE, timeout=420, env=vlib.goenv())
        except subprocess.TimeoutExpired:
            pass
        lines = [x for x in open(tr).read().splitlines() if x.strip()] if os.path.exists(tr) else []
        if not lines or '"ev":"end"' not in lines[-1]:
            raise vlib.NoVerdict("cluster driver did not finish scenario %s" % sc)
        subprocess.run(["rm", "-rf", work])
        return sc, lines
    jobs = [(i, sc) for i, sc in enumerate((scenarios or SCENARIOS) * repeat)]
    with ThreadPoolExecutor(max_workers=6) as ex:
        res = list(ex.map(one, jobs))
    trace = ctx.path("cluster.ndjson")
    with open(trace, "w") as f:
        for sc, lines in res:
            for x in lines:
                f.write(x + "\n")
    return trace, res


def signatures_of(ctx, trace, kinds, fmt="%s@%s:%s"):
    """ClusterViewTrace on a trace of real-server scenarios -> {signature: [events]} for the given kinds."""
    viols, n = vlib.validate_trace(ctx, "ClusterViewTrace", "ClusterViewTrace.cfg", trace, lambda l: l.startswith('{"ev":"scenario"'), chunk_events=100000)
    lines = open(trace).read().splitlines()
    by, other = {}, {}
    for v in viols:
        if v[1] not in kinds:
            other[v[1]] = other.get(v[1], 0) + 1
            continue
        sc = ""
        for x in reversed(lines[:v[0] + 1]):
            if x.startswith('{"ev":"scenario"'):
                sc = json.loads(x)["name"]
                break
        e = json.loads(lines[v[0]])
        by.setdefault((fmt % (v[1], sc, e.get("after", e["ev"])), sc), []).append(e)
    return by, other, lines, viols


def reproduced(ctx, by):
    """Real server processes on a shared machine: a failed check counts only if the scenario fails the same way when it
    is run again, alone (DESIGN.md section 3: no verdict from what does not reproduce).  Returns the reproduced part."""
    if not by:
        return by
    scs = sorted(set(sc for (_, sc) in by))
    kinds = set(sig.split("@")[0] for (sig, _) in by)
    trace2, _ = run_scenarios(ctx, 1, scs)
    by2, _, _, _ = signatures_of(ctx, trace2, kinds)
    again = set(sig for (sig, _) in by2)
    keep = {k: v for k, v in by.items() if k[0] in again}
    lost = sorted(k[0] for k in by if k[0] not in again)
    if lost:
        ctx.notes.append("failed checks that did not reproduce when the scenario was run again alone (not reported): %s" % lost)
        ctx.cov.setdefault("unreproduced", []).extend(lost)
        ctx.log("not reproduced on a second run of %s: %s" % (scs, lost))
    return keep


def reproduced_servers(ctx, by, kinds):
    if not by:
        return by
    scs = sorted(set(sc for (_, sc) in by))
    trace2, _ = run_scenarios(ctx, 1, scs)
    by2, _, _, _ = signatures_of(ctx, trace2, set(kinds), fmt="%s@servers:%.0s%s")
    again = set(sig for (sig, _) in by2)
    lost = sorted(k[0] for k in by if k[0] not in again)
    if lost:
        ctx.notes.append("failed checks that did not reproduce when the scenario was run again alone (not reported): %s" % lost)
        ctx.cov.setdefault("unreproduced", []).extend(lost)
    return {k: v for k, v in by.items() if k[0] in again}


def membership_replay(ctx):
    """Membership!ViewOK on the real cluster.Conn + raft.NodesManager: random membership logs (joins from a new address
    every time, leaves) on three address books - every entry; prefix + snapshot of a later index + rest; snapshot + rest -
    which must all equal the fold of the log (MembershipReplayTrace)."""
    memb = ctx.go_build("cmd/memb", "memb")
    tr = ctx.path("membreplay.ndjson")
    nlogs = 600 if ctx.tier == "quick" else 6000
    ctx.run([memb, tr, str(ctx.seed), str(nlogs)], timeout=900)
    v, n = vlib.validate_trace(ctx, "MembershipReplayTrace", "MembershipReplayTrace.cfg", tr, lambda l: True, chunk_events=300)
    evs = vlib.read_ndjson(tr)
    by = {}
    for x in v:
        by.setdefault(x[1] if "@" in x[1] else x[1] + "@membership-replay", []).append(evs[x[0]])
    for sig in sorted(by):
        e = min(by[sig], key=lambda z: len(z["log"]))
        ctx.finding(sig, "%s: log %s, the member had applied %d entries, snapshot taken at %d: every entry -> %s; prefix + snapshot + rest -> %s; snapshot + rest -> %s (%d such logs)"
                    % (sig, json.dumps(e["log"])[:400], e["cut"], e["snapat"], json.dumps(e["a"]), json.dumps(e["b"]), json.dumps(e["c"]), len(by[sig])), {"event": e})
    ctx.log("%d membership logs on three real address books (replay / prefix+snapshot / snapshot): %d failed checks" % (n, len(v)))
    ctx.cov["membership_logs_replayed"] = n
    mut = json.loads(json.dumps(evs[:20]))
    mut[3]["b"]["9"] = "10.0.9.9:6000"
    p = ctx.path("selfmemb.ndjson")
    open(p, "w").writelines(json.dumps(e) + "\n" for e in mut)
    v2, _ = vlib.validate_trace(ctx, "MembershipReplayTrace", "MembershipReplayTrace.cfg", p, lambda l: True)
    ctx.cov["binding_selftest"]["extra_member_after_snapshot_rejected"] = any(x[1].startswith("RemovedStillListed") for x in v2)
    if not ctx.cov["binding_selftest"]["extra_member_after_snapshot_rejected"]:
        raise vlib.NoVerdict("binding self-test failed: an extra member after the snapshot was accepted")


def catalogue_replay(ctx, only=None):
    """Catalogue!Agree / SnapOK on the real storage.DatasetManager: random logs of create / delete / add-node /
    remove-node entries applied to three managers - whole log; prefix + snapshot of a later index + rest; snapshot
    + rest - which must end with the same catalogue (CatalogueReplayTrace)."""
    cat = ctx.go_build("cmd/cat", "cat")
    tr = ctx.path("catreplay.ndjson")
    nlogs = 400 if ctx.tier == "quick" else 4000
    ctx.run([cat, tr, str(ctx.seed), str(nlogs)], timeout=1800)
    v, n = vlib.validate_trace(ctx, "CatalogueReplayTrace", "CatalogueReplayTrace.cfg", tr, lambda l: True, chunk_events=400)
    evs = vlib.read_ndjson(tr)
    by = {}
    for x in v:
        e = evs[x[0]]
        # a replica's raft store torn down by a catalogue snapshot is a matter of durability (C03), the rest of the catalogue (C14)
        if (x[1] == "ReplicaStoreLost") != (only == "ReplicaStoreLost"):
            continue
        by.setdefault("%s@catalogue-replay" % x[1], []).append(e)
    for sig in sorted(by):
        e = min(by[sig], key=lambda z: len(z["log"]))
        ctx.finding(sig, "%s: log %s, follower applied %d entries, snapshot taken at %d: whole log -> %s; prefix + snapshot + rest -> %s; snapshot + rest -> %s (%d such logs)"
                    % (sig, e["log"], e["cut"], e["snapat"], json.dumps(e["a"])[:300], json.dumps(e["b"])[:300], json.dumps(e["c"])[:300], len(by[sig])), {"event": e})
    ctx.log("%d catalogue logs on three real DatasetManagers (replay / prefix+snapshot / snapshot): %d failed checks" % (n, len(v)))
    ctx.cov["catalogue_logs_replayed"] = n
    ctx.cov["replica_stores_observed_across_restore"] = sum(len(e["kept"]) for e in evs)
    if only == "ReplicaStoreLost":
        mut = json.loads(json.dumps([e for e in evs if e["kept"]][:5]))
        if not mut:
            raise vlib.NoVerdict("no log in which the follower keeps hosting a replica across the snapshot")
        mut[0]["kept"][0]["after"] = 0
        p = ctx.path("selfkept.ndjson")
        open(p, "w").writelines(json.dumps(e) + "\n" for e in mut)
        v2, _ = vlib.validate_trace(ctx, "CatalogueReplayTrace", "CatalogueReplayTrace.cfg", p, lambda l: True)
        ctx.cov["binding_selftest"]["emptied_replica_store_rejected"] = any(x[1] == "ReplicaStoreLost" for x in v2)
        if not ctx.cov["binding_selftest"]["emptied_replica_store_rejected"]:
            raise vlib.NoVerdict("binding self-test failed: an emptied replica store was accepted")
        return
    # binding self-test: a follower with a replica too many must be rejected
    mut = json.loads(json.dumps(evs[:30]))
    done = False
    for e in mut:
        for d in e["b"]:
            if d["parts"] and not done:
                d["parts"][0]["nodes"] = d["parts"][0]["nodes"] + [9]
                done = True
    p = ctx.path("selfcat.ndjson")
    open(p, "w").writelines(json.dumps(e) + "\n" for e in mut)
    v2, _ = vlib.validate_trace(ctx, "CatalogueReplayTrace", "CatalogueReplayTrace.cfg", p, lambda l: True)
    ctx.cov["binding_selftest"]["extra_replica_after_restore_rejected"] = any(x[1] == "RestoreIntoKnownDiffers" for x in v2)
    if done and not ctx.cov["binding_selftest"]["extra_replica_after_restore_rejected"]:
        raise vlib.NoVerdict("binding self-test failed: an extra replica after restore was accepted")


def real_server_kinds(ctx, scenarios, kinds, repeat=1):
    """Run real-server scenarios, validate with ClusterViewTrace and report the failed checks of the given kinds
    (for checks whose main binding is elsewhere but whose property also speaks about the running system)."""
    trace, res = run_scenarios(ctx, repeat, scenarios)
    by, _, lines, _ = signatures_of(ctx, trace, set(kinds), fmt="%s@servers:%.0s%s")
    by = reproduced_servers(ctx, by, kinds)
    for (sig, sc) in sorted(by):
        e = by[(sig, sc)][0]
        ctx.finding(sig, "%s: %s (%d such events)" % (sig, json.dumps(e)[:500], len(by[(sig, sc)])), {"event": e})
    return lines, sum(len(x) for x in by.values())


def run_family(ctx):
    quick = ctx.tier == "quick"
    if ctx.pid == "C14":
        r = ctx.tlc("Catalogue", "Catalogue_mc.cfg", timeout=900)
        if r.violated:
            raise vlib.NoVerdict("Catalogue violates %s in the repaired switch positions" % r.violated)
        for sw, val in (("RestoreMode", '"addonly"'), ("RestoreMode", '"datasets"'), ("WireFirst", "FALSE")):
            rr = ctx.tlc("Catalogue", ctx.cfg("Catalogue_mc.cfg", {sw: val}), timeout=600, name="Catalogue-%s-%s" % (sw, val.strip('"')), count=False)
            ctx.cov["binding_selftest"]["switch_%s_%s_gives_counterexample" % (sw, val.strip('"'))] = rr.violated
            if not rr.violated:
                raise vlib.NoVerdict("vacuity guard failed for %s = %s" % (sw, val))
    else:
        r = ctx.tlc("Membership", "Membership_mc.cfg", timeout=900)
        if r.violated:
            raise vlib.NoVerdict("Membership violates %s in the repaired switch positions" % r.violated)
        for sw in ("SnapshotHasBook", "BootHasAddr", "ForgetClientOnRemove", "AddOverwrites", "ClientPerCall", "AckOnApply"):
            over = {sw: "FALSE"}
            if sw == "ForgetClientOnRemove":
                over["ClientPerCall"] = "FALSE"     # the cached client is what has to be forgotten
            rr = ctx.tlc("Membership", ctx.cfg("Membership_mc.cfg", over), timeout=600, name="Membership-" + sw, count=False)
            ctx.cov["binding_selftest"]["switch_%s_FALSE_gives_counterexample" % sw] = rr.violated
            if not rr.violated:
                raise vlib.NoVerdict("vacuity guard failed for %s" % sw)
    ctx.cov["exhaustive"] = True
    if ctx.pid == "C14":
        catalogue_replay(ctx)
    else:
        membership_replay(ctx)
    trace, res = run_scenarios(ctx, 1 if quick else 4)
    by, other, lines, viols = signatures_of(ctx, trace, set(KINDS[ctx.pid]))
    if other:
        ctx.notes.append("failed checks of the sibling property: %s" % other)
    by = reproduced(ctx, by)
    for (sig, sc) in sorted(by):
        e = by[(sig, sc)][0]
        ctx.finding(sig, "%s: %s (%d such events)" % (sig, json.dumps(e)[:600], len(by[(sig, sc)])), {"event": e})
    nviews = sum(1 for x in lines if '"ev":"view"' in x)
    ctx.log("%d scenarios on real server processes, %d node views validated: %d failed checks" % (len(res), nviews, len(viols)))
    ctx.sample({"scenario": res[0][0], "events": [json.loads(x) for x in res[0][1][:10]]})
    # binding self-test
    evs = [json.loads(x) for x in res[0][1]]
    st = {}
    mut = json.loads(json.dumps(evs))
    for e in mut:
        if e["ev"] == "view" and e["datasets"]:
            e["datasets"] = e["datasets"][1:]      # a node that lost a dataset
            break
    p = ctx.path("self1.ndjson")
    open(p, "w").writelines(json.dumps(e) + "\n" for e in mut)
    v, _ = vlib.validate_trace(ctx, "ClusterViewTrace", "ClusterViewTrace.cfg", p, lambda l: False)
    st["missing_dataset_in_a_view_rejected"] = any(x[1].startswith("Catalogue") for x in v)
    mut = json.loads(json.dumps(evs))
    for e in mut:
        if e["ev"] == "view" and len(e["members"]) > 1:
            k = sorted(e["members"])[0]
            e["members"][k] = ""                  # a member listed without an address
            break
    p = ctx.path("self2.ndjson")
    open(p, "w").writelines(json.dumps(e) + "\n" for e in mut)
    v, _ = vlib.validate_trace(ctx, "ClusterViewTrace", "ClusterViewTrace.cfg", p, lambda l: False)
    st["member_without_address_rejected"] = any(x[1] in ("AddressWrong", "MembersLostOnRestart") for x in v)
    ctx.cov["binding_selftest"].update(st)
    if not all(st.values()):
        raise vlib.NoVerdict("binding self-test failed: %s" % st)
    ctx.cov["traces_validated_against_impl"] = len(res)
    ctx.cov["node_views_validated"] = nviews
    ctx.assumptions += ["real server processes on loopback with on-disk Badger directories; crash = SIGKILL",
                        "views are read after a bounded quiescence wait (<= 6 s)",
                        "zero-group snapshots are requested through the verif hook (SIGUSR1) instead of waiting for 5000 entries"]
    return "model_checking"
