"""Shared pipeline of the index-family checks (C01 C02 C07 C08).

spec/Hnsw.tla (exact model) + HnswGen (binding G) + HnswTrace (binding V, property level),
harness/cmd/part (the real partition state machine over the real index).
"""
import json
import os
import subprocess

import vlib

KINDS = {
    "C01": ["EpLive", "SearchLive", "SearchScore", "SearchMeta", "SearchOrder", "SearchDup", "SearchK",
            "SearchEmpty", "SearchErr"],
    "C02": ["Result", "BatchErrs", "Map", "Len", "Bytes", "Size", "Outcome_panic", "Outcome_fatal", "Outcome_lost"],
    "C07": ["SmallExact", "RecallFloor"],
    "C08": ["RtErr", "RtItems", "RtLinks", "RtEp", "RtLen", "RtBytes", "RtStale", "RtUnread",
            "RtItems2", "RtLinks2", "RtEp2", "RtLen2", "RtBytes2", "RtStale2"],
}
SHORT = {"insert": "ins", "remove": "rem", "update": "upd", "saveload": "sl", "loadempty": "le", "binsert": "bins",
         "bupdate": "bupd", "bremove": "brem"}
METRICS = ["euclidean", "manhattan", "cosine"]
ALGOS = ["simple", "heuristic", "heuristic-extend"]


def is_reset(line):
    return line.startswith('{"ev":"reset"')


def shape(evs):
    return ",".join(SHORT.get(e["ev"], e["ev"]) for e in evs if e["ev"] != "reset")


def history_of(trace_path, lineno):
    """Events of the history containing global line `lineno`, up to that line."""
    buf = []
    with open(trace_path) as f:
        for n, line in enumerate(f):
            if is_reset(line):
                buf = []
            buf.append(line)
            if n == lineno:
                break
    evs = [json.loads(x) for x in buf]
    for e in evs:
        for k in ("sr",):
            if k in e and len(evs) > 1 and e is not evs[-1]:
                e.pop(k, None)
    return evs


def report(ctx, trace_path, viols, combo, origin):
    """Report failed checks that belong to ctx.pid; remember the rest as notes."""
    mine = set(KINDS[ctx.pid])
    other = {}
    by_kind = {}
    for v in viols:
        kind = v[1]
        if kind in mine:
            by_kind.setdefault(kind, []).append(v[0])
        else:
            other[kind] = other.get(kind, 0) + 1
    if other:
        ctx.notes.append("%s %s: failed checks of other properties (reported by their own checks): %s" % (origin, combo, other))
    for kind in sorted(by_kind):
        # shortest failing history for this kind (lines are sorted; scan the first 50 candidates)
        best = None
        for ln in by_kind[kind][:50]:
            evs = history_of(trace_path, ln)
            if best is None or len(evs) < len(best):
                best = evs
        ops = [{k: e[k] for k in ("ev", "id", "pt", "lvl", "meta", "items", "res", "errs") if k in e} for e in best if e["ev"] != "reset"]
        sig = "%s@%s" % (kind, shape(best))
        what = "%s (%d failing states, %s, %s): after %s the real index shows %s" % (
            kind, len(by_kind[kind]), origin, combo, shape(best),
            json.dumps({k: best[-1].get(k) for k in ("st", "res", "errs", "err") if best[-1].get(k) is not None})[:600])
        ctx.finding(sig, what, {"ops": ops, "combo": combo, "cfg": best[0].get("cfg"), "origin": origin,
                                "last_event": best[-1]})


def write_rank_module(ctx, part, metric, np, dim):
    p = subprocess.run([part, "ranks", metric, str(np), str(dim)], stdout=subprocess.PIPE, stderr=subprocess.PIPE)
    if p.returncode != 0:
        raise vlib.NoVerdict("rank table for %s is not tie-free / failed: %s" % (metric, p.stderr.decode()[-300:]))
    return p.stdout.decode()


def harvest_hist(path):
    seen = set()
    n = [0]
    hf = open(path, "w")

    def keep(line):
        if line.startswith('<<"H", "'):
            js = json.loads(line.rstrip("\n")[7:-2])
            h = hash(js)
            if h in seen:
                return
            seen.add(h)
            hf.write(js + "\n")
            n[0] += 1
    return keep, n, hf


def run_family(ctx, phases=("hnsw", "random", "selftest")):
    quick = ctx.tier == "quick"
    part = ctx.go_build("cmd/part", "part")
    total = 0
    if "map" in phases:
        total += map_phase(ctx, part)
    if "hnsw" in phases:
        total += hnsw_phase(ctx, part)
    if "streams" in phases:
        total += streams_phase(ctx, part)
    if "random" in phases:
        total += random_phase(ctx, part)
    if "recall" in phases:
        total += recall_phase(ctx, part)
    if "selftest" in phases:
        selftest(ctx, part)
    ctx.cov["traces_validated_against_impl"] = total
    ctx.assumptions += [
        "exact model premise: fewer vertex objects than ef/efConstruction, a tie-free distance table, not the extendCandidates mode; outside it only the property-level trace validation applies",
        "distances enter the specification as dense ranks of the float32 values the real kernels return",
        "TLC integers are 32-bit: counters are clamped to 2^30 by the harness (a wrapped counter fails the Size/Bytes checks)"]
    return "model_checking"


def map_phase(ctx, part):
    """C02/C04: the sequential map, its refinement by the index model, and exploration of every
    operation of the alphabet in every map state on the real partition state machine."""
    quick = ctx.tier == "quick"
    d = ctx.specdir()
    r = ctx.tlc("PartitionMap", "PartitionMap_mc.cfg", timeout=900)
    if r.violated:
        raise vlib.NoVerdict("PartitionMap violates its own invariants: %s" % r.violated)
    # refinement Hnsw => PartitionMap (action property RefinesMap) on a small exact universe
    txt = write_rank_module(ctx, part, "euclidean", 4, 3)
    with open(os.path.join(d, "HnswRankDef.tla"), "w") as f:
        f.write(txt)
    ov = {"Points": "{1, 2, 3}", "MaxVtx": 3, "Vals": "{1}", "MaxLevel": 1}
    if not quick:
        ov = {"Points": "{1, 2, 3, 4}", "MaxVtx": 4, "Vals": "{1}"}
    r = ctx.tlc("HnswMC", ctx.cfg("Hnsw_mc.cfg", ov), timeout=2400, heap="12g", name="Hnsw-refines-map")
    if r.violated or r.deadlock:
        raise vlib.NoVerdict("Hnsw does not refine PartitionMap (%s): specification bug" % r.violated)
    ctx.cov["exhaustive"] = True
    # binding G on the map universe
    hist_path = ctx.path("maphist.ndjson")
    keep, n, hf = harvest_hist(hist_path)
    ctx.tlc("PartitionMapGen", "PartitionMapGen.cfg", workers=2, timeout=600, keep_lines=keep)
    hf.close()
    total = 0
    combos = [("euclidean", "simple")] if quick else [("euclidean", "simple"), ("cosine", "heuristic"), ("manhattan", "heuristic-extend")]
    for ci, (m, a) in enumerate(combos):
        cfgp = ctx.path("xcfg-%d.json" % ci)
        json.dump({"index": {"metric": m, "algo": a, "M": 1, "MMax": 1, "MMax0": 2}, "np": 3, "dim": 3, "keys": ["a"],
                   "vals": 4, "ks": [1, 3], "nids": 3, "maxlvl": 1, "full": "last", "ids": (ctx.seed + ci) % 4}, open(cfgp, "w"))
        trace = ctx.path("xtrace-%d.ndjson" % ci)
        ctx.run([part, "explore", cfgp, hist_path, trace, str(ctx.seed), "12" if quick else "40"], timeout=1500)
        txt = write_rank_module(ctx, part, m, 3, 3)
        with open(os.path.join(d, "HnswRankDef.tla"), "w") as f:
            f.write(txt)
        viols, nev = vlib.validate_trace(ctx, "HnswTrace", "HnswTrace.cfg", trace, is_reset)
        nh = sum(1 for line in open(trace) if is_reset(line))
        ctx.log("explore %s/%s: %d map states, validated %d events of %d (state, operation) histories: %d failed checks"
                % (m, a, n[0], nev, nh, len(viols)))
        report(ctx, trace, viols, "%s/%s" % (m, a), "map exploration")
        total += nh
        if ci == 0:
            sample_history(ctx, trace)
    return total


def hnsw_phase(ctx, part):
    quick = ctx.tier == "quick"
    np_, dim = 4, 3
    d = ctx.specdir()
    # ---- rank tables from the real kernels; one TLC universe per distinct table
    tables = {}
    for m in METRICS:
        txt = write_rank_module(ctx, part, m, np_, dim)
        key = "---- MODULE HnswRankDef ----\nRankDef == " + txt.split("RankDef == ")[1]
        tables.setdefault(key, []).append(m)
    ctx.cov["rank_tables"] = {",".join(v): k.split("RankDef == ")[1].split("\n")[0] for k, v in tables.items()}
    total_traces = 0
    first = True
    for table, metrics in tables.items():
        with open(os.path.join(d, "HnswRankDef.tla"), "w") as f:
            f.write(table)
        # ---- 1. the design: exhaustive TLC run of the exact model with all invariants
        if first:
            ov = {"Vals": "{}"} if quick else {"Vals": "{1}"}
            r = ctx.tlc("HnswMC", ctx.cfg("Hnsw_mc.cfg", ov), timeout=2400 if quick else 7200, heap="12g" if quick else "24g", workers=None if quick else 16)
            if r.violated or r.deadlock:
                raise vlib.NoVerdict("Hnsw model violates %s in the repaired switch position: specification bug" % r.violated)
            ctx.cov["exhaustive"] = True
            # ---- 2. vacuity guard: the unrepaired hand-over must give a counterexample
            r2 = ctx.tlc("HnswMC", ctx.cfg("Hnsw_mc.cfg", {"Vals": "{}", "HandOverFilter": "FALSE"}), timeout=600,
                         name="Hnsw-nofilter", count=False)
            ctx.cov["binding_selftest"]["switch_HandOverFilter_FALSE_gives_counterexample"] = r2.violated
            if not r2.violated:
                raise vlib.NoVerdict("vacuity guard failed: HandOverFilter=FALSE does not violate the invariants")
        # ---- 3. binding G: emit histories
        hist_path = ctx.path("hist-%s.ndjson" % metrics[0])
        keep, n, hf = harvest_hist(hist_path)
        ctx.tlc("HnswGen", ctx.cfg("HnswGen.cfg", {"MaxOps": 5 if quick else 6}), workers=4, timeout=1500,
                keep_lines=keep, name="HnswGen-" + metrics[0], count=first)
        hf.close()
        ctx.log("emitted %d histories for %s" % (n[0], metrics))
        # ---- 4. replay on the real code, per metric x selection mode
        combos = [(m, a) for m in metrics for a in ALGOS]
        if quick:   # every metric and every selection mode, not the full product (+ one seed-rotated extra)
            extra = combos[(ctx.seed * 5 + 4) % len(combos)]
            combos = [c for c in combos if c[0] == metrics[0] or c[1] == "simple" or c == extra]
        for ci, (m, a) in enumerate(combos):
            cfgp = ctx.path("cfg-%s-%s.json" % (m, a))
            exact = a != "heuristic-extend"
            # every history is replayed and compared with the exact model; the trace handed to TLC
            # holds all of them for the first combo, a seed-dependent 1/stride sample for the others
            stride = 1 if ci == 0 else ((3 if not exact else 6) if quick else 2)
            icfg = {"index": {"metric": m, "algo": a, "M": 1, "MMax": 1, "MMax0": 2}, "np": np_, "dim": dim,
                    "keys": ["a"], "ks": [1, 2], "full": "last", "stride": stride, "offset": ctx.seed + ci, "ids": (ctx.seed + ci) % 4}
            trace = ctx.path("trace-%s-%s.ndjson" % (m, a))
            driftp = ctx.path("drift-%s-%s.json" % (m, a))

            def do_replay():
                json.dump(icfg, open(cfgp, "w"))
                ctx.run([part, "replay", cfgp, hist_path, trace, driftp], timeout=1500)
                return json.load(open(driftp))
            dr = do_replay()
            if dr["drift"] and exact and stride > 1:
                icfg["stride"] = 1       # the code left the exact model: validate every history
                dr = do_replay()
            ctx.cov.setdefault("replayed", {})["%s/%s" % (m, a)] = {"histories": dr["histories"], "drift": dr["drift"], "validated_by_tlc": dr["logged"]}
            if not exact:   # extend mode prunes over 2-hop neighbourhoods in map-iteration order: nondeterministic,
                            # outside the exact model's premise (property level only)
                ctx.cov["replayed"]["%s/%s" % (m, a)]["drift"] = "n/a (outside exact premise)"
                dr["drift"] = 0
            if dr["drift"]:
                ctx.model_drift("%s/%s: %d of %d histories end in a graph or probe answers that differ from the exact model"
                                % (m, a, dr["drift"], dr["histories"]), dr["samples"][:2])
            viols, nev = vlib.validate_trace(ctx, "HnswTrace", "HnswTrace.cfg", trace, is_reset)
            ctx.log("%s/%s: replayed %d histories (drift %s), validated %d events of %d histories: %d failed checks" % (m, a, dr["histories"], dr["drift"], nev, dr["logged"], len(viols)))
            report(ctx, trace, viols, "%s/%s" % (m, a), "model histories")
            total_traces += dr["logged"]
            if first:
                sample_history(ctx, trace)
            first = False
        first = False

    return total_traces


def streams_phase(ctx, part):
    """C08 at index level: header on/off x reader fragmentation x fresh/used target x metadata shapes."""
    quick = ctx.tier == "quick"
    d = ctx.specdir()
    total = 0
    for ci, (m, a, M) in enumerate([("euclidean", "simple", 2), ("cosine", "heuristic", 3), ("manhattan", "simple", 1)] if quick else
                                   [("euclidean", "simple", 2), ("cosine", "heuristic", 3), ("manhattan", "simple", 16), ("manhattan", "simple", 1), ("euclidean", "heuristic", 1)]):
        cfgp = ctx.path("scfg-%d.json" % ci)
        # dimensions on both sides of 256 (a vector codec that works in blocks of components has its seams there)
        dim = [5, 300, 3, 257, 4][ci]
        json.dump({"index": {"metric": m, "algo": a, "M": M, "MMax": M, "MMax0": 2 * M}, "np": 12, "dim": dim,
                   "nids": 9, "maxlvl": 2, "ids": (ctx.seed + ci) % 4}, open(cfgp, "w"))
        trace = ctx.path("strace-%d.ndjson" % ci)
        rank = ctx.path("srank-%d.tla" % ci)
        n = 54 if quick else 540
        rc, _, err = ctx.run([part, "streams", cfgp, str(n), str(ctx.seed * 77 + ci), trace, rank], timeout=1500,
                             ok_codes=tuple(range(-64, 256)), rlimit_as=8 << 30)
        if rc != 0:
            # the harness process died: if it died inside Load of the index's own output, that is the finding
            last = None
            try:
                lines = open(trace).read().splitlines()
                last = json.loads(lines[-1]) if lines else None
            except Exception:
                pass
            if last is not None and last.get("ev") == "loading" and last.get("reader") != "cut" and ctx.pid == "C08":
                why = "out of memory" if "out of memory" in err else ("panic" if "panic" in err else "exit %d" % rc)
                ctx.finding("RtCrash@stream:shape=%s" % last["shape"],
                            "loading the index's own snapshot (%d bytes, %d items, metadata shape %s, header=%d, reader=%s, target=%s) killed the process: %s"
                            % (last["nbytes"], last["nitems"], last["shape"], last["hdr"], last["reader"], last["tgt"], why),
                            {"event": last, "stderr_tail": err[-600:]})
                continue
            raise vlib.NoVerdict("stream harness died (exit %d): %s" % (rc, err[-400:]))
        import shutil
        shutil.copy(rank, os.path.join(d, "HnswRankDef.tla"))
        viols, nev = vlib.validate_trace(ctx, "HnswTrace", "HnswTrace.cfg", trace, lambda line: True, chunk_events=800)
        ctx.log("streams %s/%s: validated %d save/load round trips of %d states: %d failed checks" % (m, a, nev, n, len(viols)))
        total += nev
        if ctx.pid != "C08":
            continue
        # report per (check, metadata shape, header) - the shortest description of what fails
        evs = vlib.read_ndjson(trace)
        dmg = [e for e in evs if e["ev"] == "damaged"]
        if dmg:     # recorded, not judged: loads of truncated output are outside the property as stated
            ctx.cov.setdefault("truncated_output_loads", {})["%s/%s" % (m, a)] = {
                "loads": len(dmg), "max_alloc_bytes": max(e["alloc"] for e in dmg),
                "outcomes": {r: sum(1 for e in dmg if e["res"] == r) for r in sorted(set(e["res"] for e in dmg))}}
        seen = {}
        for v in viols:
            e = evs[v[0]]
            if v[1] not in KINDS["C08"] and v[1] != "RtUnread":
                continue
            sig = "%s@stream:shape=%s" % (v[1], e["shape"])
            if e["res"] != "ok":
                sig += ",%s" % e["res"]
            seen.setdefault(sig, []).append(e)
        for sig, es in sorted(seen.items()):
            e = min(es, key=lambda x: x["nitems"])
            ctx.finding(sig, "%s: save/load of an index with %d items (metadata shape %s, header=%d, reader=%s, target=%s) -> %s %s, %d unread bytes; %d such round trips fail"
                        % (sig, e["nitems"], e["shape"], e["hdr"], e["reader"], e["tgt"], e["res"], e["err"], e["unread"], len(es)),
                        {"event": {k: e[k] for k in e if k not in ("pre", "st")}, "pre": e.get("pre"), "post": e.get("st"),
                         "harness": "part streams (seed %d, cfg %d)" % (ctx.seed * 77 + ci, ci)})
        if ci == 0:
            ctx.sample({"stream_roundtrip": {k: evs[3][k] for k in evs[3] if k != "pre"}})
    return total


def recall_phase(ctx, part):
    """C07 clause 2: statistical, not model-checked - the specification contributes only the threshold."""
    quick = ctx.tier == "quick"
    # judged: configurations in which the unchanged tree measures 0.86-0.98 over seeds (margin >= 0.06 to the floor);
    # measured only: 64 dimensions, where iid normal vectors give the UNCHANGED tree 0.66-0.84 with Search(k=10)
    # (ef = 20) - the clause as literally stated does not hold there, which is recorded, not judged (DESIGN 10.6)
    judged = [(2000, 8, "euclidean"), (2000, 8, "cosine"), (2000, 32, "euclidean")] if quick else \
             [(2000, 8, "euclidean"), (4000, 8, "manhattan"), (2000, 8, "cosine"), (2000, 32, "euclidean"), (2000, 32, "cosine"), (4000, 8, "cosine")]
    measured = [(3000, 64, "manhattan")] if quick else [(3000, 64, "manhattan"), (4000, 64, "euclidean"), (4000, 64, "cosine"), (4000, 32, "manhattan")]
    runs = judged + measured
    lines = []
    for i, (n, dim, m) in enumerate(runs):
        out = ctx.path("recall-%d.ndjson" % i)
        ctx.run([part, "recall", str(n), str(dim), m, str(ctx.seed * 31 + i), out], timeout=1500)
        lines.append(open(out).read())
    trace = ctx.path("recall.ndjson")
    open(trace, "w").write("".join(lines))
    viols, nev = vlib.validate_trace(ctx, "HnswTrace", "HnswTrace.cfg", trace, lambda l: True)
    evs = vlib.read_ndjson(trace)
    ctx.cov["recall_measurements"] = [{"n": e["n"], "dim": e["dim"], "metric": e["metric"], "recall_at_10": round(e["hits"] / (e["queries"] * e["k"]), 3),
                                       "judged": (e["n"], e["dim"], e["metric"]) in judged} for e in evs]
    ctx.notes.append("clause 2 (recall floor) is a measurement, not model-checked")
    for v in viols:
        e = evs[v[0]]
        if (e["n"], e["dim"], e["metric"]) not in judged:
            continue
        ctx.finding("RecallFloor@%s/dim=%d" % (e["metric"], e["dim"]), "mean recall@10 = %.3f on %d random %d-dimensional vectors (%s), floor 0.8"
                    % (e["hits"] / (e["queries"] * e["k"]), e["n"], e["dim"], e["metric"]), {"event": e})
    ctx.log("recall: %s" % ctx.cov["recall_measurements"])
    return len(evs)


def sample_history(ctx, trace):
    with open(trace) as f:
        cur = []
        for line in f:
            e = json.loads(line)
            if e["ev"] == "reset" and cur:
                if len(cur) >= 5:
                    ctx.sample({"history": [{k: x.get(k) for k in ("ev", "id", "pt", "lvl", "res")} for x in cur[1:]],
                                "final_state": cur[-1].get("st"), "final_searches": cur[-1].get("sr")})
                    if len(ctx.cov["samples"]) >= 2:
                        return
                cur = []
            cur.append(e)


RANDOM_CFGS = [
    # (metric, algo, M, MMax, MMax0, ef, efc, np, nids, maxlvl)
    ("euclidean", "simple", 1, 1, 2, 0, 0, 10, 6, 2),
    ("manhattan", "simple", 2, 2, 4, 3, 3, 16, 10, 3),
    ("cosine", "heuristic", 2, 2, 4, 2, 4, 16, 10, 2),
    ("euclidean", "heuristic-extend", 3, 3, 6, 4, 4, 20, 12, 3),
    ("euclidean", "simple", 16, 16, 32, 0, 0, 24, 40, 3),
    ("cosine", "simple", 2, 3, 3, 2, 2, 12, 8, 1),
    ("manhattan", "heuristic-extend", 1, 1, 2, 1, 1, 10, 6, 2),
    # only M is given (index.HnswM alone): the budgets are the derived defaults mMax = M, mMax0 = 2M; collections of
    # up to 2M+1 = 65 items, searched with k = n (negative MMax marks "derived", the 11th field is the history length)
    ("euclidean", "simple", 32, -32, -64, 0, 0, 70, 70, 3, 70),
    ("manhattan", "heuristic", 3, -3, -6, 0, 0, 12, 9, 2, 12),
    # the remaining option of the heuristic selection: keepPruned = false
    ("euclidean", "heuristic-nokeep", 2, 2, 4, 4, 4, 16, 10, 2),
]


def random_phase(ctx, part):
    quick = ctx.tier == "quick"
    n, maxlen = (250, 30) if quick else (2500, 60)
    d = ctx.specdir()
    total = 0
    for i, rc in enumerate(RANDOM_CFGS):
        (m, a, M, mm, mm0, ef, efc, np_, nids, maxlvl) = rc[:10]
        n, maxlen = (250, 30) if quick else (2500, 60)
        if len(rc) > 10:
            maxlen = rc[10]
            n = n // 2
        cfgp = ctx.path("rcfg-%d.json" % i)
        json.dump({"index": {"metric": m, "algo": a, "M": M, "MMax": abs(mm), "MMax0": abs(mm0), "ef": ef, "efc": efc, "derived": mm < 0},
                   "np": np_, "dim": 4, "keys": ["a", "b"], "vals": 4, "ks": [1, 3, nids], "full": "some",
                   "nids": nids, "maxlvl": maxlvl, "ids": (ctx.seed + i) % 4}, open(cfgp, "w"))
        trace = ctx.path("rtrace-%d.ndjson" % i)
        rank = ctx.path("rrank-%d.tla" % i)
        ctx.run([part, "random", cfgp, str(n), str(maxlen), str(ctx.seed * 1000 + i), trace, rank], timeout=1500)
        import shutil
        shutil.copy(rank, os.path.join(d, "HnswRankDef.tla"))
        viols, nev = vlib.validate_trace(ctx, "HnswTrace", "HnswTrace.cfg", trace, is_reset, chunk_events=4000)
        ctx.log("random %s/%s M=%d ef=%d: validated %d events of %d histories: %d failed checks" % (m, a, M, ef, nev, n, len(viols)))
        report(ctx, trace, viols, "%s/%s/M=%d/ef=%d/efc=%d" % (m, a, M, ef, efc), "random histories")
        total += n
    return total


def selftest(ctx, part):
    """Corrupt one recorded field / drop one event of a good trace: must be rejected."""
    d = ctx.specdir()
    cfgp = ctx.path("st-cfg.json")
    json.dump({"index": {"metric": "euclidean", "algo": "simple", "M": 2, "MMax": 2, "MMax0": 4}, "np": 8, "dim": 4,
               "keys": ["a", "b"], "vals": 2, "ks": [1, 3], "full": "all", "nids": 5, "maxlvl": 1}, open(cfgp, "w"))
    trace = ctx.path("st-trace.ndjson")
    rank = ctx.path("st-rank.tla")
    ctx.run([part, "random", cfgp, "12", "12", "4242", trace, rank])
    import shutil
    shutil.copy(rank, os.path.join(d, "HnswRankDef.tla"))
    good = open(trace).read().splitlines(True)
    v0, _ = vlib.validate_trace(ctx, "HnswTrace", "HnswTrace.cfg", trace, is_reset)
    st = {}
    # (a) corrupt a search score
    mut = list(good)
    for i, line in enumerate(mut):
        e = json.loads(line)
        if e.get("sr") and any(s["res"] for s in e["sr"]):
            for s in e["sr"]:
                if s["res"]:
                    s["res"][0][1] += 1
                    break
            mut[i] = json.dumps(e) + "\n"
            break
    p1 = ctx.path("st-corrupt.ndjson")
    open(p1, "w").writelines(mut)
    v1, _ = vlib.validate_trace(ctx, "HnswTrace", "HnswTrace.cfg", p1, is_reset)
    st["corrupted_search_score_rejected"] = len(v1) > len(v0)
    # (b) drop a successful insert event
    mut = list(good)
    for i, line in enumerate(mut):
        e = json.loads(line)
        if e["ev"] == "insert" and e["res"] == "ok":
            del mut[i]
            break
    p2 = ctx.path("st-drop.ndjson")
    open(p2, "w").writelines(mut)
    v2, _ = vlib.validate_trace(ctx, "HnswTrace", "HnswTrace.cfg", p2, is_reset)
    st["dropped_insert_event_rejected"] = len(v2) > len(v0)
    ctx.cov["binding_selftest"].update(st)
    if not all(st.values()):
        raise vlib.NoVerdict("binding self-test failed: %s" % st)


def replay_case(ctx, part):
    case = json.load(open(ctx.replay))["case"]
    cfg = case.get("cfg") or {}
    combo = case.get("combo", "euclidean/simple").split("/")
    raise vlib.NoVerdict("replay of index-family cases: run bin/check %s; the case is %s" % (ctx.pid, json.dumps(case)[:300]))
