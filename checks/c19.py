"""C19 - priority queues pop in order; reversing yields an independent queue.

spec/PQueue.tla (abstract bag layer + concrete Go-slice/heap layer), PQueueGen (binding G),
PQueueTrace (binding V, property level).  DESIGN.md section 5, C19.
"""
import json
import os

import vlib


def ops_shape(h, upto):
    out = []
    for o in h[:upto + 1]:
        if o["op"] == "new":
            out.append("new:" + o["kind"])
        else:
            out.append("%s%d" % (o["op"], o.get("q", 0)))
    return ",".join(out)


def classify(ctx, trace_path, viols, what_prefix=""):
    """Map failed checks (global line numbers) back to histories and report."""
    if not viols:
        return
    lines = {}
    want = set(v[0] for v in viols)
    hist_start = {}
    cur_start = 0
    with open(trace_path) as f:
        evs = []
        for n, line in enumerate(f):
            if line.startswith('{"ev":"new"'):
                cur_start = n
            if n in want:
                hist_start[n] = cur_start
        # second pass to collect the histories of at most a few violations
    by_sig = {}
    need = {}
    for v in viols:
        need.setdefault(hist_start[v[0]], []).append(v)
    with open(trace_path) as f:
        buf = None
        bstart = None
        for n, line in enumerate(f):
            if line.startswith('{"ev":"new"'):
                if buf is not None and bstart in need:
                    _emit(ctx, buf, bstart, need[bstart], by_sig, what_prefix)
                buf, bstart = [], n
            if buf is not None:
                buf.append(line)
        if buf is not None and bstart in need:
            _emit(ctx, buf, bstart, need[bstart], by_sig, what_prefix)
    # report the shortest history per signature, at most 8 signatures
    for sig in sorted(by_sig, key=lambda s: (len(by_sig[s]["h"]), s))[:8]:
        c = by_sig[sig]
        ctx.finding(sig, what_prefix + c["what"], {"h": c["h"], "failed_step": c["step"], "check": c["kind"]})


def _emit(ctx, buf, bstart, vs, by_sig, what_prefix):
    evs = [json.loads(x) for x in buf]
    for v in vs:
        step = v[0] - bstart
        h = []
        for e in evs[:step + 1]:
            o = {"op": e["ev"]}
            if e["ev"] == "new":
                o["kind"] = e["kind"]
                o["items"] = [{"p": x[0], "t": x[1]} for x in e.get("items", [])]
            else:
                o["q"] = e.get("q", 0)
                if e["ev"] in ("push", "pop", "peek"):
                    o["p"], o["t"] = e["p"], e["t"]
            h.append(o)
        sig = "%s@%s" % (v[1], ops_shape(h, step))
        if sig not in by_sig or len(h) < len(by_sig[sig]["h"]):
            by_sig[sig] = {"h": h, "step": step, "kind": v[1],
                           "what": "%s after %s; real contents %s" % (v[1], ops_shape(h, step),
                                                                      json.dumps(evs[min(step, len(evs) - 1)].get("qs")))}


def is_reset(line):
    return line.startswith('{"ev":"new"')


def run(ctx):
    quick = ctx.tier == "quick"
    pq = ctx.go_build("cmd/pq", "pq")

    if ctx.replay:
        case = json.load(open(ctx.replay))["case"]
        hp = ctx.path("replay_hist.ndjson")
        with open(hp, "w") as f:
            f.write(json.dumps({"h": [dict(o) for o in case["h"]], "st": []}) + "\n")
        ctx.run([pq, "replay", hp, ctx.path("replay_trace.ndjson"), ctx.path("replay_drift.json")])
        viols, n = vlib.validate_trace(ctx, "PQueueTrace", "PQueueTrace.cfg", ctx.path("replay_trace.ndjson"), is_reset)
        classify(ctx, ctx.path("replay_trace.ndjson"), viols, "replay: ")
        ctx.cov["traces_validated_against_impl"] = 1
        ctx.sample(case)
        return

    # 1. the design: exhaustive TLC run of both layers, repaired position of the switch
    mc = ctx.cfg("PQueue_mc.cfg", {"MaxOps": 5 if quick else 6})
    r = ctx.tlc("PQueueMC", mc, timeout=900, coverage=quick)
    if r.violated or r.deadlock:
        raise vlib.NoVerdict("PQueue model violates %s with ShareOnReverse=FALSE: specification bug" % r.violated)
    ctx.cov["exhaustive"] = True
    # 2. sensitivity / vacuity: the shipped (aliasing) position must produce a counterexample
    sh = ctx.cfg("PQueue_mc.cfg", {"MaxOps": 5, "ShareOnReverse": "TRUE"})
    r2 = ctx.tlc("PQueueMC", sh, timeout=300, name="PQueue-shared", count=False)
    ctx.cov["binding_selftest"]["switch_ShareOnReverse_TRUE_gives_counterexample"] = bool(r2.violated)
    if not r2.violated:
        raise vlib.NoVerdict("vacuity guard failed: aliasing Reverse does not violate the model invariants")

    # 3. binding G: emit every state's shortest history, replay on the real queue
    gen = ctx.cfg("PQueueGen.cfg", {"MaxOps": 4 if quick else 5})
    keep, _ = None, None
    hist_path = ctx.path("pq_hist.ndjson")
    nh = [0]
    seen = set()
    with open(hist_path, "w") as hf:
        def keepline(line):
            if line.startswith('<<"H", "'):
                body = line.rstrip("\n")[7:-2]
                js = json.loads(body)
                if js in seen:
                    return
                seen.add(js)
                hf.write(js + "\n")
                nh[0] += 1
        ctx.tlc("PQueueGen", gen, workers=4, timeout=900, keep_lines=keepline, name="PQueueGen")
    seen.clear()
    ctx.log("emitted %d histories" % nh[0])
    trace = ctx.path("pq_trace.ndjson")
    ctx.run([pq, "replay", hist_path, trace, ctx.path("pq_drift.json")], timeout=900)
    drift = json.load(open(ctx.path("pq_drift.json")))
    ctx.cov["model_histories_replayed"] = drift["histories"]
    if drift["drift"]:
        ctx.model_drift("%d of %d histories end in queue arrays that differ from the exact (array-level) model"
                        % (drift["drift"], drift["histories"]), drift["samples"][:3])
    # 4. binding V: property-level validation of every recorded call
    viols, n = vlib.validate_trace(ctx, "PQueueTrace", "PQueueTrace.cfg", trace, is_reset)
    ctx.log("validated %d events of %d model histories: %d failed checks" % (n, nh[0], len(viols)))
    classify(ctx, trace, viols)
    ntr = nh[0]
    with open(trace) as f:
        cur = []
        for i, line in enumerate(f):
            e = json.loads(line)
            if e["ev"] == "new" and cur:
                if len(cur) >= 5 and any(x.startswith("reverse") for x in cur):
                    ctx.sample({"history": cur})
                    if len(ctx.cov["samples"]) >= 3:
                        break
                cur = []
            cur.append("%s q%s -> (%s,%s) qs=%s" % (e["ev"], e.get("q", e.get("kind")), e.get("p"), e.get("t"), json.dumps(e["qs"])))

    # 5. beyond the bounded universe: seeded random histories (ties, up to 4 queue objects)
    rtrace = ctx.path("pq_rand.ndjson")
    nrand, maxlen = (1500, 40) if quick else (20000, 120)
    ctx.run([pq, "random", str(nrand), str(maxlen), str(ctx.seed), rtrace], timeout=900)
    viols2, n2 = vlib.validate_trace(ctx, "PQueueTrace", "PQueueTrace.cfg", rtrace, is_reset)
    ctx.log("validated %d events of %d random histories: %d failed checks" % (n2, nrand, len(viols2)))
    classify(ctx, rtrace, viols2, "random: ")
    ntr += nrand

    # 6. binding self-test on a good trace: corrupt one field, drop one event
    good = []
    with open(rtrace) as f:
        for line in f:
            good.append(line)
            if len(good) >= 400:
                break
    while good and not is_reset(good[-1]):
        good.pop()
    good.pop()
    st = {}
    # (a) corrupt a pop result
    mut = list(good)
    for i, line in enumerate(mut):
        e = json.loads(line)
        if e["ev"] == "pop":
            e["p"] = e["p"] + 7
            mut[i] = json.dumps(e) + "\n"
            break
    p1 = ctx.path("self_corrupt.ndjson")
    open(p1, "w").writelines(mut)
    v1, _ = vlib.validate_trace(ctx, "PQueueTrace", "PQueueTrace.cfg", p1, is_reset)
    st["corrupted_pop_result_rejected"] = len(v1) > 0
    # (b) drop a push event
    mut = list(good)
    for i, line in enumerate(mut):
        if json.loads(line)["ev"] == "push":
            del mut[i]
            break
    p2 = ctx.path("self_drop.ndjson")
    open(p2, "w").writelines(mut)
    v2, _ = vlib.validate_trace(ctx, "PQueueTrace", "PQueueTrace.cfg", p2, is_reset)
    st["dropped_push_event_rejected"] = len(v2) > 0
    ctx.cov["binding_selftest"].update(st)
    if not all(st.values()):
        raise vlib.NoVerdict("binding self-test failed: %s" % st)

    ctx.cov["traces_validated_against_impl"] = ntr
    ctx.cov["rule"] = ("TLC enumerates every push/pop/peek/reverse history up to the bound over priorities {1,2,3} x "
                       "tags {a,b} on up to 3 queue objects; each is replayed on utils.PriorityQueue and every call is "
                       "validated by PQueueTrace; plus seeded random histories")
    ctx.assumptions += ["Go slice growth (doubling from 0) as modelled in PQueue!Grow only matters for ShareOnReverse=TRUE",
                        "items are distinguishable (priority, tag) pairs; a queue never holds the same pair twice"]
    return "model_checking"
