"""C07: see hnswfam.py (shared index-family pipeline) and DESIGN.md section 5."""
import hnswfam


def run(ctx):
    return hnswfam.run_family(ctx, ("hnsw", "random", "recall", "selftest"))
