"""C03: see raftfam.py and DESIGN.md section 5."""
import raftfam


def run(ctx):
    return raftfam.run_family(ctx)
