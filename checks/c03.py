"""C03: see raftfam.py and DESIGN.md section 5."""
import raftfam


def run(ctx):
    level = raftfam.run_family(ctx)
    if not ctx.replay:
        # a node that is caught up in the ZERO group by a catalogue snapshot keeps the raft stores (log, snapshot: the
        # acknowledged writes) of the replicas it goes on hosting: cmd/cat, CatalogueReplayTrace ReplicaStoreLost
        import clusfam
        clusfam.catalogue_replay(ctx, only="ReplicaStoreLost")
    return level
