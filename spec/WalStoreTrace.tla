---------------------------- MODULE WalStoreTrace ----------------------------
(* Binding V for C06.  Each event is one call on the store of one group, with
   the answers of EVERY group's store to every query after the call, recorded
   for the Badger store (field b) and for raft.MemoryStorage (field m) side by
   side.  The constant Which selects which of the two is validated against the
   WalStore operators: "b" decides the property, "m" must always be accepted
   (otherwise the transcription is wrong: no verdict).
   The answers logged with event n are compared with the state reached after
   applying event n, i.e. while processing event n+1 (histories end with "end"). *)
EXTENDS WalStore, Json
CONSTANTS TraceFile, Which
Trace == ndJsonDeserialize(TraceFile)
VARIABLES l, pending, viol
tvars == <<vars, l, pending, viol>>
None == [line |-> 0]

Code(c) == c
ObsViolG(ln, g, o) ==
  (IF o.first = First(g) THEN {} ELSE {<<ln, "FirstIndex">>})
  \cup (IF o.last = Last(g) THEN {} ELSE {<<ln, "LastIndex">>})
  \cup (IF \A i \in 1..Len(o.terms) : <<o.terms[i][1], o.terms[i][2]>> = Term(g, i - 1) THEN {} ELSE {<<ln, "Term">>})
  \cup (IF o.sidx = snap[g].idx /\ o.sterm = snap[g].term /\ o.sdata = snap[g].data /\ o.scs = (IF snap[g].idx > 0 THEN 1 ELSE 0)
        THEN {} ELSE {<<ln, "Snapshot">>})
  \cup (IF o.hs = hs[g] /\ o.ics = (IF snap[g].idx > 0 THEN 1 ELSE 0) THEN {} ELSE {<<ln, "InitialState">>})
  \cup (IF \A j \in 1..Len(o.ents) :
             LET e == o.ents[j]
                 want == Entries(g, e[1], e[2], e[3])
             IN /\ e[5] = want[2]
                /\ Len(e[4]) = Len(want[1])
                /\ \A k \in 1..Len(e[4]) : e[4][k][1] = want[1][k] /\ e[4][k][2] = TermAt(g, want[1][k]) /\ e[4][k][3] = 1
        THEN {} ELSE {<<ln, "Entries">>})
ObsViol(p) == IF p.line = 0 THEN {}
              ELSE (IF p.err = "" THEN {} ELSE {<<p.line, "CallError">>})
                   \cup UNION {ObsViolG(p.line, g, p.obs[g]) : g \in Groups}

TInit == Init /\ l = 1 /\ pending = None /\ viol = {}

Apply(t) ==
  CASE t.ev \in {"reset"} ->
         /\ off' = [g \in Groups |-> 0] /\ ents' = [g \in Groups |-> <<0>>]
         /\ snap' = [g \in Groups |-> NoSnap] /\ hs' = [g \in Groups |-> 0]
    [] t.ev = "save" ->
         LET g == t.g
             o1 == IF t.sidx > 0 THEN t.sidx ELSE off[g]                                  \* ApplySnapshot
             e1 == IF t.sidx > 0 THEN <<t.sterm>> ELSE ents[g]
             e2 == IF Len(t.terms) > 0 THEN SubSeq(e1, 1, t.start - o1) \o t.terms ELSE e1  \* Append
         IN /\ off' = [off EXCEPT ![g] = o1]
            /\ ents' = [ents EXCEPT ![g] = e2]
            /\ snap' = [snap EXCEPT ![g] = IF t.sidx > 0 THEN [idx |-> t.sidx, term |-> t.sterm, data |-> "s"] ELSE @]
            /\ hs' = [hs EXCEPT ![g] = IF t.hs > 0 THEN t.hs ELSE @]                        \* SetHardState
    [] t.ev = "compact" ->
         LET g == t.g IN
         /\ snap' = [snap EXCEPT ![g] = [idx |-> t.idx, term |-> TermAt(g, t.idx), data |-> "c"]]
         /\ off' = [off EXCEPT ![g] = t.idx]
         /\ ents' = [ents EXCEPT ![g] = SubSeq(@, t.idx - off[g] + 1, Len(@))]
         /\ UNCHANGED hs
    [] t.ev = "delete" ->
         /\ off' = [off EXCEPT ![t.g] = 0] /\ ents' = [ents EXCEPT ![t.g] = <<0>>]
         /\ snap' = [snap EXCEPT ![t.g] = NoSnap] /\ hs' = [hs EXCEPT ![t.g] = 0]
    [] OTHER -> UNCHANGED <<off, ents, snap, hs>>       \* reopen, end

TStep ==
  /\ l <= Len(Trace)
  /\ l' = l + 1
  /\ LET t == Trace[l] IN
     /\ viol' = viol \cup ObsViol(pending)
                       \* a log far beyond what the operators above can enumerate (a write burst of ~10^5 entries compacted by
                       \* one snapshot): the Badger store's answers at the boundaries are compared with the reference's directly
                       \cup (IF t.ev = "long" /\ Which = "b" /\ (t.lb # t.lm \/ t.err # "") THEN {<<l, "LongLog">>} ELSE {})
     /\ pending' = IF t.ev \in {"reset", "end", "long"} THEN None ELSE [line |-> l, obs |-> t[Which], err |-> IF Which = "b" THEN t.err ELSE ""]
     /\ Apply(t)
     /\ UNCHANGED <<nops, lastop>>
TSpec == TInit /\ [][TStep]_tvars
Report == l = Len(Trace) + 1 => PrintT(<<"VIOL", ToJson([n |-> Len(Trace), v |-> viol])>>)
=============================================================================
