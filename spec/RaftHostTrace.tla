---------------------------- MODULE RaftHostTrace ----------------------------
(* Binding V for C05 and C03: the events the verif hooks record at every boundary
   of every ready cycle of every real RaftGroup of a simulated cluster (plus the
   client's submits / acks and the final contents), checked against the contract
   RaftHost.tla states about the host loop.  The trace specification keeps, per
   node, the durable state exactly as the "saved" events report it (RaftHost's
   dTerm / dVote / dLog), and checks

     Rebootstrap      a node whose store already holds state must not StartNode
     ResumeOlder      the store a node restarts from is not older than what it saved
     ResumeNewer      nor does it hold entries beyond the last save (a truncated suffix stays truncated)
     Unattested       a granted vote / a positive append response leaves only when the
                      term, vote and entries it attests are durable (RaftHost!Attested)
     ApplyMismatch    no two replicas apply different entries at one index
     ApplyOrder       a replica applies index lastApplied+1 (snapshot index after a snapshot / restart)
     ApplyNotDurable  an entry is applied only when it is in the node's durable log
     Panic            no raft panic / log.Fatal
     NoConverge       all live replicas hold the same contents once faults stop
     SnapshotConfStale the membership recorded in a node's local snapshot (and found in its store at
                      restart) is the group's membership at the snapshot's index (RaftConf!SnapConfExact)
   and for C03 (the applied events carry the decoded change)
     AckedLost        an acknowledged write is in the applied log
     NeverSubmitted   every applied change was submitted by the client
     SnapshotContents the snapshot in a node's store, labelled idx, holds the state after the entries 1..idx
     ContentsVsLog    every live replica's final contents = the sequential map applied to the applied log *)
EXTENDS Integers, Sequences, FiniteSets, TLC, Json
CONSTANT TraceFile
Trace == ndJsonDeserialize(TraceFile)
VARIABLES l, dTerm, dVote, dLast, dLog, lastApplied, appliedAt, submitted, acked, viol
vars == <<l, dTerm, dVote, dLast, dLog, lastApplied, appliedAt, submitted, acked, viol>>
Nodes == 1..5
Empty == [x \in {} |-> 0]
Put(f, x, v) == [y \in DOMAIN f \cup {x} |-> IF y = x THEN v ELSE f[y]]
Drop(f, x) == [y \in DOMAIN f \ {x} |-> f[y]]

Init == /\ l = 1 /\ dTerm = [n \in Nodes |-> 0] /\ dVote = [n \in Nodes |-> 0] /\ dLast = [n \in Nodes |-> 0]
        /\ dLog = [n \in Nodes |-> Empty] /\ lastApplied = [n \in Nodes |-> 0] /\ appliedAt = Empty
        /\ submitted = {} /\ acked = {} /\ viol = {}

\* durable log after a saved event: snapshot resets it to the dummy, entries truncate and append
RECURSIVE PutEnts(_, _, _)
PutEnts(f, es, j) == IF j > Len(es) THEN f ELSE PutEnts(Put(f, es[j][1], es[j][2]), es, j + 1)
SavedLog(n, t) ==
  LET base == IF t.snapidx > 0 THEN (t.snapidx :> t.snapterm) ELSE dLog[n]
      cut  == IF Len(t.ents) > 0 THEN [i \in {j \in DOMAIN base : j < t.ents[1][1]} |-> base[i]] ELSE base
  IN PutEnts(cut, t.ents, 1)
SavedLast(n, t) == IF Len(t.ents) > 0 THEN t.ents[Len(t.ents)][1] ELSE IF t.snapidx > 0 THEN t.snapidx ELSE dLast[n]

Attested(n, t) ==
  CASE t.type = "MsgVoteResp" /\ t.reject = 0 -> dTerm[n] >= t.term /\ (dTerm[n] = t.term => dVote[n] = t.to)
    [] t.type = "MsgAppResp" /\ t.reject = 0 -> dTerm[n] >= t.term /\ (dTerm[n] = t.term => dLast[n] >= t.index)
    [] OTHER -> TRUE

\* sequential map over the applied changes (C03)
StepM(s, c) ==
  CASE c[1] = "insert" -> IF c[2] \in DOMAIN s THEN s ELSE Put(s, c[2], c[3])
    [] c[1] = "update" -> IF c[2] \in DOMAIN s THEN Put(s, c[2], c[3]) ELSE s
    [] c[1] = "remove" -> IF c[2] \in DOMAIN s THEN Drop(s, c[2]) ELSE s
    [] c[1] = "binsert" -> LET s1 == IF c[2] \in DOMAIN s THEN s ELSE Put(s, c[2], c[3])
                           IN IF c[2] + 10 \in DOMAIN s1 THEN s1 ELSE Put(s1, c[2] + 10, c[3])
    [] OTHER -> s
RECURSIVE Fold(_, _, _)
Fold(s, A, i) == IF i \notin DOMAIN A THEN (IF \E j \in DOMAIN A : j > i THEN Fold(s, A, i + 1) ELSE s)
                 ELSE Fold(StepM(s, A[i][3]), A, i + 1)
\* the state after the entries up to index hi
RECURSIVE FoldTo(_, _, _, _)
FoldTo(s, A, i, hi) == IF i > hi THEN s ELSE FoldTo(IF i \in DOMAIN A THEN StepM(s, A[i][3]) ELSE s, A, i + 1, hi)
Contents(items) == [i \in {items[j][1] : j \in 1..Len(items)} |->
                      LET j == CHOOSE j \in 1..Len(items) : items[j][1] = i IN items[j][2]]

\* membership of the group after the entries up to index hi (bootstrap and joins / leaves are conf entries)
RECURSIVE Mem(_, _, _)
Mem(S, i, hi) ==
  IF i > hi THEN S
  ELSE LET c == IF i \in DOMAIN appliedAt THEN appliedAt[i][3] ELSE <<"none", 0, 0>>
       IN Mem(IF c[1] # "conf" \/ c[2] = 0 THEN S ELSE IF c[3] = 1 THEN S \cup {c[2]} ELSE S \ {c[2]}, i + 1, hi)
SnapConfViol(t) ==
  IF t.snapidx > 0 /\ (\A i \in 1..t.snapidx : i \in DOMAIN appliedAt)
     /\ {t.snapnodes[j] : j \in 1..Len(t.snapnodes)} # Mem({}, 1, t.snapidx)
  THEN {<<l, "SnapshotConfStale">>} ELSE {}

Step ==
  /\ l <= Len(Trace) /\ l' = l + 1
  /\ LET t == Trace[l] IN
     CASE t.ev = "start" ->
            LET n == t.node
                had == t.hsterm > 0 \/ t.last > 0 \/ t.snapidx > 0
            IN /\ viol' = viol \cup (IF had /\ t.mode = "start" THEN {<<l, "Rebootstrap">>} ELSE {})
                               \cup (IF t.hsterm < dTerm[n] \/ t.last < dLast[n] THEN {<<l, "ResumeOlder">>} ELSE {})
                               \* ... nor does it hold entries beyond what was saved last (a suffix that was cut off stays cut off)
                               \cup (IF dLast[n] > 0 /\ t.last > dLast[n] THEN {<<l, "ResumeNewer">>} ELSE {})
                               \cup SnapConfViol(t)
               /\ lastApplied' = [lastApplied EXCEPT ![n] = t.snapidx]
               /\ UNCHANGED <<dTerm, dVote, dLast, dLog, appliedAt, submitted, acked>>
       [] t.ev = "saved" ->
            LET n == t.node IN
            /\ dTerm' = [dTerm EXCEPT ![n] = IF t.term > 0 THEN t.term ELSE @]
            /\ dVote' = [dVote EXCEPT ![n] = IF t.term > 0 THEN t.vote ELSE @]
            /\ dLog' = [dLog EXCEPT ![n] = SavedLog(n, t)]
            /\ dLast' = [dLast EXCEPT ![n] = SavedLast(n, t)]
            /\ UNCHANGED <<lastApplied, appliedAt, submitted, acked, viol>>
       [] t.ev = "send" ->
            /\ viol' = viol \cup (IF Attested(t.node, t) THEN {} ELSE {<<l, "Unattested">>})
            /\ UNCHANGED <<dTerm, dVote, dLast, dLog, lastApplied, appliedAt, submitted, acked>>
       [] t.ev = "snapshot" ->
            /\ viol' = viol \cup (IF t.err = "" THEN SnapConfViol(t) ELSE {})
                            \* a local snapshot that was really taken (the stored index moved) is labelled with the index
                            \* its contents reflect: the last entry this node applied (RaftHost!SnapshotExact)
                            \cup (IF t.err = "" /\ t.snapidx # t.prev /\ t.snapidx # lastApplied[t.node] THEN {<<l, "SnapshotLabel">>} ELSE {})
            /\ UNCHANGED <<dTerm, dVote, dLast, dLog, lastApplied, appliedAt, submitted, acked>>
       [] t.ev = "snapinstalled" ->
            /\ lastApplied' = [lastApplied EXCEPT ![t.node] = IF t.idx > @ THEN t.idx ELSE @]
            /\ UNCHANGED <<dTerm, dVote, dLast, dLog, appliedAt, submitted, acked, viol>>
       [] t.ev = "applied" ->
            LET n == t.node  e == <<t.term, t.digest, t.chg>> IN
            /\ viol' = viol
                 \cup (IF t.idx \in DOMAIN appliedAt /\ (appliedAt[t.idx][1] # t.term \/ appliedAt[t.idx][2] # t.digest) THEN {<<l, "ApplyMismatch">>} ELSE {})
                 \cup (IF t.idx = lastApplied[n] + 1 THEN {} ELSE {<<l, "ApplyOrder">>})
                 \cup (IF t.idx \in DOMAIN dLog[n] /\ dLog[n][t.idx] = t.term THEN {} ELSE {<<l, "ApplyNotDurable">>})
                 \cup (IF t.chg[1] \in {"conf", "empty", "remove"} \/ <<t.chg[1], t.chg[2], t.chg[3]>> \in submitted THEN {} ELSE {<<l, "NeverSubmitted">>})
            /\ appliedAt' = IF t.idx \in DOMAIN appliedAt THEN appliedAt ELSE Put(appliedAt, t.idx, e)
            /\ lastApplied' = [lastApplied EXCEPT ![n] = t.idx]
            /\ UNCHANGED <<dTerm, dVote, dLast, dLog, submitted, acked>>
       [] t.ev = "submit" ->
            /\ submitted' = IF t.kind = "none" THEN submitted ELSE submitted \cup {<<t.kind, t.id, t.val>>}
            /\ acked' = acked /\ UNCHANGED <<dTerm, dVote, dLast, dLog, lastApplied, appliedAt, viol>>
       [] t.ev = "ack" ->
            /\ acked' = IF t.res \in {"ok", "batch"} /\ t.kind \in {"insert", "update", "binsert"} THEN acked \cup {<<t.kind, t.id, t.val>>} ELSE acked
            /\ UNCHANGED <<dTerm, dVote, dLast, dLog, lastApplied, appliedAt, submitted, viol>>
       [] t.ev \in {"fatal", "panic"} ->
            /\ viol' = viol \cup {<<l, "Panic">>}
            /\ UNCHANGED <<dTerm, dVote, dLast, dLog, lastApplied, appliedAt, submitted, acked>>
       [] t.ev = "final" ->
            \* judged for a node that has applied everything any node applied; a node that is still catching up when the
            \* run ends is a matter of convergence (the end event), and its dump races with its apply loop
            /\ viol' = viol \cup (IF (\E i \in DOMAIN appliedAt : i > t.applied) \/ Contents(t.items) = Fold(Empty, appliedAt, 1) THEN {} ELSE {<<l, "ContentsVsLog">>})
            /\ UNCHANGED <<dTerm, dVote, dLast, dLog, lastApplied, appliedAt, submitted, acked>>
       [] t.ev = "snapcontent" ->
            \* the snapshot a node's store holds when the run ends, loaded into a fresh index: labelled idx, it holds the
            \* state after the entries 1..idx - no more (an entry behind idx would be applied twice after a restart,
            \* or by a follower that is sent the snapshot) and no less (RaftHost!SnapshotExact)
            /\ viol' = viol \cup (IF t.idx > 0 /\ (\A i \in 1..t.idx : i \in DOMAIN appliedAt)
                                      /\ Contents(t.items) # FoldTo(Empty, appliedAt, 1, t.idx) THEN {<<l, "SnapshotContents">>} ELSE {})
            /\ UNCHANGED <<dTerm, dVote, dLast, dLog, lastApplied, appliedAt, submitted, acked>>
       [] t.ev = "end" ->
            /\ viol' = viol \cup (IF t.converged = 1 THEN {} ELSE {<<l, "NoConverge">>})
                            \cup (IF \A a \in acked : \E i \in DOMAIN appliedAt : <<appliedAt[i][3][1], appliedAt[i][3][2], appliedAt[i][3][3]>> = a
                                  THEN {} ELSE {<<l, "AckedLost">>})
            \* next scenario in a concatenated trace starts from scratch
            /\ dTerm' = [n \in Nodes |-> 0] /\ dVote' = [n \in Nodes |-> 0] /\ dLast' = [n \in Nodes |-> 0]
            /\ dLog' = [n \in Nodes |-> Empty] /\ lastApplied' = [n \in Nodes |-> 0] /\ appliedAt' = Empty
            /\ submitted' = {} /\ acked' = {}
       [] OTHER -> UNCHANGED <<dTerm, dVote, dLast, dLog, lastApplied, appliedAt, submitted, acked, viol>>
Spec == Init /\ [][Step]_vars
Report == l = Len(Trace) + 1 => PrintT(<<"VIOL", ToJson([n |-> Len(Trace), v |-> viol])>>)
=============================================================================
