------------------------- MODULE CatalogueReplayTrace -------------------------
(* Binding of Catalogue.tla to the real storage.DatasetManager (harness cmd/cat).  One event
   per log of create / delete / add-node / remove-node entries:
     a  the catalogue of a manager that applied the whole log           (Catalogue!Ref)
     b  of one that applied a prefix, restored a's snapshot taken at a later index and
        applied the rest                                                 (a lagging follower)
     c  of one that started from that snapshot                           (a restart, a new member)
   Accepted iff all three describe the same catalogue (Catalogue!Agree, SnapOK): the same
   datasets with the same dimension, metric and replication factor, the same partitions in the same order, the same replica set per partition,
   and no node listed twice.  kept: the raft stores of the replicas that b hosts from the snapshot's arrival to the end. *)
EXTENDS Integers, Sequences, FiniteSets, TLC, Json
CONSTANT TraceFile
Trace == ndJsonDeserialize(TraceFile)
VARIABLES l, viol
vars == <<l, viol>>
SetOf(s) == {s[i] : i \in 1..Len(s)}
Ids(c) == [i \in 1..Len(c) |-> c[i].id]
PartIds(d) == [i \in 1..Len(d.parts) |-> d.parts[i].id]
Same(x, y) ==
  /\ Ids(x) = Ids(y)
  /\ \A i \in 1..Len(x) : /\ PartIds(x[i]) = PartIds(y[i])
                          /\ <<x[i].dim, x[i].space, x[i].repl>> = <<y[i].dim, y[i].space, y[i].repl>>
                          /\ \A j \in 1..Len(x[i].parts) : SetOf(x[i].parts[j].nodes) = SetOf(y[i].parts[j].nodes)
NoDup(x) == \A i \in 1..Len(x) : \A j \in 1..Len(x[i].parts) :
               Cardinality(SetOf(x[i].parts[j].nodes)) = Len(x[i].parts[j].nodes)
\* the descriptor of a dataset and its partition objects describe the same replica sets
DescrOK(x) == \A i \in 1..Len(x) : \A j \in 1..Len(x[i].parts) : SetOf(x[i].parts[j].nodes) = SetOf(x[i].parts[j].pnodes)
V(t) == (IF t.res = "ok" THEN {} ELSE {<<l, "RestoreFailed">>})
        \cup (IF DescrOK(t.a) /\ DescrOK(t.b) /\ DescrOK(t.c) THEN {} ELSE {<<l, "DescriptorStale">>})
        \cup (IF Same(t.a, t.b) THEN {} ELSE {<<l, "RestoreIntoKnownDiffers">>})
        \cup (IF Same(t.a, t.c) THEN {} ELSE {<<l, "RestoreFromScratchDiffers">>})
        \cup (IF NoDup(t.a) /\ NoDup(t.b) /\ NoDup(t.c) THEN {} ELSE {<<l, "ReplicaListedTwice">>})
        \* C10: a write is applied here iff this node is one of the owner's replicas - for the follower as for the reference
        \cup (IF \A i \in 1..Len(t.b) : \A j \in 1..Len(t.b[i].parts) :
                    t.b[i].parts[j].route = (IF \E k \in 1..Len(t.b[i].parts) : t.b[i].parts[k].pnodes = <<>> THEN "none" ELSE IF 1 \in SetOf(t.b[i].parts[j].pnodes) THEN "local" ELSE "forward")
              THEN {} ELSE {<<l, "RouteStale">>})
        \* C17: the follower counts a dataset's partitions itself iff it hosts every one of them (a partition that moved
        \* away has to be asked for where it is now - its stale local copy is not the partition)
        \cup (IF \A i \in 1..Len(t.b) :
                    t.b[i].size = (IF \E k \in 1..Len(t.b[i].parts) : t.b[i].parts[k].pnodes = <<>> THEN "none"
                                   ELSE IF \A k \in 1..Len(t.b[i].parts) : 1 \in SetOf(t.b[i].parts[k].pnodes) THEN "ok" ELSE "remote")
              THEN {} ELSE {<<l, "SizeRouteStale">>})
        \* a replica this node hosts when the snapshot arrives and keeps hosting: its raft log is still there afterwards
        \* (before / after: the log's last index; it only grows while the replica stays - Catalogue!StoresKept)
        \cup (IF \A k \in 1..Len(t.kept) : t.kept[k].after >= t.kept[k].before THEN {} ELSE {<<l, "ReplicaStoreLost">>})
Init == l = 1 /\ viol = {}
Step == /\ l <= Len(Trace) /\ l' = l + 1 /\ viol' = viol \cup V(Trace[l])
Spec == Init /\ [][Step]_vars
Report == l = Len(Trace) + 1 => PrintT(<<"VIOL", ToJson([n |-> Len(Trace), v |-> viol])>>)
=============================================================================
