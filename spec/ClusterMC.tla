------------------------------ MODULE ClusterMC ------------------------------
EXTENDS Cluster
OwnerDef == [i \in Ids |-> i % NP]
HostsDef == [p \in 0..(NP - 1) |-> {p + 1}]
GoodPaths == [pa \in Paths |-> OwnerDef]
BadPaths == [pa \in Paths |-> IF pa = "bupdate" THEN [i \in Ids |-> (i \div 2) % NP] ELSE OwnerDef]
=============================================================================
