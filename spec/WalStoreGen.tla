----------------------------- MODULE WalStoreGen -----------------------------
(* Binding G for C06: every state of the bounded WalStore universe with the
   shortest call history reaching it. *)
EXTENDS WalStore, Json
VARIABLE hist
GInit == Init /\ hist = <<>>
GNext == Next /\ hist' = Append(hist, lastop')
GSpec == GInit /\ [][GNext]_<<vars, hist>>
Emit == PrintT(<<"H", ToJson([h |-> hist])>>)
GView == <<off, ents, snap, hs, lastop.op>>
=============================================================================
