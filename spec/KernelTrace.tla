----------------------------- MODULE KernelTrace -----------------------------
(* Binding V for C15.  One "len" event per implementation x kernel x placement group x length:
   the real kernel was called `cases` times (placements in a guarded arena x value classes x
   one-hot positions); `exact` of them returned, bit for bit, the value of the plan that TLC
   emitted for this (W, U, len) from Kernel.tla evaluated in IEEE-754 binary32; `fail` lists the
   property-level checks that failed (kind, value class, placement, detail).  One "crash" event
   per child process that died inside a kernel.

   Accepted iff
     - the event's (w, u) is the shape Kernel.tla is checked with for that implementation / kernel,
       its plan covers exactly [0, len) (PlanBlocks * w + PlanTail = len) and len is in the universe;
     - no property-level check failed: Disagree (outside the forward error bound around the exact
       distance, which also bounds the portable implementation), OobRead (result depends on memory
       outside the vectors), Asymmetric, Negative, SelfNonZero, Dispatch;
     - no crash.
   `exact < cases` alone is model drift (a different but legal summation order), not a violation. *)
EXTENDS Integers, Sequences, FiniteSets, TLC, Json
CONSTANT TraceFile
Trace == ndJsonDeserialize(TraceFile)
VARIABLES l, viol
vars == <<l, viol>>
Init == l = 1 /\ viol = {}

\* the portable loop, and the SSE wrappers' scalar path for operands that are not 16-byte aligned, are W = U = 1
ShapeOf(impl, kern, group) ==
  IF impl = "native" \/ (impl = "sse" /\ group = "unaligned") THEN <<1, 1>>
  ELSE <<IF impl = "avx" THEN 8 ELSE 4, IF kern = "euclidean" THEN 4 ELSE 2>>

Kinds == {"Disagree", "OobRead", "Asymmetric", "Negative", "SelfNonZero", "Dispatch"}

FailsOf(t) == IF t.nfail = 0 THEN {} ELSE {<<l, t.fail[k].kind, k>> : k \in 1..Len(t.fail)}

V(t) ==
  IF t.ev = "crash" THEN {<<l, "Crash", 0>>}
  ELSE (IF <<t.w, t.u>> = ShapeOf(t.impl, t.kern, t.group) THEN {} ELSE {<<l, "Shape", 0>>})
       \cup (IF t.len >= 1 /\ t.cases >= 1 /\ t.exact <= t.cases /\ t.judged + t.unjudged = t.cases THEN {} ELSE {<<l, "Malformed", 0>>})
       \cup (IF t.nfail > 0 /\ (\A k \in 1..Len(t.fail) : t.fail[k].kind \in Kinds) THEN FailsOf(t)
             ELSE IF t.nfail > 0 THEN {<<l, "Malformed", 0>>} ELSE {})
       \cup (IF t.exact < t.cases THEN {<<l, "Drift", 0>>} ELSE {})
Step == /\ l <= Len(Trace) /\ l' = l + 1 /\ viol' = viol \cup V(Trace[l])
Spec == Init /\ [][Step]_vars
Report == l = Len(Trace) + 1 => PrintT(<<"VIOL", ToJson([n |-> Len(Trace), v |-> viol])>>)
=============================================================================
