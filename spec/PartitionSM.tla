----------------------------- MODULE PartitionSM -----------------------------
(* C04 (and the state-machine half of C03): replicas of one partition apply a
   common log of changes (the abstraction RepLog that C05 establishes), may take
   a snapshot after any entry, may restore any snapshot and continue, may restart
   (lose everything volatile) and recover from the latest snapshot plus replay.
   The state machine is PartitionMap's deterministic step function. *)
EXTENDS Integers, Sequences, FiniteSets, TLC

CONSTANTS Ids, Points, Keys, Vals, Replicas, MaxLog
Metas  == [Keys -> Vals \cup {0}]
Merge(new, old) == [k \in Keys |-> IF new[k] # 0 THEN new[k] ELSE old[k]]
Empty == [x \in {} |-> 0]
Drop(f, x) == [y \in DOMAIN f \ {x} |-> f[y]]
Put(f, x, v) == [y \in DOMAIN f \cup {x} |-> IF y = x THEN v ELSE f[y]]

\* one log entry = one single-item change (batches are folds of these, see PartitionMap)
Changes == [op : {"insert", "update"}, id : Ids, pt : Points, meta : Metas] \cup [op : {"remove"}, id : Ids]
StepM(s, c) ==
  CASE c.op = "insert" -> IF c.id \in DOMAIN s THEN [s |-> s, res |-> "exists"]
                          ELSE [s |-> Put(s, c.id, [pt |-> c.pt, meta |-> c.meta]), res |-> "ok"]
    [] c.op = "update" -> IF c.id \in DOMAIN s
                          THEN [s |-> Put(s, c.id, [pt |-> c.pt, meta |-> Merge(c.meta, s[c.id].meta)]), res |-> "ok"]
                          ELSE [s |-> s, res |-> "notfound"]
    [] c.op = "remove" -> IF c.id \in DOMAIN s THEN [s |-> Drop(s, c.id), res |-> "ok"] ELSE [s |-> s, res |-> "notfound"]

VARIABLES log,      \* the replicated log (committed prefix only)
          rep,      \* [Replicas -> [applied, store]]
          outcome,  \* [Replicas -> Seq(outcome)]: what each replica reported per index (0 = not observed)
          snaps     \* set of [idx, store]: snapshots taken so far (by anyone; snapshots travel)
vars == <<log, rep, outcome, snaps>>

RECURSIVE Replay(_, _)
Replay(i, s) == IF i = 0 THEN s ELSE StepM(Replay(i - 1, s), log[i]).s     \* s applied to log[1..i]
Ref(i) == Replay(i, Empty)

Init == /\ log = <<>> /\ snaps = {}
        /\ rep = [r \in Replicas |-> [applied |-> 0, store |-> Empty]]
        /\ outcome = [r \in Replicas |-> <<>>]

AppendEntry(c) == Len(log) < MaxLog /\ log' = Append(log, c) /\ UNCHANGED <<rep, outcome, snaps>>
Apply(r) == /\ rep[r].applied < Len(log)
            /\ LET i == rep[r].applied + 1   x == StepM(rep[r].store, log[i])
               IN /\ rep' = [rep EXCEPT ![r] = [applied |-> i, store |-> x.s]]
                  /\ outcome' = [outcome EXCEPT ![r] = [j \in 1..i |-> IF j = i THEN x.res ELSE IF j <= Len(@) THEN @[j] ELSE "?"]]
            /\ UNCHANGED <<log, snaps>>
Snap(r) == snaps' = snaps \cup {[idx |-> rep[r].applied, store |-> rep[r].store]} /\ UNCHANGED <<log, rep, outcome>>
Restore(r, s) == /\ s \in snaps
                 /\ rep' = [rep EXCEPT ![r] = [applied |-> s.idx, store |-> s.store]]
                 /\ UNCHANGED <<log, outcome, snaps>>
Restart(r) == /\ rep' = [rep EXCEPT ![r] = [applied |-> 0, store |-> Empty]]
              /\ UNCHANGED <<log, outcome, snaps>>

Next == \/ \E c \in Changes : AppendEntry(c)
        \/ \E r \in Replicas : Apply(r) \/ Snap(r) \/ Restart(r) \/ \E s \in snaps : Restore(r, s)
Spec == Init /\ [][Next]_vars

\* C04
SameIndexSameStore == \A a, b \in Replicas : rep[a].applied = rep[b].applied => rep[a].store = rep[b].store
EqualsReplay == \A r \in Replicas : rep[r].store = Ref(rep[r].applied)
SnapshotIsPrefix == \A s \in snaps : s.store = Ref(s.idx)
OutcomesAgree == \A a, b \in Replicas : \A i \in 1..Len(log) :
                    (i <= Len(outcome[a]) /\ i <= Len(outcome[b]) /\ outcome[a][i] # "?" /\ outcome[b][i] # "?")
                    => outcome[a][i] = outcome[b][i]
=============================================================================
