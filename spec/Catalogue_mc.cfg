SPECIFICATION Spec
CONSTANTS
  Nodes = {1, 2}
  Datasets = {"d1"}
  NP = 1
  R = 1
  MaxLog = 3
  RestoreMode = "full"
  WireFirst = TRUE
INVARIANTS Agree SnapOK
CHECK_DEADLOCK FALSE
