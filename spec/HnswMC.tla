------------------------------- MODULE HnswMC -------------------------------
(* Model-checking wrapper: binds the rank table, adds an operation bound. *)
EXTENDS Hnsw, HnswRankDef
CONSTANT MaxOps
VARIABLE nops
MCInit == Init /\ nops = 0
MCNext == nops < MaxOps /\ Next /\ nops' = nops + 1
MCSpec == MCInit /\ [][MCNext]_<<vars, nops>>

(* Refinement: the index, seen through its vertices map, is a PartitionMap. *)
StoreOf == [i \in {j \in Ids : live[j] # Nil} |-> [pt |-> vtx[live[i]].pt, meta |-> vtx[live[i]].meta]]
LastOf == CASE last.op \in {"insert", "remove", "update"} -> [op |-> last.op, id |-> last.id, res |-> last.res]
            [] last.op \in {"binsert", "bupdate", "bremove"} -> [op |-> last.op, errs |-> last.errs]
            [] OTHER -> [op |-> last.op]
PM == INSTANCE PartitionMap WITH store <- StoreOf, mlen <- len, mbytes <- bytes, mlast <- LastOf
RefinesMap == PM!MSpec
=============================================================================
