----------------------------- MODULE ClusterTrace -----------------------------
(* Binding V for C10: one event per real write call: the entry node, the API path,
   the id (by number) and the partition that actually received it (local apply at
   the entry node, or the partition id / the scripted owner node that got the
   forwarded request).  Accepted iff routing is a total function of (id, partition
   count): a defined owner in range for every call, and the same owner for the same
   id whatever the entry node, the path or the Dataset object (restart). *)
EXTENDS Integers, Sequences, FiniteSets, TLC, Json
CONSTANT TraceFile
Trace == ndJsonDeserialize(TraceFile)
VARIABLES l, owner, viol
vars == <<l, owner, viol>>
Init == l = 1 /\ owner = [x \in {} |-> 0] /\ viol = {}
Step ==
  /\ l <= Len(Trace) /\ l' = l + 1
  /\ LET t == Trace[l] IN
     IF t.ev = "dataset" THEN owner' = [x \in {} |-> 0] /\ viol' = viol
     ELSE /\ owner' = IF t.id \in DOMAIN owner \/ t.got < 0 THEN owner ELSE [y \in DOMAIN owner \cup {t.id} |-> IF y = t.id THEN t.got ELSE owner[y]]
          /\ viol' = viol \cup (IF t.got >= 0 /\ t.got < t.np THEN {} ELSE {<<l, "NotTotal">>})
                          \cup (IF t.id \in DOMAIN owner /\ t.got >= 0 /\ owner[t.id] # t.got THEN {<<l, "OwnerDiffers">>} ELSE {})
                          \cup (IF t.dup = 0 THEN {} ELSE {<<l, "DeliveredTwice">>})
Spec == Init /\ [][Step]_vars
Report == l = Len(Trace) + 1 => PrintT(<<"VIOL", ToJson([n |-> Len(Trace), v |-> viol])>>)
=============================================================================
