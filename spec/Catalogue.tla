------------------------------ MODULE Catalogue ------------------------------
(* C14 / C16: the dataset catalogue - a deterministic state machine over the zero
   group's replicated log (the RepLog abstraction that C05 establishes).

   Log entries: Create(d, placement), Delete(d), AddNode(d, p, n), RemoveNode(d, p, n).
   Per node: the catalogue it has built by applying the log, the index it has applied,
   and whether its "datasets" consumer is wired to the zero group yet.  A node can
   take a snapshot of its catalogue at any applied index; any node may restore a
   snapshot and continue; a node may restart (volatile state lost) and recover from
   its latest snapshot plus replay.

   Switches for behaviour the code has:
     RestoreMode = "addonly"  : processSnapshot only ADDS datasets that are missing - it never removes a
                                dataset and never updates one it knows (as shipped)
                   "datasets" : it adds missing datasets and removes those that are not in the snapshot,
                                but keeps the replica sets of the datasets it already knows (the first
                                repair, 9ee66ac: a follower that was away while a node left keeps
                                listing the old replica sets - real-server scenario "lagging-replicas")
                   "full"     : the restored catalogue replaces the node's catalogue (repaired)
     WireFirst       = FALSE : the zero group's apply loop is started before the
                               catalogue consumer is registered; entries applied in
                               between are dropped (as shipped: server.go setup) *)
EXTENDS Integers, Sequences, FiniteSets, TLC

CONSTANTS Nodes, Datasets, NP, R, MaxLog, RestoreMode, WireFirst

Parts == 1..NP
RF == IF R < Cardinality(Nodes) THEN R ELSE Cardinality(Nodes)
\* C16: every partition gets min(R, N) distinct member nodes, chosen independently
Placements == [Parts -> {S \in SUBSET Nodes : Cardinality(S) = RF}]

Entries == [op : {"create"}, d : Datasets, pl : Placements] \cup [op : {"delete"}, d : Datasets]
           \cup [op : {"add", "remove"}, d : Datasets, p : Parts, n : Nodes]
Empty == [x \in {} |-> 0]
Drop(f, x) == [y \in DOMAIN f \ {x} |-> f[y]]
Put(f, x, v) == [y \in DOMAIN f \cup {x} |-> IF y = x THEN v ELSE f[y]]

\* the catalogue state machine: DatasetManager.process
StepC(c, e) ==
  CASE e.op = "create" -> IF e.d \in DOMAIN c THEN c ELSE Put(c, e.d, e.pl)
    [] e.op = "delete" -> IF e.d \in DOMAIN c THEN Drop(c, e.d) ELSE c
    [] e.op = "add"    -> IF e.d \in DOMAIN c THEN Put(c, e.d, [c[e.d] EXCEPT ![e.p] = @ \cup {e.n}]) ELSE c
    [] e.op = "remove" -> IF e.d \in DOMAIN c THEN Put(c, e.d, [c[e.d] EXCEPT ![e.p] = @ \ {e.n}]) ELSE c

VARIABLES log, cat, applied, wired, snaps
vars == <<log, cat, applied, wired, snaps>>
RECURSIVE Replay(_, _)
Replay(i, c) == IF i = 0 THEN c ELSE StepC(Replay(i - 1, c), log[i])
Ref(i) == Replay(i, Empty)

Init == /\ log = <<>> /\ cat = [n \in Nodes |-> Empty] /\ applied = [n \in Nodes |-> 0]
        /\ wired = [n \in Nodes |-> TRUE] /\ snaps = {}
Propose(e) == Len(log) < MaxLog /\ log' = Append(log, e) /\ UNCHANGED <<cat, applied, wired, snaps>>
Apply(n) == /\ applied[n] < Len(log)
            /\ applied' = [applied EXCEPT ![n] = @ + 1]
            /\ cat' = [cat EXCEPT ![n] = IF wired[n] THEN StepC(@, log[applied[n] + 1]) ELSE @]   \* no consumer: entry dropped
            /\ UNCHANGED <<log, wired, snaps>>
Snap(n) == wired[n] /\ snaps' = snaps \cup {[idx |-> applied[n], cat |-> cat[n]]} /\ UNCHANGED <<log, cat, applied, wired>>
Restore(n, s) == /\ s \in snaps /\ s.idx >= applied[n] /\ wired[n]
                 /\ cat' = [cat EXCEPT ![n] =
                      CASE RestoreMode = "full" -> s.cat
                        [] RestoreMode = "datasets" -> [d \in DOMAIN s.cat |-> IF d \in DOMAIN @ THEN @[d] ELSE s.cat[d]]
                        [] OTHER -> [d \in DOMAIN @ \cup DOMAIN s.cat |-> IF d \in DOMAIN @ THEN @[d] ELSE s.cat[d]]]
                 /\ applied' = [applied EXCEPT ![n] = s.idx]
                 /\ UNCHANGED <<log, wired, snaps>>
\* restart: volatile state is lost; the apply loop starts (from the latest local snapshot or from 0)
\* and, unless WireFirst, runs for a while before the consumer is registered
Restart(n) == /\ cat' = [cat EXCEPT ![n] = Empty] /\ applied' = [applied EXCEPT ![n] = 0]
              /\ wired' = [wired EXCEPT ![n] = WireFirst]
              /\ UNCHANGED <<log, snaps>>
Wire(n) == ~wired[n] /\ wired' = [wired EXCEPT ![n] = TRUE] /\ UNCHANGED <<log, cat, applied, snaps>>
Next == \/ \E e \in Entries : Propose(e)
        \/ \E n \in Nodes : Apply(n) \/ Snap(n) \/ Restart(n) \/ Wire(n) \/ \E s \in snaps : Restore(n, s)
Spec == Init /\ [][Next]_vars

\* C14
Agree == \A n \in Nodes : cat[n] = Ref(applied[n])          \* every node = replay of the log it applied
SnapOK == \A s \in snaps : s.cat = Ref(s.idx)
\* C16 (the create entries carry a legal placement by construction of Entries; the harness checks real ones)
PlacementOK(pl, members, r) ==
  LET k == IF r < Cardinality(members) THEN r ELSE Cardinality(members)
  IN \A p \in DOMAIN pl : pl[p] \subseteq members /\ Cardinality(pl[p]) = k
=============================================================================
