-------------------------------- MODULE Hnsw --------------------------------
(* Exact sequential model of index/hnsw.go + index/hnsw_persistence.go, as driven
   by storage/partition.go (C01 C02 C04 C07 C08).

   Exact on instances on which the search beam never truncates (fewer vertex
   objects than ef and efConstruction) and whose distance table is tie-free:
   there the Go code is deterministic and this module computes the same graph.

   Vertex OBJECTS are handles 1..MaxVtx allocated in insertion order; a removed
   object stays in the table as a tombstone (del = TRUE) and may stay linked from
   live objects ("dangling link"); re-inserting an id allocates a new object.
   Distances enter only through the constant table Rank (dense ranks of the real
   float32 distances computed by the harness with the real kernels), so the model
   is metric-agnostic and compares exactly what the code compares.

   Named switches for behaviour the code had before it was repaired:
     HandOverFilter = FALSE : Remove hands the entry point over to the closest
                              out-neighbour even if it is a tombstone, and to
                              nil if the entry point has no out-neighbour.
     HandOverFilter = TRUE  : tombstones are skipped; if no live out-neighbour
                              exists the highest-level live vertex (smallest id
                              on ties) becomes the entry point. *)
EXTENDS Integers, Sequences, FiniteSets, TLC

CONSTANTS Ids,            \* item ids, a set of naturals (their order = byte order of the UUIDs used)
          Points,         \* abstract points 1..NP
          Rank,           \* Rank[p][q] : dense rank of distance(p, q)
          MaxLevel, M, MMax, MMax0,
          MaxVtx,         \* bound on vertex objects ever created
          Ks,             \* the k values probed by the search invariants
          Keys, Vals,     \* metadata: functions Keys -> Vals \cup {0}, 0 = key absent
          Dim, KVBytes,   \* vector dimension, bytes accounted per present metadata key (len(k)+len(v))
          MaxBatch,       \* longest batch change (0 = no batch actions)
          HandOverFilter

Nil    == 0
H      == 1..MaxVtx
Levels == 0..MaxLevel
Metas  == [Keys -> Vals \cup {0}]
NoMeta == [k \in Keys |-> 0]
MMaxAt(l) == IF l = 0 THEN MMax0 ELSE MMax
D(p, q) == Rank[p][q]
Min(a, b) == IF a < b THEN a ELSE b
Merge(new, old) == [k \in Keys |-> IF new[k] # 0 THEN new[k] ELSE old[k]]   \* new keys win, old keys kept
ItemBytes(m) == 16 + 4 * Dim + KVBytes * Cardinality({k \in Keys : m[k] # 0})

VARIABLES vtx,    \* [H -> [id, pt, lvl, meta, del, used]]
          nv,     \* number of objects allocated
          edges,  \* [H -> [Levels -> SUBSET H]]   directed links
          live,   \* [Ids -> H \cup {Nil}]          the vertices map
          ep,     \* entry point object or Nil
          len,    \* the item counter
          bytes,  \* the data-bytes counter
          last    \* last operation and its outcome(s)
vars == <<vtx, nv, edges, live, ep, len, bytes, last>>
St == [vtx |-> vtx, nv |-> nv, edges |-> edges, live |-> live, ep |-> ep, len |-> len, bytes |-> bytes]

NoEdges == [l \in Levels |-> {}]
Blank   == [id |-> 0, pt |-> 0, lvl |-> 0, meta |-> NoMeta, del |-> TRUE, used |-> FALSE]
S0 == [vtx |-> [h \in H |-> Blank], nv |-> 0, edges |-> [h \in H |-> NoEdges],
       live |-> [i \in Ids |-> Nil], ep |-> Nil, len |-> 0, bytes |-> 0]

-----------------------------------------------------------------------------
(* Pure graph operators, parameterised by vertex table V and link table E. *)
Closest(V, S, p) == CHOOSE n \in S : \A o \in S : D(p, V[n].pt) <= D(p, V[o].pt)
TopK(V, S, p, k) == {w \in S : Cardinality({u \in S : D(p, V[u].pt) < D(p, V[w].pt)}) < k}
\* pruneNeighbors: tombstones are dropped, the k closest (by the owner's point) stay
Prune(V, h, S, k) == TopK(V, {n \in S : ~V[n].del}, V[h].pt, k)

RECURSIVE Reach(_, _, _, _, _)
\* searchLevel when the beam never truncates: closure over links to non-deleted objects;
\* the start vertex itself is not filtered (as in the code)
Reach(V, E, frontier, seen, l) ==
  LET new == (UNION {{n \in E[c][l] : ~V[n].del} : c \in frontier}) \ seen
  IN IF new = {} THEN seen ELSE Reach(V, E, new, seen \cup new, l)

RECURSIVE Greedy(_, _, _, _, _)
Greedy(V, E, p, cur, l) ==                            \* greedyClosestNeighbor
  LET N == {n \in E[cur][l] : ~V[n].del /\ D(p, V[n].pt) < D(p, V[cur].pt)}
  IN IF N = {} THEN cur ELSE Greedy(V, E, p, Closest(V, N, p), l)

RECURSIVE Descend(_, _, _, _, _, _)
Descend(V, E, p, cur, from, to) ==                    \* levels from .. to+1
  IF from <= to THEN cur ELSE Descend(V, E, p, Greedy(V, E, p, cur, from), from - 1, to)

RECURSIVE Link(_, _, _, _, _)
Link(V, E, v, cur, l) ==                              \* the per-level loop of Insert
  IF l < 0 THEN E ELSE
  LET p   == V[v].pt
      W   == Reach(V, E, {cur}, {cur}, l)
      sel == TopK(V, W, p, M)
      mm  == MMaxAt(l)
      E2  == [h \in H |->
               IF h = v THEN [E[h] EXCEPT ![l] = sel]
               ELSE IF h \in sel
                    THEN [E[h] EXCEPT ![l] = LET S == E[h][l] \cup {v}
                                             IN IF Cardinality(S) > mm THEN Prune(V, h, S, mm) ELSE S]
                    ELSE E[h]]
  IN Link(V, E2, v, Closest(V, sel, p), l - 1)

-----------------------------------------------------------------------------
(* Index operations as functions state -> [s: state, res: outcome]. *)
DoInsert(S, id, p, lvl0, m) ==
  IF S.live[id] # Nil THEN [s |-> S, res |-> "exists"]
  ELSE LET h   == S.nv + 1
           lvl == IF S.ep = Nil THEN 0 ELSE lvl0           \* the first vertex is always created at level 0
           V   == [S.vtx EXCEPT ![h] = [id |-> id, pt |-> p, lvl |-> lvl, meta |-> m, del |-> FALSE, used |-> TRUE]]
           B   == [S EXCEPT !.vtx = V, !.nv = h, !.live[id] = h, !.len = S.len + 1, !.bytes = S.bytes + ItemBytes(m)]
       IN IF S.ep = Nil
          THEN [s |-> [B EXCEPT !.ep = h], res |-> "ok"]
          ELSE LET top == V[S.ep].lvl
                   cur == Descend(V, S.edges, p, S.ep, top, lvl)
               IN [s |-> [B EXCEPT !.edges = Link(V, S.edges, h, cur, Min(top, lvl)),
                                   !.ep = IF lvl > top THEN h ELSE S.ep],
                   res |-> "ok"]

HandOver(V, E, L, h) ==
  LET cand(l) == IF HandOverFilter THEN {n \in E[h][l] : ~V[n].del} ELSE E[h][l]
      ls      == {l \in 0..V[h].lvl : cand(l) # {}}
  IN IF ls # {}
     THEN LET l == CHOOSE x \in ls : \A y \in ls : y <= x IN Closest(V, cand(l), V[h].pt)
     ELSE IF ~HandOverFilter THEN Nil
     ELSE LET lv == {L[i] : i \in Ids} \ {Nil}
          IN IF lv = {} THEN Nil
             ELSE LET mx == CHOOSE x \in lv : \A y \in lv : V[y].lvl <= V[x].lvl
                      c  == {x \in lv : V[x].lvl = V[mx].lvl}
                  IN CHOOSE x \in c : \A y \in c : V[x].id <= V[y].id

DoRemove(S, id) ==
  IF S.live[id] = Nil THEN [s |-> S, res |-> "notfound"]
  ELSE LET h == S.live[id]
           V == [S.vtx EXCEPT ![h].del = TRUE]
           L == [S.live EXCEPT ![id] = Nil]
           E == [n \in H |-> [l \in Levels |->
                   IF l <= S.vtx[h].lvl /\ n \in S.edges[h][l]
                   THEN Prune(V, n, S.edges[n][l] \ {h}, MMaxAt(l))
                   ELSE S.edges[n][l]]]
       IN [s |-> [S EXCEPT !.vtx = V, !.live = L, !.len = S.len - 1,
                           !.bytes = S.bytes - ItemBytes(S.vtx[h].meta),
                           !.ep = IF S.ep = h THEN HandOver(V, S.edges, L, h) ELSE S.ep,
                           !.edges = E],
           res |-> "ok"]

\* partition.updateValue: look up, remove, merge metadata, insert at the old level
DoUpdate(S, id, p, m) ==
  IF S.live[id] = Nil THEN [s |-> S, res |-> "notfound"]
  ELSE LET old == S.vtx[S.live[id]]
       IN DoInsert(DoRemove(S, id).s, id, p, old.lvl, Merge(m, old.meta))

\* Save + Load (fresh or used target): tombstones and links to them disappear
DoSaveLoad(S) ==
  LET lv == {S.live[i] : i \in Ids} \ {Nil}
  IN [S EXCEPT !.edges = [h \in H |-> [l \in Levels |-> IF h \in lv THEN S.edges[h][l] \cap lv ELSE {}]]]

\* Search(q, k): the set of returned objects (order = by rank, tie-free)
SearchIn(S, q, k) ==
  IF S.ep = Nil THEN {}
  ELSE LET cur == Descend(S.vtx, S.edges, q, S.ep, S.vtx[S.ep].lvl, 0)
           W   == Reach(S.vtx, S.edges, {cur}, {cur}, 0)
       IN TopK(S.vtx, W, q, k)
SearchSet(q, k) == SearchIn(St, q, k)

\* partition.batch{Insert,Update,Delete}Value: a left fold; errs maps id -> outcome of the
\* LAST failing item with that id (the Go map assignment overwrites)
RECURSIVE FoldBatch(_, _, _, _)
FoldBatch(S, kind, items, errs) ==
  IF items = <<>> THEN [s |-> S, errs |-> errs]
  ELSE LET it == Head(items)
           r  == CASE kind = "binsert" -> DoInsert(S, it.id, it.pt, it.lvl, it.meta)
                   [] kind = "bupdate" -> DoUpdate(S, it.id, it.pt, it.meta)
                   [] kind = "bremove" -> DoRemove(S, it.id)
       IN FoldBatch(r.s, kind, Tail(items), IF r.res = "ok" THEN errs ELSE (it.id :> r.res) @@ errs)

-----------------------------------------------------------------------------
Set(S) == /\ vtx' = S.vtx /\ nv' = S.nv /\ edges' = S.edges /\ live' = S.live
          /\ ep' = S.ep /\ len' = S.len /\ bytes' = S.bytes

Init == /\ vtx = S0.vtx /\ nv = 0 /\ edges = S0.edges /\ live = S0.live /\ ep = Nil /\ len = 0 /\ bytes = 0
        /\ last = [op |-> "init"]

FreshPoint(p) == \A h \in 1..nv : vtx[h].pt # p      \* tie-free universes: one object per point
CanAlloc == nv < MaxVtx

Insert(id, p, l, m) ==
  /\ CanAlloc /\ FreshPoint(p)
  /\ LET r == DoInsert(St, id, p, l, m)
     IN Set(r.s) /\ last' = [op |-> "insert", id |-> id, pt |-> p, lvl |-> l, meta |-> m, res |-> r.res]

Remove(id) ==
  LET r == DoRemove(St, id)
  IN Set(r.s) /\ last' = [op |-> "remove", id |-> id, res |-> r.res]

Update(id, p, m) ==
  /\ CanAlloc /\ FreshPoint(p)
  /\ LET r == DoUpdate(St, id, p, m)
     IN Set(r.s) /\ last' = [op |-> "update", id |-> id, pt |-> p, meta |-> m, res |-> r.res]

SaveLoad ==
  /\ \E h \in 1..nv : vtx[h].del          \* otherwise the identity
  /\ Set(DoSaveLoad(St)) /\ last' = [op |-> "saveload"]

BatchItem == [id : Ids, pt : Points, lvl : Levels, meta : Metas]
BatchSeqs == UNION {[1..n -> BatchItem] : n \in 1..MaxBatch}
Batch(kind, items) ==
  /\ IF kind = "bremove"
     THEN \A i \in 1..Len(items) : items[i].pt = (CHOOSE p \in Points : TRUE) /\ items[i].lvl = 0 /\ items[i].meta = NoMeta
     ELSE /\ nv + Len(items) <= MaxVtx
          /\ \A i \in 1..Len(items) : FreshPoint(items[i].pt) /\ \A j \in 1..Len(items) : i # j => items[i].pt # items[j].pt
          /\ (kind = "bupdate" => \A i \in 1..Len(items) : items[i].lvl = 0)
  /\ LET r == FoldBatch(St, kind, items, <<>>)
     IN Set(r.s) /\ last' = [op |-> kind, items |-> items, errs |-> r.errs]

Next == \/ \E id \in Ids, p \in Points, l \in Levels, m \in Metas : Insert(id, p, l, m)
        \/ \E id \in Ids : Remove(id)
        \/ \E id \in Ids, p \in Points, m \in Metas : Update(id, p, m)
        \/ SaveLoad
        \/ \E kind \in {"binsert", "bupdate", "bremove"}, items \in BatchSeqs : Batch(kind, items)

Spec == Init /\ [][Next]_vars

-----------------------------------------------------------------------------
(* Properties. *)
LiveSet == {live[i] : i \in Ids} \ {Nil}

\* C02: counters
LenOK   == len = Cardinality(LiveSet)
RECURSIVE SumBytes(_)
SumBytes(S) == IF S = {} THEN 0 ELSE LET x == CHOOSE y \in S : TRUE IN ItemBytes(vtx[x].meta) + SumBytes(S \ {x})
BytesOK == bytes = SumBytes(LiveSet)
MapOK   == \A i \in Ids : live[i] # Nil => (vtx[live[i]].id = i /\ ~vtx[live[i]].del /\ vtx[live[i]].used)

\* C01: structural invariant behind "never an empty answer, never a removed item"
EpLive == LiveSet # {} => (ep # Nil /\ ~vtx[ep].del)
EpNilOnlyWhenEmpty == (LiveSet = {}) => (ep = Nil \/ vtx[ep].del)
\* C01: every search result, for every query point and k
SearchSound ==
  \A q \in Points, k \in Ks :
    LET r == SearchSet(q, k)
    IN /\ r \subseteq LiveSet                                  \* only live items (hence current vector + metadata)
       /\ Cardinality(r) <= k                                  \* at most k
       /\ \A a, b \in r : a # b => vtx[a].id # vtx[b].id       \* no id twice
       /\ (LiveSet # {} /\ k >= 1 => r # {})                   \* never empty on a non-empty collection
\* links never exceed their budget, never point to self
Budget == \A h \in LiveSet : \A l \in Levels : Cardinality(edges[h][l]) <= MMaxAt(l) + 0 /\ h \notin edges[h][l]

\* C07 clause 1: insert-only, small => exact k nearest
InsertOnly == \A h \in 1..nv : ~vtx[h].del
SmallExact ==
  (InsertOnly /\ nv <= Min(2 * M, MMax0) + 1) =>
     \A q \in Points, k \in Ks : SearchSet(q, k) = TopK(vtx, LiveSet, q, k)

\* C08: a snapshot taken now and loaded answers every probe exactly as the index does,
\* holds the same items, and (when the entry point is live) the same entry point
RoundTrip ==
  LET T == DoSaveLoad(St)
  IN /\ T.live = live /\ T.ep = ep /\ T.len = len
     /\ \A h \in LiveSet : \A l \in Levels : T.edges[h][l] = edges[h][l] \cap LiveSet
     /\ (EpLive => \A q \in Points, k \in Ks : SearchIn(T, q, k) = SearchSet(q, k))

View == <<vtx, nv, edges, live, ep, len, bytes>>
=============================================================================
