---------------------------- MODULE ReplicaLoad ----------------------------
(* C14 ("its partitions stop serving") / C18: who loads and stops the raft group of ONE partition on ONE node -
   storage/allocator.go (run: watch / unwatch updates), storage/partition.go (loadRaft, unloadRaft, addNode, removeNode),
   storage/dataset_manager.go (createDataset, deleteDataset, updatePartitionNodes).

   The zero group's apply goroutine (A) applies catalogue entries in order:
     create(withSelf)  the partition appears, its replica set contains this node or not; Allocator.watch hands the
                       partition to the allocator loop over the UNBUFFERED updates channel (a rendezvous)
     addSelf           partition.addNode(self): the replica set grows and the group is loaded (loadRaft(nil))
     removeSelf        partition.removeNode(self): the replica set shrinks and the group is unloaded
     delete            Allocator.unwatch hands the partition to the loop again
   The allocator loop (L) receives an update and only THEN reads the partition's replica set (isPartitionAssignedToNode):
   for a watch it loads the group if this node is in the set, for an unwatch it unloads it.  Between the rendezvous and
   the read A goes on applying entries.

   partition.raft holds at most one group; loadRaft as shipped (LoadOnce = FALSE) overwrites it: the group it pointed
   to keeps running and is never stopped.  LoadOnce = TRUE: loadRaft returns when a group is loaded (repair ea3f18f). *)
EXTENDS Integers, Sequences, TLC
CONSTANTS MaxEntries, LoadOnce
VARIABLES exists,   \* the partition's dataset is in the catalogue
          member,   \* this node is in the partition's replica set
          ptr,      \* partition.raft # nil
          groups,   \* raft groups of the partition whose ready loop runs on this node
          lpc,      \* allocator loop: "idle" | "watch" | "unwatch" (an update received, replica set not read yet)
          applied   \* number of entries applied
vars == <<exists, member, ptr, groups, lpc, applied>>

Init == exists = FALSE /\ member = FALSE /\ ptr = FALSE /\ groups = 0 /\ lpc = "idle" /\ applied = 0

\* loadRaft / unloadRaft on the partition object
Load   == IF LoadOnce /\ ptr THEN UNCHANGED <<ptr, groups>> ELSE ptr' = TRUE /\ groups' = groups + 1
Unload == IF ptr THEN ptr' = FALSE /\ groups' = groups - 1 ELSE UNCHANGED <<ptr, groups>>   \* RaftNotLoadedOnNodeErr otherwise

More == applied < MaxEntries /\ applied' = applied + 1
ACreate(withSelf) == /\ More /\ ~exists /\ lpc = "idle"          \* the send in watch completes when the loop receives
                     /\ exists' = TRUE /\ member' = withSelf /\ lpc' = "watch" /\ UNCHANGED <<ptr, groups>>
AAddSelf    == More /\ exists /\ ~member /\ member' = TRUE /\ Load /\ UNCHANGED <<exists, lpc>>
ARemoveSelf == More /\ exists /\ member /\ member' = FALSE /\ Unload /\ UNCHANGED <<exists, lpc>>
ADelete     == /\ More /\ exists /\ lpc = "idle"
               /\ exists' = FALSE /\ lpc' = "unwatch" /\ UNCHANGED <<member, ptr, groups>>
\* the loop reads the replica set NOW
LWatch   == lpc = "watch" /\ lpc' = "idle" /\ (IF member THEN Load ELSE UNCHANGED <<ptr, groups>>) /\ UNCHANGED <<exists, member, applied>>
LUnwatch == lpc = "unwatch" /\ lpc' = "idle" /\ (IF member THEN Unload ELSE UNCHANGED <<ptr, groups>>) /\ UNCHANGED <<exists, member, applied>>

Next == (\E w \in BOOLEAN : ACreate(w)) \/ AAddSelf \/ ARemoveSelf \/ ADelete \/ LWatch \/ LUnwatch
Spec == Init /\ [][Next]_vars

AtMostOneGroup == groups <= 1
Quiescent == lpc = "idle"
\* what runs is what the catalogue says: a group iff the dataset exists and this node is a replica
GroupsFollowCatalogue == Quiescent => groups = (IF exists /\ member THEN 1 ELSE 0)
=============================================================================
