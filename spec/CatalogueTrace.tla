---------------------------- MODULE CatalogueTrace ----------------------------
(* Binding V for C16: placements drawn by the real allocator.
   place : one call of the placement function for N members, replication factor R, P partitions;
           accepted iff it is an element of Catalogue!Placements for those parameters
           (every partition: min(R, N) distinct nodes, all of them members).
   indep : over `draws` calls with R < N and P >= 2, were ALL placements confined to the diagonal
           (every partition on the same node set)?  Under Catalogue's independent choice the
           probability of that is at most 2^-draws, so alldiag = 1 is rejected. *)
EXTENDS Integers, Sequences, FiniteSets, TLC, Json
CONSTANT TraceFile
Trace == ndJsonDeserialize(TraceFile)
VARIABLES l, viol
vars == <<l, viol>>
SetOf(s) == {s[i] : i \in 1..Len(s)}
Min(a, b) == IF a < b THEN a ELSE b
PlaceViol(t) ==
  LET k == Min(t.r, t.n) IN
  IF t.panic # "" THEN {<<l, "PlacementPanic">>}
  ELSE IF /\ Len(t.pl) = t.p
          /\ \A i \in 1..Len(t.pl) : /\ Len(t.pl[i]) = k
                                     /\ Cardinality(SetOf(t.pl[i])) = k
                                     /\ SetOf(t.pl[i]) \subseteq SetOf(t.members)
       THEN {} ELSE {<<l, "PlacementInvalid">>}
IndepViol(t) == IF t.r < t.n /\ t.p >= 2 /\ t.alldiag = 1 THEN {<<l, "NotIndependent">>} ELSE {}
Init == l = 1 /\ viol = {}
Step == /\ l <= Len(Trace) /\ l' = l + 1
        /\ LET t == Trace[l] IN viol' = viol \cup (IF t.ev = "place" THEN PlaceViol(t) ELSE IndepViol(t))
Spec == Init /\ [][Step]_vars
Report == l = Len(Trace) + 1 => PrintT(<<"VIOL", ToJson([n |-> Len(Trace), v |-> viol])>>)
=============================================================================
