--------------------------- MODULE RaftHostPhases ---------------------------
(* The UNREDUCED transition relation of RaftHost (one action per host phase), without snapshots:
   kept as the reference the atomic-cycle reduction of RaftHost.tla was derived from (3 nodes: > 300 M
   states, not used by any check).

   C05 / C03: what anndb adds around etcd/raft - storage/raft/group.go run():

     take Ready -> (leader) send -> wal.Save -> apply committed -> (follower) send -> Advance

   on top of an abstract etcd-style raft library (Ongaro-style elections / append /
   commit with etcd's Ready batching: volatile state + a staged outbox), durable
   variables written only by Save, Crash at every boundary of the ready cycle and
   Restart from the durable variables.  The library itself is trusted; its USE is
   what is specified.  Named switches for behaviour the code had or could have:
     RestartMode = "start"    : a restarted node calls StartNode on its existing log (as shipped)
                 = "restart"  : RestartNode (repaired)
     SendPolicy  = "leaderFirst" : only the leader sends before wal.Save (the code)
                 = "allFirst"    : everybody sends first (a mutation that breaks Attested)
   History variables: appliedAt (what was applied at each index, by anyone), leaders,
   bad (the set of observed contract breaches; NoBad == bad = {}).
   Two transition relations: Next (one action per host phase) and NextR (one atomic
   host cycle parameterised by the crash point inside it - a sound reduction because
   other nodes observe a cycle only through the messages it emits), see DESIGN.md. *)
EXTENDS Integers, Sequences, FiniteSets, TLC

CONSTANTS Node, None, Values, MaxTerm, MaxLog, MaxCrash, MaxNet,
          RestartMode,   \* "restart" (RestartNode) or "start" (StartNode on existing log)
          SendPolicy     \* "leaderFirst" (code) or "allFirst" (mutation)

Boot == "boot"

VARIABLES
  \* library volatile
  term, vote, role, lead, log, commit, stable, appliedLib, votes, match, outbox,
  \* host volatile
  phase, rd, leadFlag, sm,
  \* durable
  dTerm, dVote, dCommit, dLog,
  \* environment
  up, net, crashes, proposed,
  \* history
  appliedAt, leaders, bad

lib == <<term, vote, role, lead, log, commit, stable, appliedLib, votes, match, outbox>>
host == <<phase, rd, leadFlag, sm>>
dur == <<dTerm, dVote, dCommit, dLog>>
env == <<up, net, crashes, proposed>>
histv == <<appliedAt, leaders, bad>>
vars == <<lib, host, dur, env, histv>>

Quorum == {Q \in SUBSET Node : 2 * Cardinality(Q) > Cardinality(Node)}
LastTerm(l) == IF Len(l) = 0 THEN 0 ELSE l[Len(l)].term
Min(a, b) == IF a < b THEN a ELSE b
Max(a, b) == IF a > b THEN a ELSE b

NoRd == [hs |-> [term |-> 0, vote |-> None, commit |-> 0], from |-> 0, ents |-> <<>>, cfrom |-> 0, cto |-> 0, msgs |-> {}]

Init ==
  /\ term = [n \in Node |-> 1] /\ vote = [n \in Node |-> None] /\ role = [n \in Node |-> "F"]
  /\ lead = [n \in Node |-> None]
  /\ log = [n \in Node |-> <<[term |-> 1, val |-> Boot]>>]
  /\ commit = [n \in Node |-> 1] /\ stable = [n \in Node |-> 1] /\ appliedLib = [n \in Node |-> 1]
  /\ votes = [n \in Node |-> {}] /\ match = [n \in Node |-> [m \in Node |-> 0]]
  /\ outbox = [n \in Node |-> {}]
  /\ phase = [n \in Node |-> "idle"] /\ rd = [n \in Node |-> NoRd]
  /\ leadFlag = [n \in Node |-> FALSE] /\ sm = [n \in Node |-> <<Boot>>]
  /\ dTerm = [n \in Node |-> 1] /\ dVote = [n \in Node |-> None] /\ dCommit = [n \in Node |-> 1]
  /\ dLog = [n \in Node |-> <<[term |-> 1, val |-> Boot]>>]
  /\ up = [n \in Node |-> TRUE] /\ net = {} /\ crashes = 0 /\ proposed = {}
  /\ appliedAt = <<[term |-> 1, val |-> Boot]>> /\ leaders = {} /\ bad = {}

Idle(n) == up[n] /\ phase[n] = "idle"

\* ---------------- library steps (only while host idle: one input per Ready) -------------
BecomeLeader(n) ==
  /\ role' = [role EXCEPT ![n] = "L"]
  /\ lead' = [lead EXCEPT ![n] = n]
  /\ log' = [log EXCEPT ![n] = Append(@, [term |-> term[n], val |-> "noop"])]
  /\ match' = [match EXCEPT ![n] = [m \in Node |-> IF m = n THEN Len(log[n]) + 1 ELSE 0]]
  /\ leaders' = leaders \cup {<<term[n], n>>}

AppMsg(n, m, L, c) ==  \* append entries carrying everything after match (simplified probe)
  LET prev == match[n][m]
  IN [type |-> "app", from |-> n, to |-> m, term |-> term[n], prev |-> prev,
      prevTerm |-> IF prev = 0 THEN 0 ELSE L[prev].term,
      ents |-> SubSeq(L, prev + 1, Len(L)), commit |-> c]

Timeout(n) ==
  /\ Idle(n) /\ role[n] # "L" /\ term[n] < MaxTerm
  /\ term' = [term EXCEPT ![n] = @ + 1]
  /\ vote' = [vote EXCEPT ![n] = n]
  /\ votes' = [votes EXCEPT ![n] = {n}]
  /\ IF Cardinality(Node) = 1
     THEN /\ role' = [role EXCEPT ![n] = "L"] /\ lead' = [lead EXCEPT ![n] = n]
          /\ log' = [log EXCEPT ![n] = Append(@, [term |-> term[n] + 1, val |-> "noop"])]
          /\ match' = [match EXCEPT ![n] = [m \in Node |-> Len(log[n]) + 1]]
          /\ commit' = [commit EXCEPT ![n] = Len(log[n]) + 1]
          /\ leaders' = leaders \cup {<<term[n] + 1, n>>}
          /\ UNCHANGED outbox
     ELSE /\ role' = [role EXCEPT ![n] = "C"] /\ lead' = [lead EXCEPT ![n] = None]
          /\ outbox' = [outbox EXCEPT ![n] = @ \cup
                {[type |-> "vote", from |-> n, to |-> m, term |-> term[n] + 1,
                  lastIdx |-> Len(log[n]), lastTerm |-> LastTerm(log[n])] : m \in Node \ {n}}]
          /\ UNCHANGED <<log, match, commit, leaders>>
  /\ UNCHANGED <<stable, appliedLib, host, dur, env, appliedAt, bad>>

StepDown(n, t) ==  \* helper: values after observing higher term t
  [tm |-> IF t > term[n] THEN t ELSE term[n],
   vt |-> IF t > term[n] THEN None ELSE vote[n],
   rl |-> IF t > term[n] THEN "F" ELSE role[n],
   ld |-> IF t > term[n] THEN None ELSE lead[n]]

Recv(n, m) ==
  /\ Idle(n) /\ m \in net /\ m.to = n
  /\ LET s == StepDown(n, m.term) IN
     CASE m.type = "vote" ->
            LET upToDate == \/ m.lastTerm > LastTerm(log[n])
                            \/ /\ m.lastTerm = LastTerm(log[n]) /\ m.lastIdx >= Len(log[n])
                grant == m.term >= s.tm /\ s.vt \in {None, m.from} /\ upToDate /\ m.term = s.tm
            IN /\ term' = [term EXCEPT ![n] = s.tm]
               /\ vote' = [vote EXCEPT ![n] = IF grant THEN m.from ELSE s.vt]
               /\ role' = [role EXCEPT ![n] = s.rl] /\ lead' = [lead EXCEPT ![n] = s.ld]
               /\ outbox' = [outbox EXCEPT ![n] = @ \cup
                     {[type |-> "voteResp", from |-> n, to |-> m.from, term |-> s.tm, granted |-> grant]}]
               /\ UNCHANGED <<log, commit, votes, match, leaders, bad>>
       [] m.type = "voteResp" ->
            IF m.term = term[n] /\ role[n] = "C" /\ m.granted
            THEN LET vs == votes[n] \cup {m.from} IN
                 /\ votes' = [votes EXCEPT ![n] = vs]
                 /\ IF vs \in Quorum
                    THEN /\ BecomeLeader(n)
                         /\ outbox' = [outbox EXCEPT ![n] = @ \cup
                               {AppMsg(n, p, Append(log[n], [term |-> term[n], val |-> "noop"]), commit[n]) : p \in Node \ {n}}]
                    ELSE UNCHANGED <<role, lead, log, match, leaders, outbox>>
                 /\ UNCHANGED <<term, vote, commit, bad>>
            ELSE /\ term' = [term EXCEPT ![n] = s.tm] /\ vote' = [vote EXCEPT ![n] = s.vt]
                 /\ role' = [role EXCEPT ![n] = s.rl] /\ lead' = [lead EXCEPT ![n] = s.ld]
                 /\ UNCHANGED <<log, commit, votes, match, leaders, outbox, bad>>
       [] m.type = "app" ->
            IF m.term < term[n]
            THEN /\ outbox' = [outbox EXCEPT ![n] = @ \cup
                       {[type |-> "appResp", from |-> n, to |-> m.from, term |-> term[n], ok |-> FALSE, idx |-> 0]}]
                 /\ UNCHANGED <<term, vote, role, lead, log, commit, votes, match, leaders, bad>>
            ELSE LET okPrev == m.prev = 0 \/ (m.prev <= Len(log[n]) /\ log[n][m.prev].term = m.prevTerm)
                     \* first conflicting index
                     confl == {i \in 1..Len(m.ents) : m.prev + i <= Len(log[n]) /\ log[n][m.prev + i].term # m.ents[i].term}
                     newLog == IF confl = {} THEN
                                  IF m.prev + Len(m.ents) > Len(log[n])
                                  THEN SubSeq(log[n], 1, m.prev) \o m.ents ELSE log[n]
                               ELSE SubSeq(log[n], 1, m.prev) \o m.ents
                     panic == confl # {} /\ (m.prev + (CHOOSE i \in confl : \A j \in confl : i <= j)) <= commit[n]
                 IN /\ term' = [term EXCEPT ![n] = m.term]
                    /\ vote' = [vote EXCEPT ![n] = s.vt]
                    /\ role' = [role EXCEPT ![n] = "F"] /\ lead' = [lead EXCEPT ![n] = m.from]
                    /\ IF okPrev
                       THEN /\ log' = [log EXCEPT ![n] = newLog]
                            /\ commit' = [commit EXCEPT ![n] = Max(@, Min(m.commit, m.prev + Len(m.ents)))]
                            /\ bad' = IF panic THEN bad \cup {<<"panic-conflict-committed", n>>} ELSE bad
                            /\ outbox' = [outbox EXCEPT ![n] = @ \cup
                                 {[type |-> "appResp", from |-> n, to |-> m.from, term |-> m.term, ok |-> TRUE, idx |-> m.prev + Len(m.ents)]}]
                       ELSE /\ outbox' = [outbox EXCEPT ![n] = @ \cup
                                 {[type |-> "appResp", from |-> n, to |-> m.from, term |-> m.term, ok |-> FALSE, idx |-> 0]}]
                            /\ UNCHANGED <<log, commit, bad>>
                    /\ UNCHANGED <<votes, match, leaders>>
       [] m.type = "appResp" ->
            IF m.term = term[n] /\ role[n] = "L" /\ m.ok
            THEN LET mt == [match[n] EXCEPT ![m.from] = Max(@, m.idx)]
                     cands == {i \in (commit[n] + 1)..Len(log[n]) :
                                 log[n][i].term = term[n] /\ {p \in Node : mt[p] >= i} \in Quorum}
                     c == IF cands = {} THEN commit[n] ELSE CHOOSE i \in cands : \A j \in cands : j <= i
                 IN /\ match' = [match EXCEPT ![n] = mt]
                    /\ commit' = [commit EXCEPT ![n] = c]
                    /\ UNCHANGED <<term, vote, role, lead, log, votes, leaders, outbox, bad>>
            ELSE /\ term' = [term EXCEPT ![n] = s.tm] /\ vote' = [vote EXCEPT ![n] = s.vt]
                 /\ role' = [role EXCEPT ![n] = s.rl] /\ lead' = [lead EXCEPT ![n] = s.ld]
                 /\ UNCHANGED <<log, commit, votes, match, leaders, outbox, bad>>
  /\ net' = net \ {m}
  /\ UNCHANGED <<stable, appliedLib, host, dur, up, crashes, proposed, appliedAt>>

Propose(n, v) ==
  /\ Idle(n) /\ role[n] = "L" /\ v \notin proposed /\ Len(log[n]) < MaxLog
  /\ proposed' = proposed \cup {v}
  /\ log' = [log EXCEPT ![n] = Append(@, [term |-> term[n], val |-> v])]
  /\ match' = [match EXCEPT ![n][n] = Len(log[n]) + 1]
  /\ commit' = [commit EXCEPT ![n] = IF Cardinality(Node) = 1 THEN Len(log[n]) + 1 ELSE @]
  /\ outbox' = [outbox EXCEPT ![n] = @ \cup
        {AppMsg(n, p, Append(log[n], [term |-> term[n], val |-> v]), commit[n]) : p \in Node \ {n}}]
  /\ UNCHANGED <<term, vote, role, lead, stable, appliedLib, votes, host, dur, up, net, crashes, histv>>

LeaderBcast(n) ==   \* heartbeat-ish: resend append with current commit
  /\ Idle(n) /\ role[n] = "L" /\ outbox[n] = {}
  /\ \E p \in Node \ {n} :
        /\ (match[n][p] < Len(log[n]) \/ commit[n] > 1)
        /\ outbox' = [outbox EXCEPT ![n] = {AppMsg(n, p, log[n], commit[n])}]
  /\ UNCHANGED <<term, vote, role, lead, log, commit, stable, appliedLib, votes, match, host, dur, env, histv>>

\* ---------------- host ready loop (storage/raft/group.go run()) ----------------
HasUpdates(n) ==
  \/ outbox[n] # {} \/ stable[n] < Len(log[n]) \/ appliedLib[n] < commit[n]
  \/ <<term[n], vote[n], commit[n]>> # <<dTerm[n], dVote[n], dCommit[n]>>
  \/ leadFlag[n] # (lead[n] = n)

TakeReady(n) ==
  /\ Idle(n) /\ HasUpdates(n)
  /\ rd' = [rd EXCEPT ![n] = [hs |-> [term |-> term[n], vote |-> vote[n], commit |-> commit[n]],
                              from |-> stable[n] + 1,
                              ents |-> SubSeq(log[n], stable[n] + 1, Len(log[n])),
                              cfrom |-> appliedLib[n] + 1, cto |-> commit[n],
                              msgs |-> outbox[n]]]
  /\ outbox' = [outbox EXCEPT ![n] = {}]
  /\ leadFlag' = [leadFlag EXCEPT ![n] = (lead[n] = n)]
  /\ phase' = [phase EXCEPT ![n] = "ready"]
  /\ UNCHANGED <<term, vote, role, lead, log, commit, stable, appliedLib, votes, match, sm, dur, env, histv>>

Attested(n, m) ==   \* durable state covers what the message promises
  CASE m.type = "voteResp" /\ m.granted -> dTerm[n] >= m.term /\ (dTerm[n] = m.term => dVote[n] = m.to)
    [] m.type = "vote" -> dTerm[n] >= m.term /\ (dTerm[n] = m.term => dVote[n] = n)
    [] m.type = "appResp" /\ m.ok -> dTerm[n] >= m.term /\ (dTerm[n] = m.term => Len(dLog[n]) >= m.idx)
    [] OTHER -> TRUE

SendBefore(n) ==
  /\ up[n] /\ phase[n] = "ready"
  /\ IF leadFlag[n] \/ SendPolicy = "allFirst"
     THEN /\ net' = net \cup rd[n].msgs
          /\ bad' = bad \cup {<<"unattested", m.type, n>> : m \in {x \in rd[n].msgs : ~Attested(n, x)}}
          /\ rd' = [rd EXCEPT ![n].msgs = {}]
     ELSE UNCHANGED <<net, bad, rd>>
  /\ phase' = [phase EXCEPT ![n] = "sent1"]
  /\ UNCHANGED <<lib, leadFlag, sm, dur, up, crashes, proposed, appliedAt, leaders>>

Save(n) ==
  /\ up[n] /\ phase[n] = "sent1"
  /\ dTerm' = [dTerm EXCEPT ![n] = rd[n].hs.term]
  /\ dVote' = [dVote EXCEPT ![n] = rd[n].hs.vote]
  /\ dCommit' = [dCommit EXCEPT ![n] = rd[n].hs.commit]
  /\ dLog' = [dLog EXCEPT ![n] = IF Len(rd[n].ents) = 0 THEN @
                                 ELSE SubSeq(@, 1, rd[n].from - 1) \o rd[n].ents]
  /\ phase' = [phase EXCEPT ![n] = "saved"]
  /\ UNCHANGED <<lib, rd, leadFlag, sm, env, histv>>

RECURSIVE ApplyAll(_, _, _, _)
ApplyAll(A, n, i, to) ==   \* record applied entries in the global history
  IF i > to THEN A
  ELSE ApplyAll(IF i <= Len(A) THEN A ELSE Append(A, log[n][i]), n, i + 1, to)

Apply(n) ==
  /\ up[n] /\ phase[n] = "saved"
  /\ LET f == rd[n].cfrom  t == rd[n].cto IN
     /\ sm' = [sm EXCEPT ![n] = SubSeq(@, 1, f - 1) \o [i \in 1..(t - f + 1) |-> log[n][f + i - 1].val]]
     /\ bad' = bad
          \cup {<<"apply-mismatch", n, i>> : i \in {j \in f..t : j <= Len(appliedAt) /\ appliedAt[j] # log[n][j]}}
          \cup (IF f > Len(appliedAt) + 1 /\ f <= t THEN {<<"apply-gap", n>>} ELSE {})
          \cup {<<"apply-not-durable", n, i>> : i \in {j \in f..t : j > Len(dLog[n]) \/ dLog[n][j] # log[n][j]}}
     /\ appliedAt' = ApplyAll(appliedAt, n, f, t)
  /\ phase' = [phase EXCEPT ![n] = "applied"]
  /\ UNCHANGED <<lib, rd, leadFlag, dur, env, leaders>>

SendAfter(n) ==
  /\ up[n] /\ phase[n] = "applied"
  /\ net' = net \cup rd[n].msgs
  /\ bad' = bad \cup {<<"unattested", m.type, n>> : m \in {x \in rd[n].msgs : ~Attested(n, x)}}
  /\ phase' = [phase EXCEPT ![n] = "sent2"]
  /\ UNCHANGED <<lib, rd, leadFlag, sm, dur, up, crashes, proposed, appliedAt, leaders>>

Advance(n) ==
  /\ up[n] /\ phase[n] = "sent2"
  /\ stable' = [stable EXCEPT ![n] = IF Len(rd[n].ents) = 0 THEN @ ELSE Max(@, Min(Len(log[n]), rd[n].from + Len(rd[n].ents) - 1))]
  /\ appliedLib' = [appliedLib EXCEPT ![n] = Max(@, rd[n].hs.commit)]
  /\ phase' = [phase EXCEPT ![n] = "idle"]
  /\ rd' = [rd EXCEPT ![n] = NoRd]
  /\ UNCHANGED <<term, vote, role, lead, log, commit, votes, match, outbox, leadFlag, sm, dur, env, histv>>

\* ---------------- crash / restart ----------------
Crash(n) ==
  /\ up[n] /\ crashes < MaxCrash
  /\ crashes' = crashes + 1
  /\ up' = [up EXCEPT ![n] = FALSE]
  /\ phase' = [phase EXCEPT ![n] = "idle"] /\ rd' = [rd EXCEPT ![n] = NoRd]
  /\ outbox' = [outbox EXCEPT ![n] = {}] /\ leadFlag' = [leadFlag EXCEPT ![n] = FALSE]
  /\ role' = [role EXCEPT ![n] = "F"] /\ lead' = [lead EXCEPT ![n] = None]
  /\ votes' = [votes EXCEPT ![n] = {}] /\ sm' = [sm EXCEPT ![n] = <<>>]
  /\ UNCHANGED <<term, vote, log, commit, stable, appliedLib, match, dur, net, proposed, histv>>

Restart(n) ==
  /\ ~up[n]
  /\ up' = [up EXCEPT ![n] = TRUE]
  /\ IF RestartMode = "restart"
     THEN /\ term' = [term EXCEPT ![n] = dTerm[n]] /\ vote' = [vote EXCEPT ![n] = dVote[n]]
          /\ log' = [log EXCEPT ![n] = dLog[n]] /\ commit' = [commit EXCEPT ![n] = dCommit[n]]
     ELSE /\ term' = [term EXCEPT ![n] = 1] /\ vote' = [vote EXCEPT ![n] = None]
          /\ log' = [log EXCEPT ![n] = Append(dLog[n], [term |-> 1, val |-> Boot])]
          /\ commit' = [commit EXCEPT ![n] = Len(dLog[n]) + 1]
  /\ stable' = [stable EXCEPT ![n] = Len(dLog[n])]
  /\ appliedLib' = [appliedLib EXCEPT ![n] = 0]
  /\ match' = [match EXCEPT ![n] = [m \in Node |-> 0]]
  /\ UNCHANGED <<role, lead, votes, outbox, host, dur, net, crashes, proposed, histv>>

Drop(m) == m \in net /\ net' = net \ {m} /\ UNCHANGED <<lib, host, dur, up, crashes, proposed, histv>>


\* ---------------- atomic host cycle with optional crash point (reduction) ----------------
CrashPts == {"none", "afterTake", "afterSend1", "afterSave", "afterApply", "afterSend2"}
Ord(p) == CASE p = "afterTake" -> 0 [] p = "afterSend1" -> 1 [] p = "afterSave" -> 2 [] p = "afterApply" -> 3 [] p = "afterSend2" -> 4 [] OTHER -> 5

Cycle(n, cp) ==
  /\ Idle(n) /\ HasUpdates(n)
  /\ cp # "none" => crashes < MaxCrash
  /\ LET k == Ord(cp)
         R == [hs |-> [term |-> term[n], vote |-> vote[n], commit |-> commit[n]],
               from |-> stable[n] + 1, ents |-> SubSeq(log[n], stable[n] + 1, Len(log[n])),
               cfrom |-> appliedLib[n] + 1, cto |-> commit[n], msgs |-> outbox[n]]
         lf == (lead[n] = n)
         first == lf \/ SendPolicy = "allFirst"
         \* phase 1: send-before
         net1 == IF k >= 1 /\ first THEN net \cup R.msgs ELSE net
         bad1 == IF k >= 1 /\ first THEN bad \cup {<<"unattested", m.type, n>> : m \in {x \in R.msgs : ~Attested(n, x)}} ELSE bad
         \* phase 2: save
         dT == IF k >= 2 THEN R.hs.term ELSE dTerm[n]
         dV == IF k >= 2 THEN R.hs.vote ELSE dVote[n]
         dC == IF k >= 2 THEN R.hs.commit ELSE dCommit[n]
         dL == IF k >= 2 /\ Len(R.ents) > 0 THEN SubSeq(dLog[n], 1, R.from - 1) \o R.ents ELSE dLog[n]
         \* phase 3: apply
         f == R.cfrom  t == R.cto
         sm3 == IF k >= 3 THEN SubSeq(sm[n], 1, f - 1) \o [i \in 1..(t - f + 1) |-> log[n][f + i - 1].val] ELSE sm[n]
         bad3 == IF k >= 3 THEN bad1
                   \cup {<<"apply-mismatch", n, i>> : i \in {j \in f..t : j <= Len(appliedAt) /\ appliedAt[j] # log[n][j]}}
                   \cup (IF f > Len(appliedAt) + 1 /\ f <= t THEN {<<"apply-gap", n>>} ELSE {})
                   \cup {<<"apply-not-durable", n, i>> : i \in {j \in f..t : j > Len(dL) \/ dL[j] # log[n][j]}}
                 ELSE bad1
         aa3 == IF k >= 3 THEN ApplyAll(appliedAt, n, f, t) ELSE appliedAt
         \* phase 4: send-after
         unsent == IF first THEN {} ELSE R.msgs
         net4 == IF k >= 4 THEN net1 \cup unsent ELSE net1
         \* attestation of late sends is evaluated against the durable state after save
         lateBad == {<<"unattested", m.type, n>> : m \in {x \in unsent :
                        ~(CASE x.type = "voteResp" /\ x.granted -> dT >= x.term /\ (dT = x.term => dV = x.to)
                            [] x.type = "vote" -> dT >= x.term /\ (dT = x.term => dV = n)
                            [] x.type = "appResp" /\ x.ok -> dT >= x.term /\ (dT = x.term => Len(dL) >= x.idx)
                            [] OTHER -> TRUE)}}
         bad4 == IF k >= 4 THEN bad3 \cup lateBad ELSE bad3
     IN /\ net' = net4 /\ bad' = bad4 /\ appliedAt' = aa3
        /\ dTerm' = [dTerm EXCEPT ![n] = dT] /\ dVote' = [dVote EXCEPT ![n] = dV]
        /\ dCommit' = [dCommit EXCEPT ![n] = dC] /\ dLog' = [dLog EXCEPT ![n] = dL]
        /\ IF cp = "none"
           THEN /\ sm' = [sm EXCEPT ![n] = sm3]
                /\ stable' = [stable EXCEPT ![n] = Len(log[n])]
                /\ appliedLib' = [appliedLib EXCEPT ![n] = Max(@, R.hs.commit)]
                /\ outbox' = [outbox EXCEPT ![n] = {}]
                /\ leadFlag' = [leadFlag EXCEPT ![n] = lf]
                /\ UNCHANGED <<up, crashes, role, lead, votes>>
           ELSE /\ sm' = [sm EXCEPT ![n] = <<>>]
                /\ up' = [up EXCEPT ![n] = FALSE] /\ crashes' = crashes + 1
                /\ outbox' = [outbox EXCEPT ![n] = {}] /\ leadFlag' = [leadFlag EXCEPT ![n] = FALSE]
                /\ role' = [role EXCEPT ![n] = "F"] /\ lead' = [lead EXCEPT ![n] = None]
                /\ votes' = [votes EXCEPT ![n] = {}]
                /\ UNCHANGED <<stable, appliedLib>>
  /\ UNCHANGED <<term, vote, log, commit, match, phase, rd, proposed, leaders>>

CrashIdle(n) == Idle(n) /\ ~HasUpdates(n) /\ Crash(n)

NextR ==
  \/ \E n \in Node : Timeout(n) \/ Restart(n) \/ LeaderBcast(n) \/ CrashIdle(n)
  \/ \E n \in Node, cp \in CrashPts : Cycle(n, cp)
  \/ \E n \in Node, m \in net : Recv(n, m)
  \/ \E n \in Node, v \in Values : Propose(n, v)
  \/ \E m \in net : Drop(m)
SpecR == Init /\ [][NextR]_vars
Sym == Permutations(Node)

Next ==
  \/ \E n \in Node : Timeout(n) \/ TakeReady(n) \/ SendBefore(n) \/ Save(n) \/ Apply(n) \/ SendAfter(n) \/ Advance(n)
                     \/ Crash(n) \/ Restart(n) \/ LeaderBcast(n)
  \/ \E n \in Node, m \in net : Recv(n, m)
  \/ \E n \in Node, v \in Values : Propose(n, v)
  \/ \E m \in net : Drop(m)

Spec == Init /\ [][Next]_vars

NetBound == Cardinality(net) <= MaxNet
NoBad == bad = {}
ElectionSafety == \A a, b \in leaders : a[1] = b[1] => a[2] = b[2]
TermNotBelowDurable == \A n \in Node : up[n] => term[n] >= dTerm[n]
=============================================================================
