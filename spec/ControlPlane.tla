---------------------------- MODULE ControlPlane ----------------------------
(* C18: the zero group's apply goroutine (Z) against the allocator loop (A):
   storage/allocator.go, cluster/conn.go, storage/dataset_manager.go.

   Z applies log entries in order: "conf" (a membership change: Conn.AddNode under
   addressesMu, a notification on a channel of capacity NotifCap), "create" (a
   dataset creation: Allocator.watch - partitionsMu for writing, then a send on the
   UNBUFFERED updates channel; WatchSendUnderLock says whether the send happens while
   the lock is still held, as shipped), "upd" (a partition-nodes change proposed by A).
   A selects on node changes / updates; a node change takes partitionsMu for reading,
   reads the node ids under addressesMu and - when a partition is under-replicated, or
   the change is a removal (UnderRepl: "the node change makes a proposal") - proposes
   "upd" and WAITS for Z to apply it.

   InlineNodeChanges = TRUE is the code as shipped: the loop does all of that itself,
   holding the read lock while it waits and receiving nothing meanwhile.  FALSE is the
   repaired code: the loop only moves the change to an unbounded queue (pend); a worker
   W takes it from there, copies the watched partitions under the read lock, releases
   it, proposes and waits.  Z never has to wait for W.
   The proposer of "upd" (A or W) waits with a context that ends at shutdown only: Z has to answer every applied "upd",
   also one that changes nothing (AnswerEveryUpd).
   TLC's deadlock check is the property: every reachable state that is not Done has a successor. *)
EXTENDS Integers, Sequences, FiniteSets, TLC
CONSTANTS Entries,      \* initial sequence of log entries for Z to apply: "create" | "conf"
          NotifCap,     \* capacity of the node-change notification channel (code: 10)
          UnderRepl,    \* TRUE: the loop proposes addPartitionNode on a node change
          WatchSendUnderLock,
          InlineNodeChanges,
          AnswerEveryUpd  \* TRUE (the code): applying "upd" always notifies its proposer; FALSE: an "upd" that changes
                          \* nothing (the node already is a replica: a peer re-announced after a restart) returns early
VARIABLES zq, zpc, apc, pmuW, pmuR, amuW, notif, handoff, waiting, wpc, pend
vars == <<zq, zpc, apc, pmuW, pmuR, amuW, notif, handoff, waiting, wpc, pend>>
Init == /\ zq = Entries /\ zpc = "idle" /\ apc = "select" /\ pmuW = FALSE /\ pmuR = 0
        /\ amuW = FALSE /\ notif = 0 /\ handoff = FALSE /\ waiting = FALSE /\ wpc = "idle" /\ pend = 0
\* ---- Z
ZTake == /\ zpc = "idle" /\ zq # <<>>
         /\ zpc' = (CASE Head(zq) = "create" -> "watch.lock" [] Head(zq) = "conf" -> "addnode.lock" [] OTHER -> "upd")
         /\ UNCHANGED <<zq, apc, pmuW, pmuR, amuW, notif, handoff, waiting, wpc, pend>>
ZWatchLock == /\ zpc = "watch.lock" /\ ~pmuW /\ pmuR = 0 /\ pmuW' = WatchSendUnderLock /\ zpc' = "watch.send"
              /\ UNCHANGED <<zq, apc, pmuR, amuW, notif, handoff, waiting, wpc, pend>>
\* unbuffered send: completes only together with the loop's receive (ARecvUpdate)
ZWatchUnlock == /\ zpc = "watch.unlock" /\ pmuW' = FALSE /\ zpc' = "idle" /\ zq' = Tail(zq)
                /\ UNCHANGED <<apc, pmuR, amuW, notif, handoff, waiting, wpc, pend>>
ZAddLock == /\ zpc = "addnode.lock" /\ ~amuW /\ amuW' = TRUE /\ zpc' = "addnode.send"
            /\ UNCHANGED <<zq, apc, pmuW, pmuR, notif, handoff, waiting, wpc, pend>>
ZAddSend == /\ zpc = "addnode.send" /\ notif < NotifCap /\ notif' = notif + 1 /\ zpc' = "addnode.unlock"
            /\ UNCHANGED <<zq, apc, pmuW, pmuR, amuW, handoff, waiting, wpc, pend>>
ZAddUnlock == /\ zpc = "addnode.unlock" /\ amuW' = FALSE /\ zpc' = "idle" /\ zq' = Tail(zq)
              /\ UNCHANGED <<apc, pmuW, pmuR, notif, handoff, waiting, wpc, pend>>
ZUpd == /\ zpc = "upd" /\ waiting' = (IF AnswerEveryUpd THEN FALSE ELSE waiting) /\ zpc' = "idle" /\ zq' = Tail(zq)
        /\ UNCHANGED <<apc, pmuW, pmuR, amuW, notif, handoff, wpc, pend>>
\* ---- A
ARecvNode == /\ apc = "select" /\ notif > 0 /\ notif' = notif - 1
             /\ IF InlineNodeChanges THEN apc' = "rlock" /\ pend' = pend
                                      ELSE apc' = "select" /\ pend' = pend + 1
             /\ UNCHANGED <<zq, zpc, pmuW, pmuR, amuW, handoff, waiting, wpc>>
ARecvUpdate == /\ apc = "select" /\ zpc = "watch.send" /\ zpc' = "watch.unlock" /\ apc' = "load"
               /\ UNCHANGED <<zq, pmuW, pmuR, amuW, notif, handoff, waiting, wpc, pend>>
ALoad == /\ apc = "load" /\ apc' = "select" /\ UNCHANGED <<zq, zpc, pmuW, pmuR, amuW, notif, handoff, waiting, wpc, pend>>
ARLock == /\ apc = "rlock" /\ ~pmuW /\ pmuR' = pmuR + 1 /\ apc' = "nodeids"
          /\ UNCHANGED <<zq, zpc, pmuW, amuW, notif, handoff, waiting, wpc, pend>>
ANodeIds == /\ apc = "nodeids" /\ ~amuW /\ apc' = (IF UnderRepl THEN "propose" ELSE "runlock")
            /\ UNCHANGED <<zq, zpc, pmuW, pmuR, amuW, notif, handoff, waiting, wpc, pend>>
APropose == /\ apc = "propose" /\ zq' = Append(zq, "upd") /\ waiting' = TRUE /\ apc' = "wait"
            /\ UNCHANGED <<zpc, pmuW, pmuR, amuW, notif, handoff, wpc, pend>>
AWait == /\ apc = "wait" /\ ~waiting /\ apc' = "runlock"
         /\ UNCHANGED <<zq, zpc, pmuW, pmuR, amuW, notif, handoff, waiting, wpc, pend>>
ARUnlock == /\ apc = "runlock" /\ pmuR' = pmuR - 1 /\ apc' = "select"
            /\ UNCHANGED <<zq, zpc, pmuW, amuW, notif, handoff, waiting, wpc, pend>>
\* ---- W (repaired code only)
WTake == /\ wpc = "idle" /\ pend > 0 /\ pend' = pend - 1 /\ wpc' = "snap.lock"
         /\ UNCHANGED <<zq, zpc, apc, pmuW, pmuR, amuW, notif, handoff, waiting>>
WSnapLock == /\ wpc = "snap.lock" /\ ~pmuW /\ pmuR' = pmuR + 1 /\ wpc' = "snap.unlock"
             /\ UNCHANGED <<zq, zpc, apc, pmuW, amuW, notif, handoff, waiting, pend>>
WSnapUnlock == /\ wpc = "snap.unlock" /\ pmuR' = pmuR - 1 /\ wpc' = "nodeids"
               /\ UNCHANGED <<zq, zpc, apc, pmuW, amuW, notif, handoff, waiting, pend>>
WNodeIds == /\ wpc = "nodeids" /\ ~amuW /\ wpc' = (IF UnderRepl THEN "propose" ELSE "idle")
            /\ UNCHANGED <<zq, zpc, apc, pmuW, pmuR, amuW, notif, handoff, waiting, pend>>
WPropose == /\ wpc = "propose" /\ zq' = Append(zq, "upd") /\ waiting' = TRUE /\ wpc' = "wait"
            /\ UNCHANGED <<zpc, apc, pmuW, pmuR, amuW, notif, handoff, pend>>
WWait == /\ wpc = "wait" /\ ~waiting /\ wpc' = "idle"
         /\ UNCHANGED <<zq, zpc, apc, pmuW, pmuR, amuW, notif, handoff, waiting, pend>>
Done == zq = <<>> /\ zpc = "idle" /\ apc = "select" /\ notif = 0 /\ wpc = "idle" /\ pend = 0 /\ UNCHANGED vars
Next == ZTake \/ ZWatchLock \/ ZWatchUnlock \/ ZAddLock \/ ZAddSend \/ ZAddUnlock \/ ZUpd
        \/ ARecvNode \/ ARecvUpdate \/ ALoad \/ ARLock \/ ANodeIds \/ APropose \/ AWait \/ ARUnlock
        \/ WTake \/ WSnapLock \/ WSnapUnlock \/ WNodeIds \/ WPropose \/ WWait \/ Done
Spec == Init /\ [][Next]_vars
=============================================================================
