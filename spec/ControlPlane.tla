---------------------------- MODULE ControlPlane ----------------------------
(* C18: the zero group's apply goroutine (Z) against the allocator loop (A):
   storage/allocator.go, cluster/conn.go, storage/dataset_manager.go.

   Z applies log entries in order: "conf" (a membership change: Conn.AddNode under
   addressesMu, a notification on a channel of capacity NotifCap), "create" (a
   dataset creation: Allocator.watch - partitionsMu for writing, then a send on the
   UNBUFFERED updates channel; WatchSendUnderLock says whether the send happens while
   the lock is still held, as shipped), "upd" (a partition-nodes change proposed by A).
   A selects on node changes / updates; a node change takes partitionsMu for reading,
   reads the node ids under addressesMu and - when a partition is under-replicated
   (UnderRepl) - proposes "upd" and WAITS for Z to apply it, still holding the read lock.
   TLC's deadlock check is the property: every reachable state that is not Done has a successor. *)
EXTENDS Integers, Sequences, FiniteSets, TLC
CONSTANTS Entries,      \* initial sequence of log entries for Z to apply: "create" | "conf"
          NotifCap,     \* capacity of the node-change notification channel (code: 10)
          UnderRepl,    \* TRUE: the loop proposes addPartitionNode on a node change
          WatchSendUnderLock
VARIABLES zq, zpc, apc, pmuW, pmuR, amuW, notif, handoff, waiting
vars == <<zq, zpc, apc, pmuW, pmuR, amuW, notif, handoff, waiting>>
Init == /\ zq = Entries /\ zpc = "idle" /\ apc = "select" /\ pmuW = FALSE /\ pmuR = 0
        /\ amuW = FALSE /\ notif = 0 /\ handoff = FALSE /\ waiting = FALSE
\* ---- Z
ZTake == /\ zpc = "idle" /\ zq # <<>>
         /\ zpc' = (CASE Head(zq) = "create" -> "watch.lock" [] Head(zq) = "conf" -> "addnode.lock" [] OTHER -> "upd")
         /\ UNCHANGED <<zq, apc, pmuW, pmuR, amuW, notif, handoff, waiting>>
ZWatchLock == /\ zpc = "watch.lock" /\ ~pmuW /\ pmuR = 0 /\ pmuW' = WatchSendUnderLock /\ zpc' = "watch.send"
              /\ UNCHANGED <<zq, apc, pmuR, amuW, notif, handoff, waiting>>
\* unbuffered send: completes only together with the loop's receive (ARecvUpdate)
ZWatchUnlock == /\ zpc = "watch.unlock" /\ pmuW' = FALSE /\ zpc' = "idle" /\ zq' = Tail(zq)
                /\ UNCHANGED <<apc, pmuR, amuW, notif, handoff, waiting>>
ZAddLock == /\ zpc = "addnode.lock" /\ ~amuW /\ amuW' = TRUE /\ zpc' = "addnode.send"
            /\ UNCHANGED <<zq, apc, pmuW, pmuR, notif, handoff, waiting>>
ZAddSend == /\ zpc = "addnode.send" /\ notif < NotifCap /\ notif' = notif + 1 /\ zpc' = "addnode.unlock"
            /\ UNCHANGED <<zq, apc, pmuW, pmuR, amuW, handoff, waiting>>
ZAddUnlock == /\ zpc = "addnode.unlock" /\ amuW' = FALSE /\ zpc' = "idle" /\ zq' = Tail(zq)
              /\ UNCHANGED <<apc, pmuW, pmuR, notif, handoff, waiting>>
ZUpd == /\ zpc = "upd" /\ waiting' = FALSE /\ zpc' = "idle" /\ zq' = Tail(zq)
        /\ UNCHANGED <<apc, pmuW, pmuR, amuW, notif, handoff>>
\* ---- A
ARecvNode == /\ apc = "select" /\ notif > 0 /\ notif' = notif - 1 /\ apc' = "rlock"
             /\ UNCHANGED <<zq, zpc, pmuW, pmuR, amuW, handoff, waiting>>
ARecvUpdate == /\ apc = "select" /\ zpc = "watch.send" /\ zpc' = "watch.unlock" /\ apc' = "load"
               /\ UNCHANGED <<zq, pmuW, pmuR, amuW, notif, handoff, waiting>>
ALoad == /\ apc = "load" /\ apc' = "select" /\ UNCHANGED <<zq, zpc, pmuW, pmuR, amuW, notif, handoff, waiting>>
ARLock == /\ apc = "rlock" /\ ~pmuW /\ pmuR' = pmuR + 1 /\ apc' = "nodeids"
          /\ UNCHANGED <<zq, zpc, pmuW, amuW, notif, handoff, waiting>>
ANodeIds == /\ apc = "nodeids" /\ ~amuW /\ apc' = (IF UnderRepl THEN "propose" ELSE "runlock")
            /\ UNCHANGED <<zq, zpc, pmuW, pmuR, amuW, notif, handoff, waiting>>
APropose == /\ apc = "propose" /\ zq' = Append(zq, "upd") /\ waiting' = TRUE /\ apc' = "wait"
            /\ UNCHANGED <<zpc, pmuW, pmuR, amuW, notif, handoff>>
AWait == /\ apc = "wait" /\ ~waiting /\ apc' = "runlock"
         /\ UNCHANGED <<zq, zpc, pmuW, pmuR, amuW, notif, handoff, waiting>>
ARUnlock == /\ apc = "runlock" /\ pmuR' = pmuR - 1 /\ apc' = "select"
            /\ UNCHANGED <<zq, zpc, pmuW, amuW, notif, handoff, waiting>>
Done == zq = <<>> /\ zpc = "idle" /\ apc = "select" /\ notif = 0 /\ UNCHANGED vars
Next == ZTake \/ ZWatchLock \/ ZWatchUnlock \/ ZAddLock \/ ZAddSend \/ ZAddUnlock \/ ZUpd
        \/ ARecvNode \/ ARecvUpdate \/ ALoad \/ ARLock \/ ANodeIds \/ APropose \/ AWait \/ ARUnlock \/ Done
Spec == Init /\ [][Next]_vars
=============================================================================
