SPECIFICATION FairSpec
CONSTANTS
  NP = 3
  LoopVarShared = FALSE
  CloseErr = TRUE
INVARIANTS EachOnce FailLoud
PROPERTY Returns
CHECK_DEADLOCK FALSE
