SPECIFICATION Spec
CONSTANTS
  Ids = {0, 1, 2, 3, 4, 5}
  NP = 3
  Nodes = {1, 2, 3, 9}
  Owner <- OwnerDef
  Hosts <- HostsDef
  Paths = {"insert", "update", "remove", "binsert", "bupdate", "bremove"}
  PathOwner <- GoodPaths
INVARIANTS OwnerOnly Stable
CHECK_DEADLOCK FALSE
