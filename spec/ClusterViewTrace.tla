--------------------------- MODULE ClusterViewTrace ---------------------------
(* Binding V for C14, C20 (and the restart clause of C18): traces of a cluster of
   real anndb server processes.  The trace specification keeps what the
   acknowledged operations imply - the catalogue of Catalogue.tla (set of dataset
   ids) and the membership of Membership.tla (id -> announced address) - and
   compares every live node's reported view with it after each step, including
   after kill -9 + restart (with and without a zero-group snapshot, with the
   catalogue consumer wired late). *)
EXTENDS Integers, Sequences, FiniteSets, TLC, Json
CONSTANT TraceFile
Trace == ndJsonDeserialize(TraceFile)
VARIABLES l, cat, mem, maybe, ref, order, descr, wlive, wmaybe, viol
vars == <<l, cat, mem, maybe, ref, order, descr, wlive, wmaybe, viol>>
Empty == [x \in {} |-> 0]
Put(f, x, v) == [y \in DOMAIN f \cup {x} |-> IF y = x THEN v ELSE f[y]]
Drop(f, x) == [y \in DOMAIN f \ {x} |-> f[y]]
Ids(ds) == {ds[i].id : i \in 1..Len(ds)}

ViewViol(t) ==
  LET got == Ids(t.datasets)
      catv == IF got = cat THEN {}
              ELSE IF t.after = "restart" THEN {<<l, "CatalogueLostOnRestart">>}
              ELSE IF t.after = "delete" /\ got \ cat # {} THEN {<<l, "DeletedStillListed">>}
              ELSE {<<l, "CatalogueDiffers">>}
      metav == IF ref # <<>> /\ got = cat /\ t.datasets # ref THEN {<<l, "CatalogueMetadataDiffers">>} ELSE {}
      \* every acknowledged member is listed with its address; nobody else is, except a node whose join
      \* attempt ended without an acknowledgement (maybe: the members may or may not have recorded it)
      memv == IF DOMAIN mem \subseteq DOMAIN t.members /\ DOMAIN t.members \subseteq DOMAIN mem \cup maybe
                 /\ \A n \in DOMAIN mem : t.members[n] = mem[n] THEN {}
              ELSE IF t.after = "restart" THEN {<<l, "MembersLostOnRestart">>}
              ELSE IF DOMAIN t.members \ (DOMAIN mem \cup maybe) # {} THEN {<<l, "RemovedStillListed">>}
              ELSE IF DOMAIN mem \ DOMAIN t.members # {} THEN {<<l, "MemberMissing">>}
              ELSE {<<l, "AddressWrong">>}
      errv == IF t.err = "" THEN {} ELSE {<<l, "ViewError">>}
      \* the partition list of a dataset keeps the order it was created with (routing indexes into it: C10)
      ordv == IF \E i \in 1..Len(t.datasets) : t.datasets[i].id \in DOMAIN order
                     /\ [j \in 1..Len(t.datasets[i].parts) |-> t.datasets[i].parts[j][1]] # order[t.datasets[i].id]
              THEN {<<l, "PartitionOrderChanged">>} ELSE {}
      \* every node lists a dataset with the dimension and the metric it was created with (also after a restart from a snapshot)
      dscv == IF \E i \in 1..Len(t.datasets) : t.datasets[i].id \in DOMAIN descr
                     /\ <<t.datasets[i].dim, t.datasets[i].space>> # descr[t.datasets[i].id]
              THEN {<<l, "CatalogueMetadataDiffers">>} ELSE {}
  IN catv \cup metav \cup memv \cup errv \cup ordv \cup dscv

Init == l = 1 /\ cat = {} /\ mem = Empty /\ maybe = {} /\ ref = <<>> /\ order = Empty /\ descr = Empty /\ wlive = {} /\ wmaybe = {} /\ viol = {}
Step ==
  /\ l <= Len(Trace) /\ l' = l + 1
  /\ LET t == Trace[l] IN
     CASE t.ev = "scenario" -> cat' = {} /\ mem' = Empty /\ maybe' = {} /\ ref' = <<>> /\ order' = Empty /\ descr' = Empty /\ wlive' = {} /\ wmaybe' = {} /\ viol' = viol
       [] t.ev = "joined" -> /\ mem' = (IF t.ok = 1 THEN Put(mem, ToString(t.node), t.addr) ELSE mem)
                             /\ maybe' = (IF t.ok = 1 THEN maybe \ {ToString(t.node)} ELSE maybe \cup {ToString(t.node)})
                             /\ viol' = viol \cup (IF t.ok = 1 THEN {} ELSE {<<l, "JoinFailed">>}) /\ UNCHANGED <<cat, ref, order, descr, wlive, wmaybe>>
       \* a join attempt whose handshake may be lost: acknowledged (the node reports itself ready) or refused
       [] t.ev = "joinattempt" -> /\ mem' = (IF t.ack = 1 THEN Put(mem, ToString(t.node), t.addr) ELSE mem)
                                  /\ maybe' = (IF t.ack = 1 THEN maybe ELSE maybe \cup {ToString(t.node)})
                                  /\ viol' = viol /\ UNCHANGED <<cat, ref, order, descr, wlive, wmaybe>>
       [] t.ev = "left" -> /\ mem' = (IF t.ok = 1 THEN Drop(mem, ToString(t.node)) ELSE mem) /\ maybe' = maybe
                           /\ viol' = viol /\ UNCHANGED <<cat, ref, order, descr, wlive, wmaybe>>
       [] t.ev = "create" -> /\ cat' = (IF t.ok = 1 THEN cat \cup {t.id} ELSE cat) /\ ref' = <<>>
                             /\ order' = (IF t.ok = 1 THEN Put(order, t.id, t.parts) ELSE order)
                             /\ descr' = (IF t.ok = 1 THEN Put(descr, t.id, <<t.dim, t.space>>) ELSE descr)
                             /\ viol' = viol \cup (IF t.ok = 1 THEN {} ELSE {<<l, "CreateFailed">>}) /\ UNCHANGED <<mem, maybe, wlive, wmaybe>>
       [] t.ev = "delete" -> /\ cat' = (IF t.ok = 1 THEN cat \ {t.id} ELSE cat) /\ ref' = <<>>
                             /\ viol' = viol \cup (IF t.ok = 1 THEN {} ELSE {<<l, "DeleteFailed">>}) /\ UNCHANGED <<mem, maybe, order, descr, wlive, wmaybe>>
       [] t.ev = "started" -> /\ viol' = viol \cup (IF t.ok = 1 THEN {} ELSE {<<l, "RestartFailed">>}) /\ ref' = <<>> /\ UNCHANGED <<cat, mem, maybe, order, descr, wlive, wmaybe>>
       \* acknowledged writes against what a search returns afterwards (C03 on real server processes):
       \* an acknowledged insert is there, an acknowledged remove is gone, nothing else appears; a write whose
       \* acknowledgement was an error may or may not have taken effect
       [] t.ev = "wack" -> /\ wlive' = (IF t.ok = 1 /\ t.kind = "insert" THEN wlive \cup {t.id}
                                        ELSE IF t.ok = 1 /\ t.kind = "remove" THEN wlive \ {t.id} ELSE wlive)
                           /\ wmaybe' = (IF t.ok = 1 THEN wmaybe \ {t.id} ELSE IF t.res = "err" THEN wmaybe \cup {t.id} ELSE wmaybe)
                           \* acknowledgements and refusals are truthful about the item (sequential client, so trace order is real time)
                           /\ viol' = viol
                                \cup (IF t.res = "ok" /\ t.kind = "insert" /\ t.id \in wlive \ wmaybe THEN {<<l, "DuplicateInsertAcked">>} ELSE {})
                                \cup (IF t.res = "ok" /\ t.kind \in {"remove", "update"} /\ t.id \notin wlive \cup wmaybe THEN {<<l, "AbsentItemAcked">>} ELSE {})
                                \cup (IF t.res = "exists" /\ t.id \notin wlive \cup wmaybe THEN {<<l, "SpuriousExists">>} ELSE {})
                                \cup (IF t.res = "notfound" /\ t.id \in wlive \ wmaybe THEN {<<l, "SpuriousNotFound">>} ELSE {})
                                \* the serving node talked to a peer through a connection it had closed itself (C20: reachability)
                                \cup (IF t.closed = 1 THEN {<<l, "PeerUnreachable">>} ELSE {})
                           /\ UNCHANGED <<cat, mem, maybe, ref, order, descr>>
       \* writes to a partition whose raft group has lost its quorum (C11: "if ... the proposal is not applied in time it
       \* returns an error"): none of them is acknowledged
       [] t.ev = "noquorum" -> /\ viol' = viol \cup (IF t.acked > 0 THEN {<<l, "AckedWithoutQuorum">>} ELSE {})
                               /\ UNCHANGED <<cat, mem, maybe, ref, order, descr, wlive, wmaybe>>
       [] t.ev = "found" -> LET got == {t.ids[j] : j \in 1..Len(t.ids)} IN
                            /\ viol' = viol \cup (IF t.closed = 1 THEN {<<l, "PeerUnreachable">>} ELSE {})
                                            \cup (IF t.err # "" THEN {<<l, "SearchUnavailable">>}
                                                   ELSE (IF (wlive \ wmaybe) \subseteq got THEN {} ELSE {<<l, "AckedLostOnRestart">>})
                                                        \cup (IF got \subseteq wlive \cup wmaybe THEN {} ELSE {<<l, "GhostAfterRestart">>})
                                                        \* a search for the 5 nearest returns the 5 nearest of everything the full search
                                                        \* through the same node returned a moment before (C09; distance grows with the id)
                                                        \cup (IF t.toperr # "" \/ t.top = SubSeq(t.ids, 1, IF Len(t.ids) < 5 THEN Len(t.ids) ELSE 5) THEN {} ELSE {<<l, "TopKNotUnion">>})
                                                        \* the reported item count is the sum over the partitions (C17): with nothing
                                                        \* uncertain it is the number of live items, otherwise within the uncertainty
                                                        \cup (IF t.sizeerr # "" THEN {}
                                                              ELSE IF t.size >= Cardinality(wlive \ wmaybe) /\ t.size <= Cardinality(wlive \cup wmaybe)
                                                                   THEN {} ELSE {<<l, "SizeNotSum">>})
                                                        \* ... also through Get and List with the size option
                                                        \cup (IF t.gsizeerr # "" THEN {}
                                                              ELSE IF t.gsize >= Cardinality(wlive \ wmaybe) /\ t.gsize <= Cardinality(wlive \cup wmaybe)
                                                                   THEN {} ELSE {<<l, "SizeNotSum">>})
                                                        \cup (IF t.lsizeerr # "" THEN {}
                                                              ELSE IF t.lsize >= Cardinality(wlive \ wmaybe) /\ t.lsize <= Cardinality(wlive \cup wmaybe)
                                                                   THEN {} ELSE {<<l, "SizeNotSum">>}))
                            /\ UNCHANGED <<cat, mem, maybe, ref, order, descr, wlive, wmaybe>>
       \* a partition-level RPC sent to a node that knows the partition but does not host it must be refused
       [] t.ev = "probe" -> /\ viol' = viol \cup (IF t.ok = 1 THEN {<<l, "ForeignPartitionServed">>} ELSE {})
                            /\ UNCHANGED <<cat, mem, maybe, ref, order, descr, wlive, wmaybe>>
       [] t.ev = "died" -> viol' = viol \cup {<<l, "NodeDied">>} /\ UNCHANGED <<cat, mem, maybe, ref, order, descr, wlive, wmaybe>>
       [] t.ev = "view" -> /\ viol' = viol \cup ViewViol(t)
                           /\ ref' = (IF ref = <<>> /\ Ids(t.datasets) = cat THEN t.datasets ELSE ref)
                           /\ UNCHANGED <<cat, mem, maybe, order, descr, wlive, wmaybe>>
       [] OTHER -> UNCHANGED <<cat, mem, maybe, order, descr, wlive, wmaybe, viol>> /\ ref' = <<>>
Spec == Init /\ [][Step]_vars
Report == l = Len(Trace) + 1 => PrintT(<<"VIOL", ToJson([n |-> Len(Trace), v |-> viol])>>)
=============================================================================
