------------------------ MODULE MembershipReplayTrace ------------------------
(* Binding of Membership.tla to the real cluster.Conn + raft.NodesManager at L1 (harness cmd/memb).  One event per
   membership log - join(n) announcing a new address every time, leave(n) - applied to three address books of member 1:
     a  every entry                                                        (what the apply loop does per entry)
     b  a prefix, then a's snapshot taken at a later index, then the rest   (a member that was behind: InstallSnapshot)
     c  that snapshot into a fresh book, then the rest                      (a restart from a snapshot, a new member)
   Accepted iff all three equal the fold of the log (Membership!ViewOK): exactly the members, each with the address of
   its latest join. *)
EXTENDS Integers, Sequences, FiniteSets, TLC, Json
CONSTANT TraceFile
Trace == ndJsonDeserialize(TraceFile)
VARIABLES l, viol
vars == <<l, viol>>
Put(f, x, v) == [y \in DOMAIN f \cup {x} |-> IF y = x THEN v ELSE f[y]]
Drop(f, x) == [y \in DOMAIN f \ {x} |-> f[y]]
RECURSIVE Fold(_, _, _)
Fold(b, log, i) == IF i > Len(log) THEN b
                   ELSE Fold(IF log[i].op = "join" THEN Put(b, ToString(log[i].n), log[i].addr) ELSE Drop(b, ToString(log[i].n)), log, i + 1)
Expected(t) == Fold(("1" :> "10.0.0.1:6000"), t.log, 1)
Kind(got, want, tag) ==
  IF got = want THEN {}
  ELSE IF DOMAIN got \ DOMAIN want # {} THEN {<<l, "RemovedStillListed" \o tag>>}
  ELSE IF DOMAIN want \ DOMAIN got # {} THEN {<<l, "MemberMissing" \o tag>>}
  ELSE {<<l, "AddressWrong" \o tag>>}
V(t) == (IF t.res = "ok" THEN {} ELSE {<<l, "RestoreFailed">>})
        \cup Kind(t.a, Expected(t), "@replay") \cup Kind(t.b, Expected(t), "@snapshot-into-known") \cup Kind(t.c, Expected(t), "@snapshot-into-fresh")
Init == l = 1 /\ viol = {}
Step == /\ l <= Len(Trace) /\ l' = l + 1 /\ viol' = viol \cup V(Trace[l])
Spec == Init /\ [][Step]_vars
Report == l = Len(Trace) + 1 => PrintT(<<"VIOL", ToJson([n |-> Len(Trace), v |-> viol])>>)
=============================================================================
