SPECIFICATION FairSpec
CONSTANTS
  Callers = {"a", "b", "c"}
  Ids = {1}
  NotifCap = 1
  Ops <- OpsDef
  RecycleChannels = FALSE
  MayGiveUp = {"a"}
INVARIANT Truthful
PROPERTY Delivered
CHECK_DEADLOCK FALSE
