SPECIFICATION Spec
CONSTANTS
  W = 8
  U = 4
  MinLen = 1
  MaxLen = 600
  VecBound = "floor"
  TailExit = "eq"
  TailOddFirst = TRUE
INVARIANTS TypeOK InBounds Contiguous VecMeetsTail Coverage Shape TailBounded ClosedForm
PROPERTIES Terminates
CHECK_DEADLOCK FALSE
