------------------------------ MODULE HnswConc ------------------------------
(* C13: index.Hnsw under concurrent Insert / Remove / Search, cut at the points
   between which another goroutine can observe an intermediate state (the verif
   yield points of index/hnsw.go):

     Insert(v): read ep ; store v in the vertices map (shard lock) ;
                first-insert path: CAS(ep, nil -> v), on failure fall through ;
                load ep, link v (levels are not modelled: every vertex links to every
                non-deleted stored vertex) ; (promotion never applies at equal levels)
     Remove(v): unstore v and mark it deleted (shard lock) ; load ep ;
                if ep = v: choose a non-deleted neighbour - or, if none, the
                fallback scan of the vertices map - then CAS(ep, v -> choice) ; unlink
     Search:    load ep ; collect the non-deleted vertices reachable from it.  StartFiltered says
                whether the start vertex itself is subject to that filter (as shipped: FALSE - the
                vertex searchLevel starts from is a result unconditionally; a Remove of the entry
                point unstores and tombstones it first and hands the entry point over later, so in
                between every search starts from a tombstone and returns it: SearchLive)

   The vertices map and the counters are updated atomically under the shard lock, so
   per id the outcomes of inserts and removes linearize at that step by construction
   (LenOK).  What is not protected is the entry point hand-over: TLC shows that with
   two writers the index can become quiescent with a tombstoned or nil entry point
   although items are stored (QuiescentEpLive); with a single writer and any number
   of readers - the way the server uses the index - it cannot. *)
EXTENDS Integers, Sequences, FiniteSets, TLC
CONSTANTS StartFiltered,
          SafeHandOver,               \* TRUE: hand-over re-validated, a stored vertex adopts an empty index (repaired); FALSE: as shipped
          Threads, Prog, Initial     \* Prog : [Threads -> <<op, v>>], Initial: vertices stored before the threads start
Nil == 0
VARIABLES stored, del, ep, nbr, len, pc, loc, seen, cur, del0
vars == <<stored, del, ep, nbr, len, pc, loc, seen, cur, del0>>
Vs == {Prog[t][2] : t \in Threads} \cup Initial

Init == /\ stored = Initial /\ del = {} /\ len = Cardinality(Initial)
        /\ ep = IF Initial = {} THEN Nil ELSE CHOOSE v \in Initial : TRUE
        /\ nbr = [v \in Vs |-> IF v \in Initial THEN Initial \ {v} ELSE {}]
        /\ pc = [t \in Threads |-> Prog[t][1] \o ".0"] /\ loc = [t \in Threads |-> Nil]
        /\ seen = [t \in Threads |-> {}] /\ cur = [t \in Threads |-> Prog[t][2]]
        /\ del0 = [t \in Threads |-> {}]
Op(t) == Prog[t][1]
V(t) == Prog[t][2]
Goto(t, l) == pc' = [pc EXCEPT ![t] = l]

\* ---- Insert
Ins0(t) == /\ pc[t] = "ins.0"          \* read ep, then store (the store is atomic under the shard lock)
           /\ stored' = stored \cup {V(t)} /\ len' = len + 1
           /\ Goto(t, IF ep = Nil THEN "ins.cas" ELSE "ins.load")
           /\ UNCHANGED <<del, ep, nbr, loc, seen, cur, del0>>
InsCas(t) == /\ pc[t] = "ins.cas"
             /\ IF ep = Nil THEN ep' = V(t) /\ Goto(t, "done") ELSE UNCHANGED ep /\ Goto(t, "ins.load")
             /\ UNCHANGED <<stored, del, nbr, len, loc, seen, cur, del0>>
InsLoad(t) == /\ pc[t] = "ins.load"
              /\ IF ep # Nil
                 THEN loc' = [loc EXCEPT ![t] = ep] /\ Goto(t, "ins.link") /\ UNCHANGED ep
                 ELSE /\ SafeHandOver            \* as shipped: a nil dereference (NoNilDeref), the thread is stuck here
                      /\ ep' = V(t) /\ Goto(t, "done") /\ UNCHANGED loc
              /\ UNCHANGED <<stored, del, nbr, len, seen, cur, del0>>
InsLink(t) == /\ pc[t] = "ins.link"
              /\ LET ns == {n \in stored \ {V(t)} : n \notin del} \cup {loc[t]}
                 IN nbr' = [v \in Vs |-> IF v = V(t) THEN ns ELSE IF v \in ns THEN nbr[v] \cup {V(t)} ELSE nbr[v]]
              /\ IF SafeHandOver /\ ep = Nil THEN ep' = V(t) ELSE UNCHANGED ep
              /\ Goto(t, "done") /\ UNCHANGED <<stored, del, len, loc, seen, cur, del0>>
\* ---- Remove
Rem0(t) == /\ pc[t] = "rem.0"
           /\ IF V(t) \in stored
              THEN /\ stored' = stored \ {V(t)} /\ del' = del \cup {V(t)} /\ len' = len - 1 /\ Goto(t, "rem.load")
              ELSE /\ UNCHANGED <<stored, del, len, cur, del0>> /\ Goto(t, "done")      \* not found
           /\ UNCHANGED <<ep, nbr, loc, seen, cur, del0>>
RemLoad(t) == /\ pc[t] = "rem.load"
              /\ IF ep = cur[t]
                 THEN LET c == {n \in nbr[cur[t]] : n \notin del}
                      IN /\ loc' = [loc EXCEPT ![t] = IF c # {} THEN CHOOSE n \in c : TRUE
                                                      ELSE IF stored # {} THEN CHOOSE n \in stored : TRUE ELSE Nil]
                         /\ Goto(t, "rem.cas")
                 ELSE /\ UNCHANGED loc /\ Goto(t, "rem.unlink")
              /\ UNCHANGED <<stored, del, ep, nbr, len, seen, cur, del0>>
RemCas(t) == /\ pc[t] = "rem.cas"
             /\ IF ep = cur[t]
                THEN /\ ep' = IF SafeHandOver /\ loc[t] = Nil /\ stored # {} THEN CHOOSE n \in stored : TRUE ELSE loc[t]   \* repaired: re-scan after a nil hand-over
                     \* repaired: the chosen vertex may have been removed meanwhile - hand over again, from it
                     /\ IF SafeHandOver /\ loc[t] # Nil /\ loc[t] \in del
                        THEN cur' = [cur EXCEPT ![t] = loc[t]] /\ Goto(t, "rem.load")
                        ELSE UNCHANGED cur /\ Goto(t, "rem.unlink")
                ELSE UNCHANGED <<ep, cur, del0>> /\ Goto(t, "rem.unlink")
             /\ UNCHANGED <<stored, del, nbr, len, loc, seen, del0>>
RemUnlink(t) == /\ pc[t] = "rem.unlink"
                /\ nbr' = [v \in Vs |-> IF v \in nbr[V(t)] THEN nbr[v] \ {V(t)} ELSE nbr[v]]
                /\ Goto(t, "done") /\ UNCHANGED <<stored, del, ep, len, loc, seen, cur, del0>>
\* ---- Search
Srch0(t) == /\ pc[t] = "search.0"
            /\ loc' = [loc EXCEPT ![t] = ep] /\ Goto(t, IF ep = Nil THEN "done" ELSE "search.1")
            /\ del0' = [del0 EXCEPT ![t] = del]        \* what had been removed when the search began
            /\ UNCHANGED <<stored, del, ep, nbr, len, seen, cur>>
Srch1(t) == /\ pc[t] = "search.1"
            /\ seen' = [seen EXCEPT ![t] = (IF StartFiltered /\ loc[t] \in del THEN {} ELSE {loc[t]}) \cup {n \in nbr[loc[t]] : n \notin del}]
            /\ Goto(t, "done") /\ UNCHANGED <<stored, del, ep, nbr, len, loc, cur, del0>>

Next == \E t \in Threads : Ins0(t) \/ InsCas(t) \/ InsLoad(t) \/ InsLink(t) \/ Rem0(t) \/ RemLoad(t) \/ RemCas(t)
                            \/ RemUnlink(t) \/ Srch0(t) \/ Srch1(t)
Spec == Init /\ [][Next]_vars

Quiescent == \A t \in Threads : pc[t] = "done"
LenOK == len = Cardinality(stored)
QuiescentEpLive == Quiescent => (IF stored = {} THEN TRUE ELSE ep \in stored /\ ep \notin del)
\* a search returns nothing that had already been removed (unstored: the id is free for a new insert) when it began
SearchLive == \A t \in Threads : seen[t] \cap del0[t] = {}
NoNilDeref == SafeHandOver \/ \A t \in Threads : pc[t] = "ins.load" => ep # Nil
\* the only way to be stuck is to be done (no lock is held across steps)
NoDeadlock == ~Quiescent => ENABLED Next
=============================================================================
