SPECIFICATION SpecR
CONSTANTS
  Node = {n1, n2, n3}
  None = none
  Values = {"v1"}
  MaxTerm = 2
  MaxLog = 3
  MaxCrash = 1
  MaxNet = 2
  RestartMode = "restart"
  SendPolicy = "leaderFirst"
SYMMETRY Sym
CONSTRAINT NetBound
INVARIANT NoBad
INVARIANT ElectionSafety
INVARIANT TermNotBelowDurable
CHECK_DEADLOCK FALSE
