SPECIFICATION SpecR
CONSTANTS
  Node = {n1, n2, n3}
  None = none
  Values = {"v1"}
  MaxTerm = 2
  MaxLog = 3
  MaxCrash = 1
  MaxNet = 2
  RestartMode = "restart"
  SendPolicy = "leaderFirst"
  MaxSnap = 1
  SnapLabel = "exact"
SYMMETRY Sym
CONSTRAINT NetBound
INVARIANT NoBad
INVARIANT ElectionSafety
INVARIANT TermNotBelowDurable
INVARIANT SnapshotExact
INVARIANT SmIsPrefix
CHECK_DEADLOCK FALSE
