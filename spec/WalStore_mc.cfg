SPECIFICATION Spec
CONSTANTS
  Groups = {"g1", "g2"}
  MaxIdx = 4
  MaxTerm = 2
  MaxOps = 6
INVARIANTS TypeOK DummyTermKnown TermsMonotone
PROPERTIES Isolation DeleteIsFresh
CHECK_DEADLOCK FALSE
