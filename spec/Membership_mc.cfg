SPECIFICATION Spec
CONSTANTS
  Nodes = {1, 2, 3}
  Boot = 1
  MaxLog = 4
  SnapshotHasBook = TRUE
  BootHasAddr = TRUE
  ForgetClientOnRemove = TRUE
INVARIANTS ViewOK NoDeadClient
CHECK_DEADLOCK FALSE
