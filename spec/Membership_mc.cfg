SPECIFICATION Spec
CONSTANTS
  Nodes = {1, 2, 3}
  Boot = 1
  MaxLog = 4
  SnapshotHasBook = TRUE
  BootHasAddr = TRUE
INVARIANT ViewOK
CHECK_DEADLOCK FALSE
