SPECIFICATION Spec
CONSTANTS
  Nodes = {1, 2, 3}
  Boot = 1
  MaxLog = 5
  SnapshotHasBook = TRUE
  BootHasAddr = TRUE
  ForgetClientOnRemove = TRUE
  AddOverwrites = TRUE
  ClientPerCall = TRUE
  AckOnApply = TRUE
INVARIANTS ViewOK NoDeadClient
CHECK_DEADLOCK FALSE
