---------------------------- MODULE HnswRankDef ----------------------------
(* Default distance-rank table: points 1..5 at positions 0,1,4,9,11 of a Golomb
   ruler, Rank = dense rank of |x - y| (all pairwise differences are distinct, so
   the table is tie-free).  The checks overwrite this module in their scratch
   directory with the table computed from the real distance kernels. *)
RankDef == << <<0, 1, 4, 8, 10>>, <<1, 0, 3, 7, 9>>, <<4, 3, 0, 5, 6>>, <<8, 7, 5, 0, 2>>, <<10, 9, 6, 2, 0>> >>
=============================================================================
