------------------------------ MODULE ConnLocks ------------------------------
(* cluster.Conn has two locks: addressesMu (the address book) and connsMu (the cached gRPC connections).
   Who takes which, in which order (cluster/conn.go):

     AddNode     addressesMu.Lock  [ connsMu.Lock  when a node moved - inside addressesMu ]        (apply loop)
     RemoveNode  addressesMu.Lock  connsMu.Lock  (both held until the function returns)           (apply loop)
     Dial        connsMu.RLock (cache look-up, released)  addressesMu.RLock (address, released)
                 connsMu.Lock (store the new connection, released)  - never two at a time         (any goroutine)
     Nodes       addressesMu.RLock                                                                 (any goroutine)

   The order addressesMu -> connsMu is the only nesting, so there is no cycle.  Switch DialNested = TRUE
   models a Dial that keeps connsMu while it looks the address up (connsMu -> addressesMu): with a
   concurrent RemoveNode that is a lock-order inversion, TLC finds the deadlock - and the zero group's
   apply loop, which calls RemoveNode, never applies another entry (C18).

   Locks are Go's RWMutex: writer-exclusive / reader-shared, and a WAITING writer blocks new readers (wantW).
   That is what makes a read lock taken twice by one goroutine a deadlock: switch NestedRead = TRUE models a
   NodeIds() that ranges over Nodes() while it still holds addressesMu.RLock (Nodes takes it again) - the apply
   loop's AddNode / RemoveNode asks for the write lock in between, the second RLock waits behind it, the
   writer waits for the first.  NestedRead = FALSE (the code): a reader takes the lock once. *)
EXTENDS Integers, FiniteSets, TLC
CONSTANTS Dialers, Readers, DialNested, NestedRead, MaxOps
VARIABLES wr,      \* [lock -> holder or "none"]
          rd,      \* [lock -> set of readers]
          wantW,   \* [lock -> set of procs waiting for the write lock]
          pc,      \* [proc -> label]
          ops      \* operations the apply loop still performs
Locks == {"addr", "conns"}
Procs == Dialers \cup Readers \cup {"apply"}
vars == <<wr, rd, wantW, pc, ops>>

CanW(l, p) == wr[l] = "none" /\ rd[l] = {}
CanR(l, p) == wr[l] = "none" /\ wantW[l] = {}
\* Lock(): either at once, or the caller announces itself (new readers then wait) and gets the lock when it is free
LockW(l, p) == \/ /\ CanW(l, p) /\ wr' = [wr EXCEPT ![l] = p] /\ wantW' = [wantW EXCEPT ![l] = @ \ {p}] /\ rd' = rd
               \/ /\ ~CanW(l, p) /\ p \notin wantW[l] /\ wantW' = [wantW EXCEPT ![l] = @ \cup {p}] /\ UNCHANGED <<wr, rd>> /\ FALSE
Announce(l, p) == ~CanW(l, p) /\ p \notin wantW[l] /\ wantW' = [wantW EXCEPT ![l] = @ \cup {p}] /\ UNCHANGED <<wr, rd>>
UnlockW(l, p) == wr' = [wr EXCEPT ![l] = "none"] /\ rd' = rd /\ wantW' = wantW
\* readers: rd counts per process (a process may hold the read lock twice)
LockR(l, p) == CanR(l, p) /\ rd' = [rd EXCEPT ![l] = @ \cup {p}] /\ wr' = wr /\ wantW' = wantW
UnlockR(l, p) == rd' = [rd EXCEPT ![l] = @ \ {p}] /\ wr' = wr /\ wantW' = wantW

Init == /\ wr = [l \in Locks |-> "none"] /\ rd = [l \in Locks |-> {}] /\ wantW = [l \in Locks |-> {}]
        /\ pc = [p \in Procs |-> "idle"] /\ ops = MaxOps

\* the apply loop: RemoveNode (AddNode of a moved node takes the same two locks in the same order)
Apply ==
  \/ /\ pc["apply"] = "idle" /\ ops > 0 /\ Announce("addr", "apply") /\ UNCHANGED <<pc, ops>>
  \/ /\ pc["apply"] = "hasAddr" /\ Announce("conns", "apply") /\ UNCHANGED <<pc, ops>>
  \/ /\ pc["apply"] = "idle" /\ ops > 0 /\ LockW("addr", "apply") /\ pc' = [pc EXCEPT !["apply"] = "hasAddr"] /\ ops' = ops - 1
  \/ /\ pc["apply"] = "hasAddr" /\ LockW("conns", "apply") /\ pc' = [pc EXCEPT !["apply"] = "hasBoth"] /\ UNCHANGED ops
  \/ /\ pc["apply"] = "hasBoth" /\ UnlockW("conns", "apply") /\ pc' = [pc EXCEPT !["apply"] = "relAddr"] /\ UNCHANGED ops
  \/ /\ pc["apply"] = "relAddr" /\ UnlockW("addr", "apply") /\ pc' = [pc EXCEPT !["apply"] = "idle"] /\ UNCHANGED ops

\* Dial, slow path (no cached connection)
Dial(p) ==
  IF ~DialNested THEN
    \/ /\ pc[p] = "idle" /\ LockR("conns", p) /\ pc' = [pc EXCEPT ![p] = "look"]
    \/ /\ pc[p] = "look" /\ UnlockR("conns", p) /\ pc' = [pc EXCEPT ![p] = "needAddr"]
    \/ /\ pc[p] = "needAddr" /\ LockR("addr", p) /\ pc' = [pc EXCEPT ![p] = "readAddr"]
    \/ /\ pc[p] = "readAddr" /\ UnlockR("addr", p) /\ pc' = [pc EXCEPT ![p] = "needStore"]
    \/ /\ pc[p] = "needStore" /\ Announce("conns", p) /\ pc' = pc
    \/ /\ pc[p] = "needStore" /\ LockW("conns", p) /\ pc' = [pc EXCEPT ![p] = "store"]
    \/ /\ pc[p] = "store" /\ UnlockW("conns", p) /\ pc' = [pc EXCEPT ![p] = "idle"]
  ELSE
    \/ /\ pc[p] = "idle" /\ Announce("conns", p) /\ pc' = pc
    \/ /\ pc[p] = "idle" /\ LockW("conns", p) /\ pc' = [pc EXCEPT ![p] = "needAddr"]
    \/ /\ pc[p] = "needAddr" /\ LockR("addr", p) /\ pc' = [pc EXCEPT ![p] = "readAddr"]
    \/ /\ pc[p] = "readAddr" /\ UnlockR("addr", p) /\ pc' = [pc EXCEPT ![p] = "store"]
    \/ /\ pc[p] = "store" /\ UnlockW("conns", p) /\ pc' = [pc EXCEPT ![p] = "idle"]

\* NodeIds() / Nodes(): a reader of the address book
Read(p) ==
  \/ /\ pc[p] = "idle" /\ LockR("addr", p) /\ pc' = [pc EXCEPT ![p] = IF NestedRead THEN "inner" ELSE "reading"]
  \/ /\ pc[p] = "inner" /\ CanR("addr", p) /\ pc' = [pc EXCEPT ![p] = "reading"] /\ UNCHANGED <<wr, rd, wantW>>   \* the second RLock (and its RUnlock)
  \/ /\ pc[p] = "reading" /\ UnlockR("addr", p) /\ pc' = [pc EXCEPT ![p] = "idle"]

Next == (Apply /\ TRUE) \/ (\E p \in Dialers : (Dial(p) /\ UNCHANGED ops)) \/ (\E p \in Readers : (Read(p) /\ UNCHANGED ops))
Spec == Init /\ [][Next]_vars

\* a lock is never held by a writer and readers at once, nor by two writers (sanity of the lock model)
LockOK == \A l \in Locks : wr[l] # "none" => rd[l] = {}
\* C18: the apply loop is never blocked for good: whenever it waits for a lock, the holder can still move.
\* Checked as absence of deadlock (CHECK_DEADLOCK TRUE) - every dialer cycles for ever, so a state without
\* successor is a wait-for cycle.
=============================================================================
