------------------------------ MODULE ConnLocks ------------------------------
(* cluster.Conn has two locks: addressesMu (the address book) and connsMu (the cached gRPC connections).
   Who takes which, in which order (cluster/conn.go):

     AddNode     addressesMu.Lock  [ connsMu.Lock  when a node moved - inside addressesMu ]        (apply loop)
     RemoveNode  addressesMu.Lock  connsMu.Lock  (both held until the function returns)           (apply loop)
     Dial        connsMu.RLock (cache look-up, released)  addressesMu.RLock (address, released)
                 connsMu.Lock (store the new connection, released)  - never two at a time         (any goroutine)
     Nodes       addressesMu.RLock                                                                 (any goroutine)

   The order addressesMu -> connsMu is the only nesting, so there is no cycle.  Switch DialNested = TRUE
   models a Dial that keeps connsMu while it looks the address up (connsMu -> addressesMu): with a
   concurrent RemoveNode that is a lock-order inversion, TLC finds the deadlock - and the zero group's
   apply loop, which calls RemoveNode, never applies another entry (C18).

   Locks are modelled as writer-exclusive / reader-shared without writer preference (Go's RWMutex blocks
   new readers behind a waiting writer, which only makes more schedules block; the cycle below needs
   neither). *)
EXTENDS Integers, FiniteSets, TLC
CONSTANTS Dialers, DialNested, MaxOps
VARIABLES wr,      \* [lock -> holder or "none"]
          rd,      \* [lock -> set of readers]
          pc,      \* [proc -> label]
          ops      \* operations the apply loop still performs
Locks == {"addr", "conns"}
Procs == Dialers \cup {"apply"}
vars == <<wr, rd, pc, ops>>

CanW(l, p) == wr[l] = "none" /\ rd[l] = {}
CanR(l, p) == wr[l] = "none"
LockW(l, p) == CanW(l, p) /\ wr' = [wr EXCEPT ![l] = p] /\ rd' = rd
UnlockW(l, p) == wr' = [wr EXCEPT ![l] = "none"] /\ rd' = rd
LockR(l, p) == CanR(l, p) /\ rd' = [rd EXCEPT ![l] = @ \cup {p}] /\ wr' = wr
UnlockR(l, p) == rd' = [rd EXCEPT ![l] = @ \ {p}] /\ wr' = wr

Init == /\ wr = [l \in Locks |-> "none"] /\ rd = [l \in Locks |-> {}]
        /\ pc = [p \in Procs |-> "idle"] /\ ops = MaxOps

\* the apply loop: RemoveNode (AddNode of a moved node takes the same two locks in the same order)
Apply ==
  \/ /\ pc["apply"] = "idle" /\ ops > 0 /\ LockW("addr", "apply") /\ pc' = [pc EXCEPT !["apply"] = "hasAddr"] /\ ops' = ops - 1
  \/ /\ pc["apply"] = "hasAddr" /\ LockW("conns", "apply") /\ pc' = [pc EXCEPT !["apply"] = "hasBoth"] /\ UNCHANGED ops
  \/ /\ pc["apply"] = "hasBoth" /\ UnlockW("conns", "apply") /\ pc' = [pc EXCEPT !["apply"] = "relAddr"] /\ UNCHANGED ops
  \/ /\ pc["apply"] = "relAddr" /\ UnlockW("addr", "apply") /\ pc' = [pc EXCEPT !["apply"] = "idle"] /\ UNCHANGED ops

\* Dial, slow path (no cached connection)
Dial(p) ==
  IF ~DialNested THEN
    \/ /\ pc[p] = "idle" /\ LockR("conns", p) /\ pc' = [pc EXCEPT ![p] = "look"]
    \/ /\ pc[p] = "look" /\ UnlockR("conns", p) /\ pc' = [pc EXCEPT ![p] = "needAddr"]
    \/ /\ pc[p] = "needAddr" /\ LockR("addr", p) /\ pc' = [pc EXCEPT ![p] = "readAddr"]
    \/ /\ pc[p] = "readAddr" /\ UnlockR("addr", p) /\ pc' = [pc EXCEPT ![p] = "needStore"]
    \/ /\ pc[p] = "needStore" /\ LockW("conns", p) /\ pc' = [pc EXCEPT ![p] = "store"]
    \/ /\ pc[p] = "store" /\ UnlockW("conns", p) /\ pc' = [pc EXCEPT ![p] = "idle"]
  ELSE
    \/ /\ pc[p] = "idle" /\ LockW("conns", p) /\ pc' = [pc EXCEPT ![p] = "needAddr"]
    \/ /\ pc[p] = "needAddr" /\ LockR("addr", p) /\ pc' = [pc EXCEPT ![p] = "readAddr"]
    \/ /\ pc[p] = "readAddr" /\ UnlockR("addr", p) /\ pc' = [pc EXCEPT ![p] = "store"]
    \/ /\ pc[p] = "store" /\ UnlockW("conns", p) /\ pc' = [pc EXCEPT ![p] = "idle"]

Next == (Apply /\ TRUE) \/ \E p \in Dialers : (Dial(p) /\ UNCHANGED ops)
Spec == Init /\ [][Next]_vars

\* a lock is never held by a writer and readers at once, nor by two writers (sanity of the lock model)
LockOK == \A l \in Locks : wr[l] # "none" => rd[l] = {}
\* C18: the apply loop is never blocked for good: whenever it waits for a lock, the holder can still move.
\* Checked as absence of deadlock (CHECK_DEADLOCK TRUE) - every dialer cycles for ever, so a state without
\* successor is a wait-for cycle.
=============================================================================
