SPECIFICATION Spec
CONSTANTS
  Node = {n1, n2, n3}
  InitMembers = {n1, n2}
  MaxLog = 4
  MaxRestarts = 2
  UpdateOnInstall = TRUE
  RestoreOnRestart = TRUE
  JoinerKnows = TRUE
INVARIANTS TypeOK SnapConfExact LibConfExact HostConfExact NoFork
CHECK_DEADLOCK FALSE
