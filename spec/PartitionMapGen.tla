-------------------------- MODULE PartitionMapGen --------------------------
(* Binding G for C02/C04: every state of the bounded sequential map is emitted
   with the shortest history reaching it; the harness replays the history on
   the real partition state machine and then tries operations of the alphabet
   (all single-item ones, a seeded sample of the batch ones) in that state. *)
EXTENDS PartitionMap, Json
VARIABLE hist
GInit == MInit /\ hist = <<>>
GIns(id, pt, m) == MInsert(id, pt, m) /\ hist' = Append(hist, [op |-> "insert", id |-> id, pt |-> pt, meta |-> m])
GUpd(id, pt, m) == MUpdate(id, pt, m) /\ hist' = Append(hist, [op |-> "update", id |-> id, pt |-> pt, meta |-> m])
GRem(id) == MRemove(id) /\ hist' = Append(hist, [op |-> "remove", id |-> id])
GNext == \/ \E id \in Ids, pt \in Points, m \in Metas : (GIns(id, pt, m) /\ mlast'.res = "ok") \/ (GUpd(id, pt, m) /\ mlast'.res = "ok")
         \/ \E id \in Ids : GRem(id) /\ mlast'.res = "ok"
GSpec == GInit /\ [][GNext]_<<mvars, hist>>
Emit == PrintT(<<"H", ToJson([h |-> hist, n |-> Cardinality(DOMAIN store)])>>)
GView == store
=============================================================================
