---------------------------- MODULE ProposeWaitMC ----------------------------
EXTENDS ProposeWait
OpsDef == [c \in Callers |-> IF c = "a" THEN [op |-> "insert", id |-> 1]
                             ELSE IF c = "b" THEN [op |-> "insert", id |-> 1]
                             ELSE [op |-> "remove", id |-> 1]]
=============================================================================
