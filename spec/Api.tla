--------------------------------- MODULE Api ---------------------------------
(* C12: the request surface as a decision table.  A request is a class of
   (service, method, features); the specification knows which classes are
   well-formed (Valid).  Every request has exactly two allowed outcomes:
       Ok   - the effect is applied (only for valid classes), or
       Err  - nothing changes;
   in both cases the server process stays alive (Alive), and after kill -9 and a
   restart on the same data directory - replaying whatever the request left in the
   logs - it is alive again and serves (ReplayAlive).  A crash, a hang or a start-up
   failure after ANY request sequence is outside the specification.
   Switch Validates = FALSE models handlers that let ill-formed requests through to
   the apply loop: an ill-formed class that reaches the log poisons it. *)
EXTENDS Integers, Sequences, FiniteSets, TLC
CONSTANTS Classes,      \* set of request classes (strings)
          ValidSet,     \* the well-formed ones
          Poisonous,    \* ill-formed classes that fail at apply time if they are proposed
          Crashing,     \* ill-formed classes that fault in the handler if they are not rejected
          Validates, MaxReq
VARIABLES alive, log, outcome, n
vars == <<alive, log, outcome, n>>
Init == alive = TRUE /\ log = <<>> /\ outcome = "none" /\ n = 0
Req(c) ==
  /\ alive /\ n < MaxReq /\ n' = n + 1
  /\ IF c \in ValidSet THEN /\ outcome' = "ok" /\ log' = Append(log, c) /\ alive' = TRUE
     ELSE IF Validates THEN /\ outcome' = "err" /\ UNCHANGED <<log, alive>>
     ELSE IF c \in Crashing THEN /\ outcome' = "crash" /\ alive' = FALSE /\ UNCHANGED log
     ELSE IF c \in Poisonous THEN /\ outcome' = "crash" /\ alive' = FALSE /\ log' = Append(log, c)   \* proposed, then fatal in the apply loop
     ELSE /\ outcome' = "err" /\ UNCHANGED <<log, alive>>
\* kill -9 + restart: every entry of the log is applied again
Restart == /\ n' = n /\ outcome' = "restarted"
           /\ alive' = (\A i \in 1..Len(log) : log[i] \notin Poisonous)
           /\ UNCHANGED log
Next == (\E c \in Classes : Req(c)) \/ Restart
Spec == Init /\ [][Next]_vars
Alive == alive
NoPoison == \A i \in 1..Len(log) : log[i] \in ValidSet
=============================================================================
