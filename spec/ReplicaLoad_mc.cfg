SPECIFICATION Spec
CONSTANTS
  MaxEntries = 5
  LoadOnce = TRUE
INVARIANTS AtMostOneGroup GroupsFollowCatalogue
CHECK_DEADLOCK FALSE
