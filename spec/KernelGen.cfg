SPECIFICATION Spec
CONSTANTS
  W = 8
  U = 4
  MinLen = 1
  MaxLen = 600
  VecBound = "floor"
  TailExit = "eq"
  TailOddFirst = TRUE
INVARIANTS Emit
CHECK_DEADLOCK FALSE
