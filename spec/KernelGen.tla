----------------------------- MODULE KernelGen -----------------------------
(* Binding G for C15: for every length of the bounded universe the plan of loads the kernel
   makes (Kernel.tla) and the order of the horizontal sum are emitted when the call is done;
   the conformance harness (harness/cmd/kern) evaluates the plan in IEEE-754 binary32 and
   compares it bit for bit with what the real kernel returns. *)
EXTENDS Kernel, Json
\* order in which the generated code reduces the accumulator lanes (LBBx_7):
\*   AVX: vhaddps, vhaddps, vextractf128, vaddss = ((l0+l1)+(l2+l3)) + ((l4+l5)+(l6+l7))
\*   SSE: movshdup/addss, unpckhpd/addss, shufps/addss = ((l0+l1)+l2)+l3
HSumShape == IF W = 8 THEN "pair8" ELSE IF W = 4 THEN "seq4" ELSE "seq"   \* W = 1: the portable loop
Emit == pc = "done" => PrintT(<<"K", ToJson([w |-> W, u |-> U, len |-> len, hs |-> HSumShape, plan |-> plan])>>)
=============================================================================
