---------------------------- MODULE HnswConcTrace ----------------------------
(* Binding V for C13: traces of the real index.Hnsw under concurrency.
   quiesce   : the state after all goroutines finished (forced schedule or stress): no panic,
               entry point live (HnswConc!QuiescentEpLive), counter = number of stored items
               (LenOK), every probe search sound w.r.t. the stored items (the C01 checks).
   idhistory : all Insert / Remove calls on one id with their call intervals and outcomes, and
               whether the id is present at the end: the successful inserts and removes must
               balance (a necessary condition of linearizability as a set) and agree with presence.
   search    : one concurrent search with its call interval and, for every id it returned, that
               id's write calls.  A returned item must not be a GHOST: some successful insert of
               the id started before the search ended and was not definitely removed again (a
               successful remove called after that insert returned and finished before the search
               started) - i.e. under SOME linearization the item was live at some instant of the
               search; its score must be the distance to the vector of such an insert.
   pair      : one enumerated two-operation schedule (a writer parked at one of its yield points, a second
               operation run meanwhile, the writer resumed) together with what the same two operations give
               when run one after the other in either order (seq).  Quiescent checks as above, plus: nobody
               hangs; the two outcomes are those of one of the two orders; an item that an exact-match
               search finds after BOTH orders is found after the concurrent run (lost = <<>>). *)
EXTENDS Integers, Sequences, FiniteSets, TLC, Json, HnswRankDef
CONSTANT TraceFile
Trace == ndJsonDeserialize(TraceFile)
VARIABLES l, viol
vars == <<l, viol>>
Rank(p, q) == RankDef[p][q]

LiveAsMap(st) == [i \in {st.live[j].id : j \in 1..Len(st.live)} |->
                    LET j == CHOOSE j \in 1..Len(st.live) : st.live[j].id = i IN st.live[j].pt]
SearchBad(r, s) ==
  LET res == r.res   n == Len(res) IN
  \/ "err" \in DOMAIN r
  \/ \E i \in 1..n : res[i][1] \notin DOMAIN s \/ res[i][2] # Rank(r.q, s[res[i][1]])
  \/ \E i \in 1..(n - 1) : res[i][2] > res[i + 1][2]
  \/ \E i, j \in 1..n : i # j /\ res[i][1] = res[j][1]
  \/ n > r.k
  \/ (DOMAIN s # {} /\ r.k >= 1 /\ n = 0)
QuiesceViol(t) ==
  LET s == LiveAsMap(t.st) IN
  (IF t.panic = "" THEN {} ELSE {<<l, "Panic">>})
  \cup (IF DOMAIN s = {} \/ (Len(t.st.ep) = 4 /\ t.st.ep[2] = 0 /\ t.st.ep[3] = 1 /\ t.st.ep[1] \in DOMAIN s) THEN {} ELSE {<<l, "QuiescentEpLive">>})
  \cup (IF t.st.len = Len(t.st.live) THEN {} ELSE {<<l, "LenMismatch">>})
  \cup (IF \E i \in 1..Len(t.sr) : SearchBad(t.sr[i], s) THEN {<<l, "QuiescentSearch">>} ELSE {})

PairViol(t) ==
  (IF t.hung = 1 THEN {<<l, "Deadlock">>} ELSE {})
  \cup (IF t.skip = 1 THEN {} ELSE QuiesceViol(t))
  \cup (IF t.skip = 1 \/ t.panic # "" \/ \E j \in 1..Len(t.seq) : t.seq[j] = <<t.resw, t.reso>> THEN {} ELSE {<<l, "PairNotLinearizable">>})
  \cup (IF Len(t.lost) = 0 THEN {} ELSE {<<l, "ReachabilityLost">>})

OkCount(ops, kind) == Cardinality({j \in 1..Len(ops) : ops[j][3] = kind /\ ops[j][4] = "ok"})
HistViol(t) ==
  LET d == OkCount(t.ops, "insert") - OkCount(t.ops, "remove") IN
  (IF \E j \in 1..Len(t.ops) : t.ops[j][4] \notin {"ok", "exists", "notfound"} THEN {<<l, "Panic">>} ELSE {})
  \cup (IF d \in {0, 1} /\ ((t.present # 0) <=> (d = 1)) THEN {} ELSE {<<l, "SetHistory">>})

\* insert call o (ok) of this id could account for the item at some instant of the search [s, e]
Candidate(ops, o, s, e) ==
  /\ ops[o][3] = "insert" /\ ops[o][4] = "ok" /\ ops[o][1] <= e
  /\ ~\E r \in 1..Len(ops) : ops[r][3] = "remove" /\ ops[r][4] = "ok" /\ ops[r][1] > ops[o][2] /\ ops[r][2] < s
SearchViol(t) ==
  LET res == t.res   n == Len(res)
      opsOf(i) == t.ops[ToString(res[i][1])]
      cands(i) == {o \in 1..Len(opsOf(i)) : Candidate(opsOf(i), o, t.s, t.e)}
  IN (IF t.err = "" THEN {} ELSE {<<l, "SearchErr">>})
     \cup (IF \A i \in 1..n : cands(i) # {} THEN {} ELSE {<<l, "SearchGhost">>})
     \cup (IF \A i \in 1..n : cands(i) = {} \/ \E o \in cands(i) : res[i][2] = Rank(t.q, opsOf(i)[o][5]) THEN {} ELSE {<<l, "SearchScore">>})
     \cup (IF \A i \in 1..(n - 1) : res[i][2] <= res[i + 1][2] THEN {} ELSE {<<l, "SearchOrder">>})
     \* (the same id twice is possible while a remove + re-insert of it overlaps the search; it is a C01 matter at quiescence)
     \cup (IF n <= t.k THEN {} ELSE {<<l, "SearchK">>})

Init == l = 1 /\ viol = {}
Step == /\ l <= Len(Trace) /\ l' = l + 1
        /\ LET t == Trace[l] IN
           viol' = viol \cup (CASE t.ev = "quiesce" -> QuiesceViol(t) [] t.ev = "pair" -> PairViol(t) [] t.ev = "idhistory" -> HistViol(t) [] t.ev = "search" -> SearchViol(t))
Spec == Init /\ [][Step]_vars
Report == l = Len(Trace) + 1 => PrintT(<<"VIOL", ToJson([n |-> Len(Trace), v |-> viol])>>)
=============================================================================
