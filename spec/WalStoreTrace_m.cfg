SPECIFICATION TSpec
CONSTANTS
  TraceFile = "__TRACE__"
  Which = "m"
  Groups = {"g1", "g2"}
  MaxIdx = 9
  MaxTerm = 9
  MaxOps = 9
INVARIANT Report
CHECK_DEADLOCK FALSE
