SPECIFICATION GSpec
CONSTANTS
  W = {"w1", "w2", "w3"}
  CloseChans = "both"
  Outcomes = {"ok", "err", "slow"}
  LoopVarShared = FALSE
INVARIANT Emit
VIEW GView
CHECK_DEADLOCK FALSE
