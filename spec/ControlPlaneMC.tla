--------------------------- MODULE ControlPlaneMC ---------------------------
EXTENDS ControlPlane
E_conf_create == <<"conf", "create">>
E_create_only == <<"create", "create", "create">>
E_conf_only == <<"conf", "conf", "conf">>
E_churn == <<"create", "conf", "conf", "conf", "conf", "conf">>
E_burst == <<"create", "conf", "create", "conf">>
=============================================================================
