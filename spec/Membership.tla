------------------------------ MODULE Membership ------------------------------
(* C20: every member's view of the cluster membership (cluster.Conn's address book).

   The zero group's log carries Join(n, addr) / Leave(n) configuration changes.  A
   member's address book is fed by (a) applying those entries (AddNode ignores an id
   it already knows with an address, so the first non-empty address wins), (b) the list
   streamed back by the join hand-shake, (c) its own id and address at start-up.
   BootHasAddr says whether the bootstrap node's own entry carries its address (as
   shipped: FALSE - StartNode wrote it without one).  Compaction replaces a prefix
   of the log by a snapshot; SnapshotHasBook says whether the snapshot carries the
   address book (as shipped: FALSE - it holds catalogue data only).  A restart
   rebuilds the book from the snapshot and the remaining entries.

   Being listed is not being reachable: the raft transport keeps one client per peer,
   built on the connection the address book holds; removing a node closes that
   connection.  dead[m] is the set of peers for which member m holds a client on a
   closed connection.  ForgetClientOnRemove says whether applying a Leave also drops
   the client (as shipped: FALSE - a node that leaves and joins again under the same id
   can never be sent a message by the members that knew it before).  A restart of m
   empties dead[m] (new process, new clients).

   (third session) A node that joins again announces a NEW address: addresses are pairs
   <<node, generation>>.  A member that is behind a compacted prefix of another member's log
   does not see the entries, it installs that member's snapshot (InstallSnapshot): the
   address book of the snapshot replaces its own - ids that are not in it are removed
   (Conn.RemoveNode, which does NOT go through the transport: its client for that peer is
   dead unless clients are built per call), ids in it are added with AddNode.  AddOverwrites
   says whether AddNode replaces a different non-empty address (as shipped: FALSE - the first
   address wins, so a member that learns of a re-join from a snapshot keeps the old address);
   ClientPerCall says whether the transport builds its client on the current connection for
   every message (as shipped: FALSE - one cached client per peer id).

   Raft accepts one configuration change at a time: a second one that reaches the leader (Boot stands for
   it) before the leader has APPLIED the previous one is silently replaced by an empty entry.  AckOnApply
   says whether the hand-shake / the removal is acknowledged only once the change has been applied (as
   shipped: FALSE - it was acknowledged when proposed, so JoinDropped acknowledges a join that never
   happens; with TRUE the proposal is repeated until applied, i.e. it is only made when it is not dropped). *)
EXTENDS Integers, Sequences, FiniteSets, TLC
CONSTANTS Nodes, Boot, MaxLog, SnapshotHasBook, BootHasAddr, ForgetClientOnRemove, AddOverwrites, ClientPerCall, AckOnApply
NoAddr == <<0, 0>>

VARIABLES log,      \* Seq([op, n, addr])
          snapIdx,  \* [Nodes -> Nat]: entries <= snapIdx[m] are compacted on member m
          snapBook, \* [Nodes -> book]: the book stored in m's snapshot (empty unless SnapshotHasBook)
          book,     \* [Nodes -> [SUBSET Nodes -> address]]
          applied,  \* [Nodes -> Nat]
          up, members,
          dead,     \* [Nodes -> SUBSET Nodes]: peers for which m's transport holds a client on a closed connection
          gen       \* [Nodes -> Nat]: how often the node has joined; its current address is <<n, gen[n]>>
vars == <<log, snapIdx, snapBook, book, applied, up, members, dead, gen>>
Addr(n) == <<n, gen[n]>>
Empty == [x \in {} |-> 0]
Put(f, x, v) == [y \in DOMAIN f \cup {x} |-> IF y = x THEN v ELSE f[y]]
AddNode(b, n, a) == IF n \in DOMAIN b /\ b[n] # NoAddr /\ ~(AddOverwrites /\ a # NoAddr) THEN b ELSE Put(b, n, a)   \* as shipped: first non-empty address wins
DropNode(b, n) == [y \in DOMAIN b \ {n} |-> b[y]]
\* the leader has a configuration change it has not applied yet: a further one is dropped by raft
Pending == applied[Boot] < Len(log)
StepB(b, e) == IF e.op = "join" THEN AddNode(b, e.n, e.addr) ELSE DropNode(b, e.n)

Init == /\ gen = [m \in Nodes |-> IF m = Boot THEN 1 ELSE 0]
        /\ log = << [op |-> "join", n |-> Boot, addr |-> IF BootHasAddr THEN <<Boot, 1>> ELSE NoAddr] >>
        /\ snapIdx = [m \in Nodes |-> 0] /\ snapBook = [m \in Nodes |-> Empty]
        /\ book = [m \in Nodes |-> IF m = Boot THEN (Boot :> <<Boot, 1>>) ELSE Empty]
        /\ applied = [m \in Nodes |-> 0] /\ up = [m \in Nodes |-> m = Boot] /\ members = {Boot}
        /\ dead = [m \in Nodes |-> {}]
\* the join hand-shake: n asks member m; m proposes Join(n, addr) and streams its book (+ n) back
Join(n, m) == /\ n \notin members /\ m \in members /\ up[m] /\ Len(log) < MaxLog /\ ~Pending
              /\ gen' = [gen EXCEPT ![n] = @ + 1]
              /\ LET a == <<n, gen[n] + 1>> IN
                 /\ log' = Append(log, [op |-> "join", n |-> n, addr |-> a])
                 \* a new process: empty book but for what the member streams back, no clients, nothing applied
                 /\ book' = [book EXCEPT ![n] = [y \in DOMAIN book[m] \cup {n} |-> IF y = n THEN a ELSE book[m][y]]]
              /\ members' = members \cup {n} /\ up' = [up EXCEPT ![n] = TRUE]
              /\ applied' = [applied EXCEPT ![n] = 0] /\ snapIdx' = [snapIdx EXCEPT ![n] = 0]
              /\ snapBook' = [snapBook EXCEPT ![n] = Empty] /\ dead' = [dead EXCEPT ![n] = {}]
\* as shipped: acknowledged although dropped - the node is up and believes it is a member, the log has no entry
JoinDropped(n, m) == /\ ~AckOnApply /\ Pending /\ n \notin members /\ m \in members /\ up[m]
                     /\ gen' = [gen EXCEPT ![n] = @ + 1]
                     /\ book' = [book EXCEPT ![n] = [y \in DOMAIN book[m] \cup {n} |-> IF y = n THEN <<n, gen[n] + 1>> ELSE book[m][y]]]
                     /\ members' = members \cup {n} /\ up' = [up EXCEPT ![n] = TRUE]
                     /\ applied' = [applied EXCEPT ![n] = 0] /\ snapIdx' = [snapIdx EXCEPT ![n] = 0]
                     /\ snapBook' = [snapBook EXCEPT ![n] = Empty] /\ dead' = [dead EXCEPT ![n] = {}]
                     /\ UNCHANGED log
Leave(n) == /\ n \in members /\ n # Boot /\ Len(log) < MaxLog /\ ~Pending
            /\ log' = Append(log, [op |-> "leave", n |-> n, addr |-> NoAddr])
            /\ members' = members \ {n}
            /\ up' = [up EXCEPT ![n] = FALSE]        \* the removed node stops
            /\ UNCHANGED <<snapIdx, snapBook, book, applied, dead, gen>>
Apply(m) == /\ up[m] /\ applied[m] < Len(log)
            /\ applied' = [applied EXCEPT ![m] = @ + 1]
            /\ book' = [book EXCEPT ![m] = StepB(@, log[applied[m] + 1])]
            /\ LET e == log[applied[m] + 1] IN
               dead' = [dead EXCEPT ![m] = IF e.op = "leave" /\ e.n # m /\ e.n \in DOMAIN book[m] /\ ~ForgetClientOnRemove /\ ~ClientPerCall
                                            THEN @ \cup {e.n} ELSE @]
            /\ UNCHANGED <<log, snapIdx, snapBook, up, members, gen>>
Compact(m) == /\ up[m] /\ applied[m] > snapIdx[m]
              /\ snapIdx' = [snapIdx EXCEPT ![m] = applied[m]]
              /\ snapBook' = [snapBook EXCEPT ![m] = IF SnapshotHasBook THEN book[m] ELSE Empty]
              /\ UNCHANGED <<log, book, applied, up, members, dead, gen>>
\* a member behind src's compacted prefix installs src's snapshot (NodesManager.processSnapshot):
\* ids that are not in it are removed - directly on the Conn, not through the transport -, the others added
SnapInstall(b, sb, self) ==
  LET kept == [y \in {x \in DOMAIN b : x \in DOMAIN sb \/ x = self} |-> b[y]]
      ids  == DOMAIN kept \cup DOMAIN sb
  IN  [y \in ids |-> IF y \in DOMAIN sb THEN (IF y \in DOMAIN kept THEN AddNode(kept, y, sb[y])[y] ELSE sb[y]) ELSE kept[y]]
InstallSnapshot(m, src) ==
              /\ up[m] /\ up[src] /\ m # src /\ SnapshotHasBook /\ applied[m] < snapIdx[src]
              /\ book' = [book EXCEPT ![m] = SnapInstall(@, snapBook[src], m)]
              /\ applied' = [applied EXCEPT ![m] = snapIdx[src]]
              /\ snapIdx' = [snapIdx EXCEPT ![m] = snapIdx[src]]
              /\ snapBook' = [snapBook EXCEPT ![m] = snapBook[src]]
              /\ dead' = [dead EXCEPT ![m] = IF ClientPerCall THEN @
                                            ELSE @ \cup {x \in DOMAIN book[m] : x # m /\ x \notin DOMAIN snapBook[src]}
                                                   \cup {x \in DOMAIN book[m] \cap DOMAIN snapBook[src] : x # m /\ AddOverwrites /\ book[m][x] # NoAddr /\ book[m][x] # snapBook[src][x]}]
              /\ UNCHANGED <<log, up, members, gen>>
\* restart: own entry, then snapshot, then the entries after it are replayed by Apply
Restart(m) == /\ up[m]
              /\ book' = [book EXCEPT ![m] = IF m \in DOMAIN snapBook[m] /\ snapBook[m][m] # NoAddr THEN snapBook[m] ELSE Put(snapBook[m], m, Addr(m))]
              /\ applied' = [applied EXCEPT ![m] = snapIdx[m]]
              /\ dead' = [dead EXCEPT ![m] = {}]
              /\ UNCHANGED <<log, snapIdx, snapBook, up, members, gen>>
Next == \/ \E n, m \in Nodes : Join(n, m) \/ JoinDropped(n, m)
        \/ \E n, m \in Nodes : InstallSnapshot(n, m)
        \/ \E n \in Nodes : Leave(n) \/ Apply(n) \/ Compact(n) \/ Restart(n)
Spec == Init /\ [][Next]_vars

\* C20: a member that has applied the whole log lists exactly the members, each with a usable address
Caught(m) == up[m] /\ m \in members /\ applied[m] = Len(log)
ViewOK == \A m \in Nodes : Caught(m) => (DOMAIN book[m] = members /\ \A n \in members : book[m][n] = Addr(n))
\* a member can be sent messages by every other member: nobody holds a dead client for it
NoDeadClient == \A m \in members : \A n \in members : n \notin dead[m]
\* weaker: ids only (what holds even as shipped for nodes that never restart after a compaction)
IdsOK == \A m \in Nodes : Caught(m) => members \subseteq DOMAIN book[m]
=============================================================================
