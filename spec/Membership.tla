------------------------------ MODULE Membership ------------------------------
(* C20: every member's view of the cluster membership (cluster.Conn's address book).

   The zero group's log carries Join(n, addr) / Leave(n) configuration changes.  A
   member's address book is fed by (a) applying those entries (AddNode ignores an id
   it already knows with an address, so the first non-empty address wins), (b) the list
   streamed back by the join hand-shake, (c) its own id and address at start-up.
   BootHasAddr says whether the bootstrap node's own entry carries its address (as
   shipped: FALSE - StartNode wrote it without one).  Compaction replaces a prefix
   of the log by a snapshot; SnapshotHasBook says whether the snapshot carries the
   address book (as shipped: FALSE - it holds catalogue data only).  A restart
   rebuilds the book from the snapshot and the remaining entries.

   Being listed is not being reachable: the raft transport keeps one client per peer,
   built on the connection the address book holds; removing a node closes that
   connection.  dead[m] is the set of peers for which member m holds a client on a
   closed connection.  ForgetClientOnRemove says whether applying a Leave also drops
   the client (as shipped: FALSE - a node that leaves and joins again under the same id
   can never be sent a message by the members that knew it before).  A restart of m
   empties dead[m] (new process, new clients). *)
EXTENDS Integers, Sequences, FiniteSets, TLC
CONSTANTS Nodes, Boot, MaxLog, SnapshotHasBook, BootHasAddr, ForgetClientOnRemove
NoAddr == 0
Addr(n) == n     \* the address a node announces is identified with the node

VARIABLES log,      \* Seq([op, n, addr])
          snapIdx,  \* [Nodes -> Nat]: entries <= snapIdx[m] are compacted on member m
          snapBook, \* [Nodes -> book]: the book stored in m's snapshot (empty unless SnapshotHasBook)
          book,     \* [Nodes -> [SUBSET Nodes -> address]]
          applied,  \* [Nodes -> Nat]
          up, members,
          dead      \* [Nodes -> SUBSET Nodes]: peers for which m's transport holds a client on a closed connection
vars == <<log, snapIdx, snapBook, book, applied, up, members, dead>>
Empty == [x \in {} |-> 0]
Put(f, x, v) == [y \in DOMAIN f \cup {x} |-> IF y = x THEN v ELSE f[y]]
AddNode(b, n, a) == IF n \in DOMAIN b /\ b[n] # NoAddr THEN b ELSE Put(b, n, a)   \* first non-empty address wins
DropNode(b, n) == [y \in DOMAIN b \ {n} |-> b[y]]
StepB(b, e) == IF e.op = "join" THEN AddNode(b, e.n, e.addr) ELSE DropNode(b, e.n)

Init == /\ log = << [op |-> "join", n |-> Boot, addr |-> IF BootHasAddr THEN Addr(Boot) ELSE NoAddr] >>
        /\ snapIdx = [m \in Nodes |-> 0] /\ snapBook = [m \in Nodes |-> Empty]
        /\ book = [m \in Nodes |-> IF m = Boot THEN (Boot :> Addr(Boot)) ELSE Empty]
        /\ applied = [m \in Nodes |-> 0] /\ up = [m \in Nodes |-> m = Boot] /\ members = {Boot}
        /\ dead = [m \in Nodes |-> {}]
\* the join hand-shake: n asks member m; m proposes Join(n, addr) and streams its book (+ n) back
Join(n, m) == /\ n \notin members /\ m \in members /\ up[m] /\ Len(log) < MaxLog
              /\ log' = Append(log, [op |-> "join", n |-> n, addr |-> Addr(n)])
              /\ members' = members \cup {n} /\ up' = [up EXCEPT ![n] = TRUE]
              /\ book' = [book EXCEPT ![n] = [y \in DOMAIN book[m] \cup {n} |-> IF y = n THEN Addr(n) ELSE book[m][y]]]
              /\ UNCHANGED <<snapIdx, snapBook, applied, dead>>
Leave(n) == /\ n \in members /\ n # Boot /\ Len(log) < MaxLog
            /\ log' = Append(log, [op |-> "leave", n |-> n, addr |-> NoAddr])
            /\ members' = members \ {n}
            /\ UNCHANGED <<snapIdx, snapBook, book, applied, up, dead>>
Apply(m) == /\ up[m] /\ applied[m] < Len(log)
            /\ applied' = [applied EXCEPT ![m] = @ + 1]
            /\ book' = [book EXCEPT ![m] = StepB(@, log[applied[m] + 1])]
            /\ LET e == log[applied[m] + 1] IN
               dead' = [dead EXCEPT ![m] = IF e.op = "leave" /\ e.n # m /\ e.n \in DOMAIN book[m] /\ ~ForgetClientOnRemove
                                            THEN @ \cup {e.n} ELSE @]
            /\ UNCHANGED <<log, snapIdx, snapBook, up, members>>
Compact(m) == /\ up[m] /\ applied[m] > snapIdx[m]
              /\ snapIdx' = [snapIdx EXCEPT ![m] = applied[m]]
              /\ snapBook' = [snapBook EXCEPT ![m] = IF SnapshotHasBook THEN book[m] ELSE Empty]
              /\ UNCHANGED <<log, book, applied, up, members, dead>>
\* restart: own entry, then snapshot, then the entries after it are replayed by Apply
Restart(m) == /\ up[m]
              /\ book' = [book EXCEPT ![m] = AddNode(snapBook[m], m, Addr(m))]
              /\ applied' = [applied EXCEPT ![m] = snapIdx[m]]
              /\ dead' = [dead EXCEPT ![m] = {}]
              /\ UNCHANGED <<log, snapIdx, snapBook, up, members>>
Next == \/ \E n, m \in Nodes : Join(n, m)
        \/ \E n \in Nodes : Leave(n) \/ Apply(n) \/ Compact(n) \/ Restart(n)
Spec == Init /\ [][Next]_vars

\* C20: a member that has applied the whole log lists exactly the members, each with a usable address
Caught(m) == up[m] /\ m \in members /\ applied[m] = Len(log)
ViewOK == \A m \in Nodes : Caught(m) => (DOMAIN book[m] = members /\ \A n \in members : book[m][n] = Addr(n))
\* a member can be sent messages by every other member: nobody holds a dead client for it
NoDeadClient == \A m \in members : \A n \in members : n \notin dead[m]
\* weaker: ids only (what holds even as shipped for nodes that never restart after a compaction)
IdsOK == \A m \in Nodes : Caught(m) => members \subseteq DOMAIN book[m]
=============================================================================
