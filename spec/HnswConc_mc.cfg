SPECIFICATION Spec
CONSTANTS
  SafeHandOver = TRUE
  StartFiltered = TRUE
  Threads = {"t1", "t2", "t3"}
  Prog <- P_writer_readers
  Initial <- I3
INVARIANTS LenOK QuiescentEpLive NoNilDeref SearchLive
CHECK_DEADLOCK FALSE
