SPECIFICATION Spec
CONSTANTS
  SafeHandOver = TRUE
  Threads = {"t1", "t2", "t3"}
  Prog <- P_writer_readers
  Initial <- I3
INVARIANTS LenOK QuiescentEpLive NoNilDeref
CHECK_DEADLOCK FALSE
