------------------------------ MODULE HnswGen ------------------------------
(* Binding G for the index family: every state of the bounded Hnsw universe is
   emitted with the shortest operation history reaching it and the model's
   projection of that state (objects, links, entry point, counters and the
   answer to every probe search). *)
EXTENDS HnswMC, Json, SequencesExt
VARIABLE hist
GInit == MCInit /\ hist = <<>>
GNext == MCNext /\ hist' = Append(hist, last')
GSpec == GInit /\ [][GNext]_<<vars, nops, hist>>
KSeq == SetToSeq(Ks)
Proj == [ep |-> ep, nv |-> nv, len |-> len, bytes |-> bytes,
         vt |-> [h \in 1..nv |-> [id |-> vtx[h].id, pt |-> vtx[h].pt, lvl |-> vtx[h].lvl, meta |-> vtx[h].meta, del |-> vtx[h].del]],
         ed |-> [h \in 1..nv |-> [l \in 1..(MaxLevel + 1) |-> edges[h][l - 1]]],
         sr |-> [q \in Points |-> [i \in 1..Len(KSeq) |-> [k |-> KSeq[i], r |-> SearchSet(q, KSeq[i])]]]]
Emit == PrintT(<<"H", ToJson([h |-> hist, st |-> Proj])>>)
GView == <<vtx, nv, edges, live, ep, len, bytes>>
=============================================================================
