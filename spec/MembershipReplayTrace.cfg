SPECIFICATION Spec
CONSTANT TraceFile = "__TRACE__"
INVARIANT Report
CHECK_DEADLOCK FALSE
