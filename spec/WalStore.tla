------------------------------ MODULE WalStore ------------------------------
(* C06: the raft Storage contract as anndb uses it (storage/wal/interface.go),
   for several raft groups in one key space.

   The per-group state and the query operators are a transcription of
   etcd/raft's reference MemoryStorage (ents[1] is the dummy entry at the
   snapshot index).  The calls are those of storage/wal:
     Save(hs, ents, snap)      == ApplySnapshot ; Append ; SetHardState   (order of the Ready contract)
     CreateSnapshot(i, cs, d)  == CreateSnapshot ; Compact
     DeleteGroup               == back to the fresh state
     Reopen                    == identity on the abstract state (new instance, cold cache)
   A call's legality (what the raft library may issue) is its enabling condition.
   Entries carry an abstract size of one unit; Entries(lo, hi, max) takes max in units. *)
EXTENDS Integers, Sequences, FiniteSets, TLC

CONSTANTS Groups, MaxIdx, MaxTerm, MaxOps

VARIABLES off,    \* [Groups -> Nat]            index of the dummy entry (= snapshot index)
          ents,   \* [Groups -> Seq(1..MaxTerm)] terms, ents[g][1] is the dummy
          snap,   \* [Groups -> [idx, term, data]]  data: "" none, "s" received, "c" created locally
          hs,     \* [Groups -> 0..3]            abstract hard state (0 = never saved)
          nops, lastop
vars == <<off, ents, snap, hs, nops, lastop>>

NoSnap == [idx |-> 0, term |-> 0, data |-> ""]

\* ---- queries (MemoryStorage) -------------------------------------------------
First(g) == off[g] + 1
Last(g)  == off[g] + Len(ents[g]) - 1
TermAt(g, i) == ents[g][i - off[g] + 1]
\* Term(i): <<term, code>>
Term(g, i) == IF i < off[g] THEN <<0, "compacted">>
              ELSE IF i > Last(g) THEN <<0, "unavailable">>
              ELSE <<TermAt(g, i), "ok">>
\* Entries(lo, hi, max): <<indices, code>>; max in units, -1 = no limit
Entries(g, lo, hi, max) ==
  IF lo <= off[g] THEN <<<<>>, "compacted">>
  ELSE IF hi > Last(g) + 1 THEN <<<<>>, "unavailable">>     \* MemoryStorage panics here; callers never do it
  ELSE LET n == hi - lo
           k == IF max < 0 THEN n ELSE IF max < 1 THEN 1 ELSE IF max < n THEN max ELSE n
       IN <<[j \in 1..k |-> lo + j - 1], "ok">>

\* ---- calls -------------------------------------------------------------------
Init == /\ off = [g \in Groups |-> 0] /\ ents = [g \in Groups |-> <<0>>]
        /\ snap = [g \in Groups |-> NoSnap] /\ hs = [g \in Groups |-> 0]
        /\ nops = 0 /\ lastop = [op |-> "init"]

Op(o) == nops < MaxOps /\ nops' = nops + 1 /\ lastop' = o

\* non-decreasing terms, at least the term before the batch, at most two entries per batch
BatchSet(prevT) == {<<t>> : t \in prevT..MaxTerm} \cup UNION {{<<t1, t2>> : t2 \in t1..MaxTerm} : t1 \in prevT..MaxTerm}
NextHs(h) == IF h >= 3 THEN 1 ELSE h + 1

\* Save with entries (possibly overwriting a conflicting suffix) and/or a hard state
SaveEntries(g) ==
  \E start \in First(g)..(Last(g) + 1), withHs \in BOOLEAN :
    LET prevT == TermAt(g, start - 1) IN
    \E b \in BatchSet(IF prevT = 0 THEN 1 ELSE prevT) :
      /\ start + Len(b) - 1 <= MaxIdx
      /\ ents' = [ents EXCEPT ![g] = SubSeq(@, 1, start - off[g]) \o b]
      /\ hs' = [hs EXCEPT ![g] = IF withHs THEN NextHs(@) ELSE @]
      /\ UNCHANGED <<off, snap>>
      /\ Op([op |-> "save", g |-> g, start |-> start, terms |-> b, hs |-> IF withHs THEN hs'[g] ELSE 0, sidx |-> 0, sterm |-> 0])
SaveHardState(g) ==
      /\ hs' = [hs EXCEPT ![g] = NextHs(@)]
      /\ UNCHANGED <<off, ents, snap>>
      /\ Op([op |-> "save", g |-> g, start |-> 0, terms |-> <<>>, hs |-> hs'[g], sidx |-> 0, sterm |-> 0])
\* Save with a received snapshot (newer than the current one and not matching an entry the log
\* already holds - raft fast-forwards the commit index in that case), optionally with the next entry
SaveSnapshot(g) ==
  \E i \in (snap[g].idx + 1)..MaxIdx, t \in 1..MaxTerm, withEnt \in BOOLEAN :
      /\ ((i <= Last(g) /\ i >= off[g]) => TermAt(g, i) # t)
      /\ (withEnt => i + 1 <= MaxIdx)
      /\ snap' = [snap EXCEPT ![g] = [idx |-> i, term |-> t, data |-> "s"]]
      /\ off' = [off EXCEPT ![g] = i]
      /\ ents' = [ents EXCEPT ![g] = IF withEnt THEN <<t, t>> ELSE <<t>>]
      /\ UNCHANGED hs
      /\ Op([op |-> "save", g |-> g, start |-> IF withEnt THEN i + 1 ELSE 0, terms |-> IF withEnt THEN <<t>> ELSE <<>>,
             hs |-> 0, sidx |-> i, sterm |-> t])
\* local snapshot + compaction at an applied index
Compact(g) ==
  \E i \in (snap[g].idx + 1)..Last(g) :
      /\ i >= First(g)
      /\ snap' = [snap EXCEPT ![g] = [idx |-> i, term |-> TermAt(g, i), data |-> "c"]]
      /\ off' = [off EXCEPT ![g] = i]
      /\ ents' = [ents EXCEPT ![g] = SubSeq(@, i - off[g] + 1, Len(@))]
      /\ UNCHANGED hs
      /\ Op([op |-> "compact", g |-> g, idx |-> i])
Reopen(g) == /\ lastop.op # "reopen" /\ nops > 0
             /\ UNCHANGED <<off, ents, snap, hs>> /\ Op([op |-> "reopen", g |-> g])
Delete(g) == /\ (Last(g) > 0 \/ snap[g].idx > 0 \/ hs[g] > 0)
             /\ off' = [off EXCEPT ![g] = 0] /\ ents' = [ents EXCEPT ![g] = <<0>>]
             /\ snap' = [snap EXCEPT ![g] = NoSnap] /\ hs' = [hs EXCEPT ![g] = 0]
             /\ Op([op |-> "delete", g |-> g])

Next == \E g \in Groups : SaveEntries(g) \/ SaveHardState(g) \/ SaveSnapshot(g) \/ Compact(g) \/ Reopen(g) \/ Delete(g)
Spec == Init /\ [][Next]_vars

-----------------------------------------------------------------------------
\* what the raft library relies on
TypeOK == \A g \in Groups : off[g] = snap[g].idx /\ Len(ents[g]) >= 1 /\ (snap[g].idx > 0 => ents[g][1] = snap[g].term)
DummyTermKnown == \A g \in Groups : Term(g, First(g) - 1)[2] = "ok"
TermsMonotone == \A g \in Groups : \A i \in 2..(Len(ents[g]) - 1) : ents[g][i] <= ents[g][i + 1]
\* groups never see each other's data: a call on g leaves every other group's state alone
Isolation == [][\A g \in Groups : (lastop'.op # "init" /\ nops' = nops + 1 /\ lastop'.g # g) =>
                   (off'[g] = off[g] /\ ents'[g] = ents[g] /\ snap'[g] = snap[g] /\ hs'[g] = hs[g])]_vars
\* deleting a group leaves a fresh store
DeleteIsFresh == [][\A g \in Groups : (nops' = nops + 1 /\ lastop'.op = "delete" /\ lastop'.g = g) =>
                   (off'[g] = 0 /\ ents'[g] = <<0>> /\ snap'[g].idx = 0 /\ hs'[g] = 0)]_vars
View == <<off, ents, snap, hs, lastop.op>>
=============================================================================
