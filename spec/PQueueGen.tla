----------------------------- MODULE PQueueGen -----------------------------
(* Binding G for C19: every state of the bounded PQueue universe is emitted
   with the shortest operation history reaching it and the model's projection
   (per queue: kind and the live prefix of the backing array). *)
EXTENDS PQueueMC, Json
VARIABLE hist
GInit == Init /\ hist = << [op |-> "new", kind |-> last.kind, items |-> [i \in 1..Len(last.items) |-> [p |-> last.items[i][1], t |-> last.items[i][2]]]] >>
Rec == IF last'.op = "push" THEN [op |-> "push", q |-> last'.q, p |-> last'.it[1], t |-> last'.it[2]]
       ELSE IF last'.op \in {"pop", "peek"} THEN [op |-> last'.op, q |-> last'.q, p |-> last'.it[1], t |-> last'.it[2]]
       ELSE [op |-> "reverse", q |-> last'.q]
GNext == Next /\ hist' = Append(hist, Rec)
GSpec == GInit /\ [][GNext]_<<vars, hist>>
Proj == [q \in 1..Len(qs) |-> [kind |-> qs[q].kind,
          arr |-> [i \in 1..qs[q].len |-> <<arrs[qs[q].arr][i][1], arrs[qs[q].arr][i][2]>>]]]
Emit == PrintT(<<"H", ToJson([h |-> hist, st |-> Proj])>>)
GView == <<arrs, qs, bags, last>>
=============================================================================
