------------------------------- MODULE Kernel -------------------------------
(***************************************************************************)
(* Loop structure of the hand-vectorised distance kernels of anndb         *)
(* (simd/cpp/avx.cpp, simd/cpp/sse.cpp as compiled into                    *)
(* simd/avx/AVX_amd64.s, simd/sse/SSE_amd64.s) - property C15.             *)
(*                                                                         *)
(* One behaviour = one call of a kernel on two vectors of `len` floats.    *)
(* The model follows the generated assembly block by block:                *)
(*                                                                         *)
(*   Entry      r8 = len & -W ; nblk = len \div W                          *)
(*   Unrolled   (LBBx_13) U vector loads of W lanes per iteration, taken   *)
(*              nblk \div U times when nblk >= U                           *)
(*   Single     (LBBx_6)  one vector load per iteration, nblk % U times    *)
(*   HSum       (LBBx_7)  horizontal sum of the W accumulator lanes        *)
(*   TailOdd    one scalar element when len is odd ("test dil,1")          *)
(*   TailPair   (LBBx_14) two scalar elements per iteration until the      *)
(*              index EQUALS len ("cmp rdi,rax / jne": termination and     *)
(*              bounds rest on the parity argument, which TLC checks)      *)
(*                                                                         *)
(* What a step touches is recorded in `plan`, a run-length sequence of     *)
(* [ph, at, w, n] = n consecutive loads of w floats starting at index at.  *)
(* The plan is also the summation order: vector loads accumulate lane-wise *)
(* into one accumulator (lane j sums the indices congruent j modulo W in   *)
(* increasing order), HSum reduces the lanes in the order HSumShape, the   *)
(* tail adds scalars in increasing index order.  The conformance harness   *)
(* evaluates this plan in IEEE-754 binary32 and compares bit for bit with  *)
(* what the real kernel returns.                                           *)
(*                                                                         *)
(* Switches (the shipped position is the first one):                       *)
(*   VecBound  "floor" | "ceil"  - number of vector blocks: len \div W, or *)
(*             the blocks a loop `for i < len; i += W` would take          *)
(*   TailExit  "eq" | "lt"       - TailPair leaves on equality / on i>=len *)
(*   TailOddFirst TRUE | FALSE   - the odd element is peeled off first     *)
(***************************************************************************)
EXTENDS Integers, Sequences, FiniteSets, TLC

CONSTANTS W,            \* vector width in floats: 8 (AVX), 4 (SSE)
          U,            \* unroll factor of the main vector loop: 4 (euclidean), 2 (manhattan, cosine)
          MinLen, MaxLen,   \* lengths MinLen..MaxLen
          VecBound, TailExit, TailOddFirst

VARIABLES len, pc, i, t, todo, plan
vars == <<len, pc, i, t, todo, plan>>

Blocks(n) == IF VecBound = "floor" THEN n \div W ELSE (n + W - 1) \div W

Push(p, ph, at, w) ==
  IF Len(p) > 0 /\ p[Len(p)].ph = ph /\ p[Len(p)].w = w /\ p[Len(p)].at + p[Len(p)].w * p[Len(p)].n = at
  THEN [p EXCEPT ![Len(p)].n = @ + 1]
  ELSE Append(p, [ph |-> ph, at |-> at, w |-> w, n |-> 1])

Init == /\ len \in MinLen..MaxLen
        /\ pc = "entry" /\ i = 0 /\ t = 0 /\ todo = 0 /\ plan = <<>>

Entry == /\ pc = "entry"
         /\ LET nb == Blocks(len) IN
            IF nb = 0 THEN pc' = "hsum" /\ todo' = 0
            ELSE IF nb >= U THEN pc' = "unrolled" /\ todo' = nb \div U
            ELSE pc' = "single" /\ todo' = nb % U
         /\ UNCHANGED <<len, i, t, plan>>

RECURSIVE PushN(_, _, _, _, _)
PushN(p, ph, at, w, k) == IF k = 0 THEN p ELSE PushN(Push(p, ph, at, w), ph, at + w, w, k - 1)

Unrolled == /\ pc = "unrolled" /\ todo > 0
            /\ plan' = PushN(plan, "vec", i, W, U)
            /\ i' = i + U * W
            /\ IF todo > 1 THEN pc' = pc /\ todo' = todo - 1
               ELSE IF Blocks(len) % U # 0 THEN pc' = "single" /\ todo' = Blocks(len) % U
               ELSE pc' = "hsum" /\ todo' = 0
            /\ UNCHANGED <<len, t>>

Single == /\ pc = "single" /\ todo > 0
          /\ plan' = Push(plan, "vec", i, W)
          /\ i' = i + W
          /\ todo' = todo - 1
          /\ pc' = IF todo = 1 THEN "hsum" ELSE pc
          /\ UNCHANGED <<len, t>>

\* the tail index is NOT the vector loops' index: it is recomputed from len (movsxd rax, r8d)
HSum == /\ pc = "hsum"
        /\ t' = W * (len \div W)
        /\ pc' = IF W * (len \div W) >= len THEN "done"
                 ELSE IF TailOddFirst /\ len % 2 = 1 THEN "tailodd" ELSE "tailpair"
        /\ UNCHANGED <<len, i, todo, plan>>

TailOdd == /\ pc = "tailodd"
           /\ plan' = Push(plan, "tail", t, 1)
           /\ t' = t + 1            \* or rax, 1 : t is a multiple of W, hence even
           /\ pc' = IF t + 1 = len THEN "done" ELSE "tailpair"     \* add r8, rdi ; je done
           /\ UNCHANGED <<len, i, todo>>

TailPair == /\ pc = "tailpair"
            /\ plan' = Push(Push(plan, "tail", t, 1), "tail", t + 1, 1)
            /\ t' = t + 2
            /\ pc' = IF (TailExit = "eq" /\ t + 2 = len) \/ (TailExit = "lt" /\ t + 2 >= len) THEN "done" ELSE pc
            /\ UNCHANGED <<len, i, todo>>

Done == pc = "done" /\ UNCHANGED vars

Next == Entry \/ Unrolled \/ Single \/ HSum \/ TailOdd \/ TailPair \/ Done
Spec == Init /\ [][Next]_vars /\ WF_vars(Entry \/ Unrolled \/ Single \/ HSum \/ TailOdd \/ TailPair)

-----------------------------------------------------------------------------
End(r) == r.at + r.w * r.n

TypeOK == /\ len \in MinLen..MaxLen /\ i \in Nat /\ t \in Nat /\ todo \in Nat
          /\ pc \in {"entry", "unrolled", "single", "hsum", "tailodd", "tailpair", "done"}

\* no load touches an index outside [0, len) - in every state, i.e. also transiently
InBounds == \A k \in 1..Len(plan) : plan[k].at >= 0 /\ End(plan[k]) <= len

\* the loads are contiguous and increasing: nothing read twice, nothing skipped so far
Contiguous == /\ Len(plan) > 0 => plan[1].at = 0
              /\ \A k \in 1..Len(plan) - 1 : End(plan[k]) = plan[k + 1].at

\* when the vector phases end, they end exactly where the recomputed tail index starts
VecMeetsTail == pc \in {"tailodd", "tailpair"} /\ (Len(plan) = 0 \/ plan[Len(plan)].ph = "vec") => i = t

\* every index contributes exactly once
Coverage == pc = "done" => /\ Len(plan) > 0 /\ End(plan[Len(plan)]) = len
                           /\ Contiguous

\* vector phases come before the tail, the tail is scalar and shorter than one vector
Shape == \A k \in 1..Len(plan) : /\ plan[k].ph = "vec" => plan[k].w = W
                                 /\ plan[k].ph = "tail" => plan[k].w = 1 /\ plan[k].at >= W * (len \div W)
                                 /\ \A j \in 1..k : plan[k].ph = "vec" => plan[j].ph = "vec"

\* the tail loop cannot run away (its exit is an equality test)
TailBounded == pc = "tailpair" => t < len

Terminates == <>(pc = "done")

\* closed form of the plan a correct kernel produces (what the trace specification compares a recorded
\* plan summary with): number of vector blocks, number of tail scalars
PlanBlocks(n) == n \div W
PlanTail(n)   == n % W
ClosedForm == pc = "done" =>
   LET vec  == {k \in 1..Len(plan) : plan[k].ph = "vec"}
       tail == {k \in 1..Len(plan) : plan[k].ph = "tail"}
   IN  /\ (IF vec = {} THEN 0 ELSE plan[1].n) = PlanBlocks(len)
       /\ Cardinality(vec) <= 1 /\ Cardinality(tail) <= 1
       /\ (IF tail = {} THEN 0 ELSE plan[Len(plan)].n) = PlanTail(len)
=============================================================================
