------------------------------ MODULE FanOutGen ------------------------------
(* Binding G/S for C09: complete behaviours of FanOut (as shipped: CloseChans =
   "both", the richest set of interleavings) projected onto what the harness can
   force: the order in which workers finish ("W", w) and the points at which the
   collector starts an iteration ("C").  Emitted when the call has returned. *)
EXTENDS FanOut, Json
VARIABLE hist
GInit == Init /\ hist = <<>>
GNext == \/ \E w \in W : (WorkerFinish(w) \/ SlowFinish(w)) /\ hist' = Append(hist, w)
         \/ Close /\ hist' = hist
         \/ CtxDone /\ hist' = Append(hist, "X")
         \/ Collect /\ hist' = Append(hist, "C")
         \/ Finish /\ hist' = hist
GSpec == GInit /\ [][GNext]_<<vars, hist>>
Emit == ret # "none" => PrintT(<<"H", ToJson([o |-> outcome, s |-> hist])>>)
GView == <<outcome, hist, closer, ret>>
=============================================================================
