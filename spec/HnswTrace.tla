----------------------------- MODULE HnswTrace -----------------------------
(* Binding V for the index family (C01 C02 C07 C08), property level.

   An ndjson trace recorded from the real partition state machine
   (storage.partition.process over index.Hnsw) is replayed against the
   SEQUENTIAL MAP id -> (point, metadata) that PartitionMap.tla specifies; the
   logged index projection and the logged probe searches are checked against
   the property statements themselves, not against the exact graph model, so a
   refactoring that keeps the properties is accepted.  Failed checks are
   accumulated as <<line, name>> and reported once.

   Events: reset(cfg) | insert | remove | update | binsert | bupdate | bremove |
   saveload.  full = 1: st (state projection) and sr (probe searches) are
   logged; saveload additionally logs pre (state before), st2 (the other load
   target).  Rank (dense ranks of real distances) comes from HnswRankDef. *)
EXTENDS Integers, Sequences, FiniteSets, TLC, Json, HnswRankDef
CONSTANT TraceFile
Trace == ndJsonDeserialize(TraceFile)

VARIABLES l, store, cfg, insOnly, viol
vars == <<l, store, cfg, insOnly, viol>>

Empty == [x \in {} |-> 0]
Rank(p, q) == RankDef[p][q]
Merge(n, o) == [k \in DOMAIN n |-> IF n[k] # 0 THEN n[k] ELSE o[k]]
\* metadata bytes: keys are one byte; values one byte, except the abstract values 3 = the empty
\* string and 4 = one two-byte UTF-8 character
RECURSIVE MetaBytes(_, _)
MetaBytes(m, D) == IF D = {} THEN 0 ELSE LET k == CHOOSE x \in D : TRUE
                   IN (IF m[k] = 0 THEN 0 ELSE IF m[k] = 3 THEN 1 ELSE IF m[k] = 4 THEN 3 ELSE IF m[k] = 5 THEN 65537 ELSE 2) + MetaBytes(m, D \ {k})
ItemBytes(m) == 16 + 4 * cfg.dim + MetaBytes(m, DOMAIN m)
Drop(f, x) == [y \in DOMAIN f \ {x} |-> f[y]]
Put(f, x, v) == [y \in DOMAIN f \cup {x} |-> IF y = x THEN v ELSE f[y]]
Max(a, b) == IF a > b THEN a ELSE b
Min(a, b) == IF a < b THEN a ELSE b

RECURSIVE SumBytes(_, _)
SumBytes(s, D) == IF D = {} THEN 0 ELSE LET x == CHOOSE y \in D : TRUE IN ItemBytes(s[x].meta) + SumBytes(s, D \ {x})

\* ---- the sequential map (PartitionMap semantics) ----------------------------
InsertM(s, id, pt, meta) == IF id \in DOMAIN s THEN [s |-> s, res |-> "exists"]
                            ELSE [s |-> Put(s, id, [pt |-> pt, meta |-> meta]), res |-> "ok"]
RemoveM(s, id) == IF id \in DOMAIN s THEN [s |-> Drop(s, id), res |-> "ok"] ELSE [s |-> s, res |-> "notfound"]
UpdateM(s, id, pt, meta) == IF id \in DOMAIN s
                            THEN [s |-> Put(s, id, [pt |-> pt, meta |-> Merge(meta, s[id].meta)]), res |-> "ok"]
                            ELSE [s |-> s, res |-> "notfound"]
RECURSIVE FoldM(_, _, _, _)
FoldM(s, kind, items, errs) ==
  IF items = <<>> THEN [s |-> s, errs |-> errs]
  ELSE LET it == Head(items)
           r  == CASE kind = "binsert" -> InsertM(s, it.id, it.pt, it.meta)
                   [] kind = "bupdate" -> UpdateM(s, it.id, it.pt, it.meta)
                   [] kind = "bremove" -> RemoveM(s, it.id)
       IN FoldM(r.s, kind, Tail(items), IF r.res = "ok" THEN errs ELSE Put(errs, it.id, r.res))

\* ---- checks on a logged state / search --------------------------------------
LiveAsMap(st) == [i \in {st.live[j].id : j \in 1..Len(st.live)} |->
                    LET j == CHOOSE j \in 1..Len(st.live) : st.live[j].id = i
                    IN [pt |-> st.live[j].pt, meta |-> st.live[j].meta]]
StateViol(st, s) ==
  (IF LiveAsMap(st) = s /\ Len(st.live) = Cardinality(DOMAIN s) THEN {} ELSE {<<l, "Map">>})
  \cup (IF st.len = Cardinality(DOMAIN s) THEN {} ELSE {<<l, "Len">>})
  \cup (IF st.bytes = SumBytes(s, DOMAIN s) THEN {} ELSE {<<l, "Bytes">>})
  \cup (IF st.size >= st.bytes /\ st.size <= st.bytes + Cardinality(DOMAIN s) * cfg.linkBound /\ st.size < 1073741824
        THEN {} ELSE {<<l, "Size">>})
  \cup (IF DOMAIN s = {} \/ (Len(st.ep) = 4 /\ st.ep[2] = 0 /\ st.ep[3] = 1 /\ st.ep[1] \in DOMAIN s)
        THEN {} ELSE {<<l, "EpLive">>})

SearchViol(r, s, small) ==
  LET res == r.res   n == Len(res)
      ok(i) == res[i][1] \in DOMAIN s
  IN IF "err" \in DOMAIN r
     THEN {<<l, "SearchErr">>}    \* within the small-collection premise a failed search is not the exact answer either (C07)
          \cup (IF small /\ DOMAIN s # {} /\ Cardinality(DOMAIN s) <= Max(cfg.ef, r.k) THEN {<<l, "SmallExact">>} ELSE {})
     ELSE
     (IF \A i \in 1..n : ok(i) THEN {} ELSE {<<l, "SearchLive">>})
     \cup (IF \A i \in 1..n : ok(i) => res[i][2] = Rank(r.q, s[res[i][1]].pt) THEN {} ELSE {<<l, "SearchScore">>})
     \cup (IF \A i \in 1..n : ok(i) => res[i][3] = s[res[i][1]].meta THEN {} ELSE {<<l, "SearchMeta">>})
     \cup (IF \A i \in 1..(n - 1) : res[i][2] <= res[i + 1][2] THEN {} ELSE {<<l, "SearchOrder">>})
     \cup (IF \A i, j \in 1..n : i # j => res[i][1] # res[j][1] THEN {} ELSE {<<l, "SearchDup">>})
     \cup (IF n <= r.k THEN {} ELSE {<<l, "SearchK">>})
     \cup (IF DOMAIN s # {} /\ r.k >= 1 /\ n = 0 THEN {<<l, "SearchEmpty">>} ELSE {})
     \cup (IF small /\ Cardinality(DOMAIN s) <= Max(cfg.ef, r.k) /\ (\A i \in 1..n : ok(i))
           THEN IF /\ n = Min(r.k, Cardinality(DOMAIN s))
                   /\ \A x \in DOMAIN s \ {res[i][1] : i \in 1..n} : \A i \in 1..n : Rank(r.q, s[x].pt) >= res[i][2]
                THEN {} ELSE {<<l, "SmallExact">>}
           ELSE {})

FullViol(t, s, ins) ==
  IF t.full # 1 THEN {}
  ELSE StateViol(t.st, s)
       \cup UNION {SearchViol(t.sr[i], s, ins /\ Cardinality(DOMAIN s) <= Min(2 * cfg.M, cfg.MMax0) + 1) : i \in 1..Len(t.sr)}

Items(st) == {<<st.live[j].id, st.live[j].pt, st.live[j].lvl, st.live[j].meta>> : j \in 1..Len(st.live)}
Links(st) == {st.links[j] : j \in 1..Len(st.links)}
\* C08: both load targets reproduce the saved state
RoundTripViol(t, s) ==
  IF t.res # "ok" THEN {<<l, "RtErr">>}
  ELSE LET chk(a, nm) ==
             (IF Items(a) = Items(t.pre) THEN {} ELSE {<<l, "RtItems" \o nm>>})
             \cup (IF Links(a) = Links(t.pre) THEN {} ELSE {<<l, "RtLinks" \o nm>>})
             \cup (IF Len(t.pre.ep) = 4 /\ t.pre.ep[2] = 0 /\ a.ep # t.pre.ep THEN {<<l, "RtEp" \o nm>>} ELSE {})
             \cup (IF a.len = Len(t.pre.live) THEN {} ELSE {<<l, "RtLen" \o nm>>})
             \cup (IF a.bytes = SumBytes(LiveAsMap(a), DOMAIN LiveAsMap(a)) THEN {} ELSE {<<l, "RtBytes" \o nm>>})
             \cup (IF a.tomb = 0 /\ a.dang = 0 THEN {} ELSE {<<l, "RtStale" \o nm>>})
       IN chk(t.st, "") \cup chk(t.st2, "2")

\* C08, index level: Save(header) then Load through a fragmenting reader into a fresh / used index
StreamViol(t) ==
  IF t.res # "ok" THEN {<<l, "RtErr">>}
  ELSE (IF Items(t.st) = Items(t.pre) THEN {} ELSE {<<l, "RtItems">>})
       \cup (IF Links(t.st) = Links(t.pre) THEN {} ELSE {<<l, "RtLinks">>})
       \cup (IF (Len(t.pre.ep) = 4 /\ t.pre.ep[2] = 0 /\ t.st.ep # t.pre.ep) \/ (Len(t.pre.live) = 0 /\ Len(t.st.ep) # 0) THEN {<<l, "RtEp">>} ELSE {})
       \cup (IF t.st.len = Len(t.pre.live) THEN {} ELSE {<<l, "RtLen">>})
       \cup (IF t.st.bytes = t.pre.bytes THEN {} ELSE {<<l, "RtBytes">>})
       \cup (IF t.st.tomb = 0 /\ t.st.dang = 0 THEN {} ELSE {<<l, "RtStale">>})
       \cup (IF t.unread = 0 THEN {} ELSE {<<l, "RtUnread">>})       \* > 0: bytes left over, < 0: read past its own end

Fatal(t) == IF t.res \in {"panic", "fatal", "lost"} THEN {<<l, "Outcome_" \o t.res>>} ELSE {}
ErrMap(t) == [i \in {t.errs[j][1] : j \in 1..Len(t.errs)} |->
                LET j == CHOOSE j \in 1..Len(t.errs) : t.errs[j][1] = i IN t.errs[j][2]]

Init == l = 1 /\ store = Empty /\ cfg = [M |-> 1] /\ insOnly = TRUE /\ viol = {}

Step ==
  /\ l <= Len(Trace)
  /\ l' = l + 1
  /\ LET t == Trace[l] IN
     CASE t.ev = "reset" ->
            /\ store' = Empty /\ cfg' = [t.cfg EXCEPT !.ef = IF t.cfg.ef = 0 THEN 20 ELSE t.cfg.ef]
            /\ insOnly' = TRUE /\ viol' = viol
       [] t.ev \in {"insert", "remove", "update"} ->
            LET r == CASE t.ev = "insert" -> InsertM(store, t.id, t.pt, t.meta)
                       [] t.ev = "remove" -> RemoveM(store, t.id)
                       [] t.ev = "update" -> UpdateM(store, t.id, t.pt, t.meta)
                ins == insOnly /\ t.ev = "insert"
            IN /\ store' = r.s /\ cfg' = cfg /\ insOnly' = ins
               /\ viol' = viol \cup Fatal(t)
                               \cup (IF t.res = r.res \/ Fatal(t) # {} THEN {} ELSE {<<l, "Result">>})
                               \cup FullViol(t, r.s, ins)
       [] t.ev \in {"binsert", "bupdate", "bremove"} ->
            LET r == FoldM(store, t.ev, t.items, Empty)
                ins == insOnly /\ t.ev = "binsert"
            IN /\ store' = r.s /\ cfg' = cfg /\ insOnly' = ins
               /\ viol' = viol \cup Fatal(t)
                               \cup (IF Fatal(t) # {} \/ (t.res = "batch" /\ ErrMap(t) = r.errs) THEN {} ELSE {<<l, "BatchErrs">>})
                               \cup FullViol(t, r.s, ins)
       [] t.ev = "loadempty" ->     \* the snapshot of an EMPTY index restored into this (used) index
            /\ store' = Empty /\ cfg' = cfg /\ insOnly' = FALSE
            /\ viol' = viol \cup (IF t.res = "ok" THEN {} ELSE {<<l, "RtErr">>}) \cup FullViol(t, Empty, FALSE)
                            \cup (IF t.full = 1 /\ (t.st.tomb # 0 \/ Len(t.st.ep) # 0) THEN {<<l, "RtStale">>} ELSE {})
       [] t.ev = "recall" ->       \* C07 clause 2, a measurement: mean recall@k over the queries must exceed 0.8
            /\ UNCHANGED <<store, cfg, insOnly>>
            /\ viol' = viol \cup (IF 10 * t.hits > 8 * t.queries * t.k THEN {} ELSE {<<l, "RecallFloor">>})
       [] t.ev = "near" ->         \* C02 "updating replaces the vector", for a vector one bit away from the stored one
            /\ UNCHANGED <<store, cfg, insOnly>>
            /\ viol' = viol \cup (IF t.err = "" /\ t.want = t.got THEN {} ELSE {<<l, "Map">>})
                            \* ... and C07 clause 1: a search under a cancelled context is exact or fails (cgot = <<"err">>)
                            \cup (IF t.err # "" \/ t.cgot = t.cwant \/ t.cgot = <<"err">> THEN {} ELSE {<<l, "SmallExact">>})
       [] t.ev \in {"loading", "damaged"} ->   \* marker written before each stream load / a load of truncated bytes:
            UNCHANGED <<store, cfg, insOnly, viol>>  \* recorded by the harness, not judged (C08 is about complete output)
       [] t.ev = "stream" ->
            /\ store' = store /\ cfg' = cfg /\ insOnly' = insOnly
            /\ viol' = viol \cup StreamViol(t)
       [] t.ev = "saveload" ->
            /\ store' = store /\ cfg' = cfg /\ insOnly' = insOnly
            /\ viol' = viol \cup RoundTripViol(t, store) \cup FullViol(t, store, insOnly)

Spec == Init /\ [][Step]_vars
Report == l = Len(Trace) + 1 => PrintT(<<"VIOL", ToJson([n |-> Len(Trace), v |-> viol])>>)
=============================================================================
