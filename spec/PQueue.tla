------------------------------- MODULE PQueue -------------------------------
(* utils/priority_queue.go: binary heaps over Go slices (C19).

   Two layers in one module.
   Abstract: every queue object is a finite set of items (items are <<prio, tag>>
   pairs, a queue never holds the same item twice in the bounded universes);
   Pop/Peek return an extremum, Reverse yields a NEW queue with the same items
   and the opposite order and leaves its source untouched.
   Concrete: Go slices (backing array id, length; capacity = length of the
   backing array), container/heap's up/down/Init, append-in-place when there is
   spare capacity, doubling growth otherwise.  The switch ShareOnReverse selects
   what Reverse does with the backing array: TRUE = alias it (the code as it was
   shipped), FALSE = copy it (the repaired code).  The invariants relate the two
   layers; TLC shows they fail with TRUE and hold with FALSE. *)
EXTENDS Integers, Sequences, FiniteSets, TLC

CONSTANTS Prios, Tags, MaxQ, MaxOps, ShareOnReverse, InitKinds, InitItems

Items == Prios \X Tags
Nil   == <<-1, "nil">>
Kinds == {"min", "max"}
Opp(k) == IF k = "min" THEN "max" ELSE "min"

VARIABLES arrs,   \* backing arrays: Seq(Seq(Items \cup {Nil})), never freed
          qs,     \* queue objects: Seq([kind, arr, len])
          bags,   \* abstract contents: Seq(SUBSET Items), same index as qs
          last,   \* last operation with its result and the abstract verdict on it
          nops
vars == <<arrs, qs, bags, last, nops>>

Less(k, x, y) == IF k = "min" THEN x[1] < y[1] ELSE x[1] > y[1]
Swap(a, i, j) == [a EXCEPT ![i + 1] = a[j + 1], ![j + 1] = a[i + 1]]     \* 0-based i, j

RECURSIVE Up(_, _, _)
Up(k, a, j) ==                                   \* container/heap.up
  IF j = 0 THEN a
  ELSE LET i == (j - 1) \div 2
       IN IF ~Less(k, a[j + 1], a[i + 1]) THEN a ELSE Up(k, Swap(a, i, j), i)

RECURSIVE Down(_, _, _, _)
Down(k, a, i, n) ==                              \* container/heap.down
  LET j1 == 2 * i + 1
  IN IF j1 >= n THEN a
     ELSE LET j == IF j1 + 1 < n /\ Less(k, a[j1 + 2], a[j1 + 1]) THEN j1 + 1 ELSE j1
          IN IF ~Less(k, a[j + 1], a[i + 1]) THEN a ELSE Down(k, Swap(a, i, j), j, n)

RECURSIVE HeapifyFrom(_, _, _, _)
HeapifyFrom(k, a, i, n) == IF i < 0 THEN a ELSE HeapifyFrom(k, Down(k, a, i, n), i - 1, n)
Heapify(k, a, n) == HeapifyFrom(k, a, (n \div 2) - 1, n)   \* container/heap.Init

Pad(n) == [i \in 1..n |-> Nil]
Grow(a, n) ==                                     \* append beyond capacity: new array
  LET cap == Len(a)  newcap == IF cap = 0 THEN 1 ELSE 2 * cap
  IN SubSeq(a, 1, n) \o Pad(newcap - n)

Elems(q) == {arrs[qs[q].arr][i] : i \in 1..qs[q].len}
Extremal(k, S, x) == x \in S /\ \A y \in S : ~Less(k, y, x)

\* NewMin/MaxPriorityQueue(items...): heap.Init on the empty slice, then a heap push per item
InitSeqs == {<<>>} \cup {<<x>> : x \in InitItems} \cup {<<xy[1], xy[2]>> : xy \in {z \in InitItems \X InitItems : z[1] # z[2]}}
RECURSIVE Build(_, _, _, _)
Build(k, a, n, its) ==     \* a: backing array (capacity Len(a)), n: live length
  IF its = <<>> THEN [a |-> a, n |-> n]
  ELSE LET b == IF n < Len(a) THEN [a EXCEPT ![n + 1] = Head(its)] ELSE [Grow(a, n) EXCEPT ![n + 1] = Head(its)]
       IN Build(k, Up(k, b, n), n + 1, Tail(its))
Init == \E k \in InitKinds, its \in InitSeqs :
          LET r == Build(k, <<>>, 0, its) IN
          /\ arrs = << r.a >>
          /\ qs = << [kind |-> k, arr |-> 1, len |-> r.n] >>
          /\ bags = << {its[i] : i \in 1..Len(its)} >>
          /\ last = [op |-> "init", q |-> 1, kind |-> k, items |-> its]
          /\ nops = 0

Push(q, it) ==
  /\ it \notin bags[q]
  /\ LET o == qs[q]  a == arrs[o.arr]
     IN IF o.len < Len(a)
        THEN /\ arrs' = [arrs EXCEPT ![o.arr] = Up(o.kind, [a EXCEPT ![o.len + 1] = it], o.len)]
             /\ qs' = [qs EXCEPT ![q].len = o.len + 1]
        ELSE LET b == [Grow(a, o.len) EXCEPT ![o.len + 1] = it]
             IN /\ arrs' = Append(arrs, Up(o.kind, b, o.len))
                /\ qs' = [qs EXCEPT ![q].len = o.len + 1, ![q].arr = Len(arrs) + 1]
  /\ bags' = [bags EXCEPT ![q] = @ \cup {it}]
  /\ last' = [op |-> "push", q |-> q, it |-> it, ok |-> TRUE]

Pop(q) ==
  /\ qs[q].len > 0
  /\ LET o == qs[q]  n == o.len - 1
         a == Down(o.kind, Swap(arrs[o.arr], 0, n), 0, n)
         r == a[n + 1]
     IN /\ arrs' = [arrs EXCEPT ![o.arr] = a]              \* the popped slot keeps its stale value
        /\ qs' = [qs EXCEPT ![q].len = n]
        /\ bags' = [bags EXCEPT ![q] = @ \ {r}]
        /\ last' = [op |-> "pop", q |-> q, it |-> r, ok |-> Extremal(o.kind, bags[q], r)]

Peek(q) ==
  /\ qs[q].len > 0
  /\ LET r == arrs[qs[q].arr][1]
     IN last' = [op |-> "peek", q |-> q, it |-> r, ok |-> Extremal(qs[q].kind, bags[q], r)]
  /\ UNCHANGED <<arrs, qs, bags>>

Reverse(q) ==
  /\ Len(qs) < MaxQ
  /\ LET o == qs[q]  k == Opp(o.kind)
     IN IF ShareOnReverse
        THEN /\ arrs' = [arrs EXCEPT ![o.arr] = Heapify(k, @, o.len)]
             /\ qs' = Append(qs, [kind |-> k, arr |-> o.arr, len |-> o.len])
        ELSE /\ arrs' = Append(arrs, Heapify(k, SubSeq(arrs[o.arr], 1, o.len), o.len))
             /\ qs' = Append(qs, [kind |-> k, arr |-> Len(arrs) + 1, len |-> o.len])
  /\ bags' = Append(bags, bags[q])
  /\ last' = [op |-> "reverse", q |-> q, nq |-> Len(qs) + 1, ok |-> TRUE]

Step(A) == nops < MaxOps /\ A /\ nops' = nops + 1

Next == \E q \in 1..Len(qs) :
          \/ \E it \in Items : Step(Push(q, it))
          \/ Step(Pop(q))
          \/ Step(Peek(q))
          \/ Step(Reverse(q))

Spec == Init /\ [][Next]_vars

-----------------------------------------------------------------------------
(* Properties (C19). *)
TypeOK == /\ \A q \in 1..Len(qs) : qs[q].kind \in Kinds /\ qs[q].len <= Len(arrs[qs[q].arr])
          /\ Len(bags) = Len(qs)
\* a queue holds exactly the pushed-minus-popped items
Contents == \A q \in 1..Len(qs) : Elems(q) = bags[q] /\ Cardinality(bags[q]) = qs[q].len
\* every pop / peek returned an extremum of that queue's own contents
ResultOK == last.op \in {"pop", "peek"} => last.ok
\* heap order of the backing array (what makes the next pops come out in order)
HeapOK == \A q \in 1..Len(qs) : \A j \in 1..(qs[q].len - 1) :
             ~Less(qs[q].kind, arrs[qs[q].arr][j + 1], arrs[qs[q].arr][((j - 1) \div 2) + 1])
\* reversing leaves the source untouched: action property
ReverseIndependent ==
  [][\A q \in 1..Len(qs) : (last'.op = "reverse" /\ nops' = nops + 1) =>
        /\ bags'[q] = bags[q]
        /\ SubSeq(arrs'[qs'[q].arr], 1, qs'[q].len) = SubSeq(arrs[qs[q].arr], 1, qs[q].len)]_vars
\* an operation on one queue never changes another queue's contents
Isolation ==
  [][\A q \in 1..Len(qs) : (nops' = nops + 1 /\ last'.q # q) =>
        {arrs'[qs'[q].arr][i] : i \in 1..qs'[q].len} = Elems(q)]_vars

View == <<arrs, qs, bags, last>>
=============================================================================
