----------------------------- MODULE FanOutTrace -----------------------------
(* Binding V for C09 / C17.  One event per real Dataset.Search / SearchPartitions /
   SizeInfo call made under a forced schedule: the workers' scripted outcomes
   (o), what every worker's partitions hold (parts), the schedule tokens that were
   forced (s; "X" = the caller's context was cancelled) and what the call returned.
   The event is accepted iff the return is one FanOut (CloseChans = "none") /
   FanOutSize (LoopVarShared = FALSE) allow for these outcomes:
     ok    only if every worker was ok, and then with exactly TopK(k, union) / the exact sums;
     error whenever some worker failed, was stuck, or the context was cancelled;
     never a hang, never an empty success. *)
EXTENDS Integers, Sequences, FiniteSets, TLC, Json
CONSTANT TraceFile
Trace == ndJsonDeserialize(TraceFile)
VARIABLES l, viol
vars == <<l, viol>>

RECURSIVE Flatten(_, _)
Flatten(parts, D) == IF D = {} THEN <<>> ELSE LET w == CHOOSE x \in D : TRUE IN parts[w] \o Flatten(parts, D \ {w})
RECURSIVE SumAt(_, _, _)
SumAt(parts, D, j) == IF D = {} THEN 0 ELSE LET w == CHOOSE x \in D : TRUE IN parts[w][j] + SumAt(parts, D \ {w}, j)
Min(a, b) == IF a < b THEN a ELSE b
AllOk(t) == \A w \in DOMAIN t.o : t.o[w] = "ok"
Cancelled(t) == \E j \in 1..Len(t.s) : t.s[j] = "X"

SearchViol(t) ==
  LET all == SortSeq(Flatten(t.parts, DOMAIN t.parts), <)
      n   == Min(t.k, Len(all))
  IN CASE t.ret = "hang" -> {<<l, "Hang">>}
       [] t.ret = "ok" /\ ~AllOk(t) -> {<<l, "PartialSuccess">>}
       [] t.ret = "ok" /\ AllOk(t) ->
            (IF Len(t.res) = 0 /\ n > 0 THEN {<<l, "EmptySuccess">>}
             ELSE IF Len(t.res) = n /\ \A j \in 1..n : t.res[j][2] = all[j] THEN {} ELSE {<<l, "WrongTopK">>})
            \cup (IF \A a, b \in 1..Len(t.res) : a # b => t.res[a][1] # t.res[b][1] THEN {} ELSE {<<l, "DuplicateId">>})
            \cup (IF t.ev = "search" /\ t.asked # 1 THEN {<<l, "NotEachOnce">>} ELSE {})
            \* a search is a read: what the partitions store is the same afterwards (C04: replicas that serve searches
            \* stay identical to those that do not)
            \cup (IF t.mutated = 1 THEN {<<l, "SearchMutates">>} ELSE {})
       [] t.ret = "err" /\ AllOk(t) /\ ~Cancelled(t) -> {<<l, "SpuriousError">>}
       [] OTHER -> {}

\* a search over partitions with two replicas in which the node asked first broke off in the middle of its answer:
\* a loud failure, or - if the call is answered from the other replica after all - exactly the top k of what the
\* partitions hold, each item once (nothing of the broken answer may be counted twice)
FailoverViol(t) ==
  LET all == SortSeq(Flatten(t.parts, DOMAIN t.parts), <)
      n   == Min(t.k, Len(all))
  IN CASE t.ret = "hang" -> {<<l, "Hang">>}
       [] t.ret = "ok" ->
            (IF Len(t.res) = n /\ \A j \in 1..n : t.res[j][2] = all[j] THEN {} ELSE {<<l, "WrongTopK">>})
            \cup (IF \A a, b \in 1..Len(t.res) : a # b => t.res[a][1] # t.res[b][1] THEN {} ELSE {<<l, "DuplicateId">>})
       [] OTHER -> {}

SizeViol(t) ==
  CASE t.ret = "hang" -> {<<l, "Hang">>}
    [] t.ret = "ok" /\ ~AllOk(t) -> {<<l, "PartialSuccess">>}
    [] t.ret = "ok" /\ AllOk(t) ->
         (IF t.res[1][1] = SumAt(t.parts, DOMAIN t.parts, 1) /\ t.res[1][2] = SumAt(t.parts, DOMAIN t.parts, 2) THEN {} ELSE {<<l, "WrongSum">>})
         \cup (IF \A w \in DOMAIN t.calls : Len(t.calls[w]) = 1 THEN {} ELSE {<<l, "NotEachOnce">>})
    [] t.ret = "err" /\ AllOk(t) /\ ~Cancelled(t) -> {<<l, "SpuriousError">>}
    [] OTHER -> {}

\* the serving side of a remote size lookup (Dataset.PartitionInfo): k = 1 iff the asked node hosts the partition
PinfoViol(t) ==
  CASE t.k = 0 /\ t.ret = "ok" -> {<<l, "ForeignPartitionAnswered">>}
    [] t.k = 1 /\ t.ret # "ok" -> {<<l, "SpuriousError">>}
    [] t.k = 1 /\ t.ret = "ok" -> IF t.res[1] = t.parts["local"] THEN {} ELSE {<<l, "WrongSum">>}
    [] OTHER -> {}

Init == l = 1 /\ viol = {}
Step == /\ l <= Len(Trace) /\ l' = l + 1
        /\ LET t == Trace[l] IN
           viol' = viol \cup (IF t.ev = "size" THEN SizeViol(t) ELSE IF t.ev = "pinfo" THEN PinfoViol(t)
                              ELSE IF t.ev = "failover" THEN FailoverViol(t) ELSE SearchViol(t))
Spec == Init /\ [][Step]_vars
Report == l = Len(Trace) + 1 => PrintT(<<"VIOL", ToJson([n |-> Len(Trace), v |-> viol])>>)
=============================================================================
