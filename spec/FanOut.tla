------------------------------- MODULE FanOut -------------------------------
(* storage/dataset.go: the scatter/gather protocols of Dataset.Search,
   Dataset.SearchPartitions (C09) and Dataset.SizeInfo (C17).

   Search: one worker goroutine per node group (or per partition); a worker ends
   by sending exactly one message, on resultCh (ok) or on errorCh (err), or it
   never ends (slow: blocked in a remote call until the context is cancelled).
   Both channels are buffered with capacity N.  The collector makes N iterations
   of a select over {resultCh, errorCh, ctx.Done}; Go picks among the READY cases
   nondeterministically, and a closed channel is always ready (yields the zero
   value).  CloseChans says what the helper goroutine closes once all workers are
   done: "both" (the code as shipped), "resOnly", or "none" (repaired: nobody
   closes, every worker sends exactly one message).

   SizeInfo: local partitions are counted inline and put a nil on errorCh; remote
   partitions get a goroutine that sends ONLY on failure; the helper closes
   errorCh when all goroutines are done, and the collector counts N reads.
   LoopVarShared = TRUE models the `go 1.14` loop-variable capture: a goroutine
   reads the loop variable when it runs, not when it was spawned. *)
EXTENDS Integers, Sequences, FiniteSets, TLC

CONSTANTS W,            \* workers
          CloseChans,   \* "both" | "resOnly" | "none"
          Outcomes,     \* subset of {"ok", "err", "slow"}
          LoopVarShared

N == Cardinality(W)

VARIABLES outcome,   \* [W -> Outcomes]   fixed by Init
          ws,        \* [W -> {"run", "done"}]
          resCh, errCh, resClosed, errClosed, closer,
          ctx,       \* "live" | "done"   (deadline / cancellation of the caller's context)
          i, acc, ret
vars == <<outcome, ws, resCh, errCh, resClosed, errClosed, closer, ctx, i, acc, ret>>

Init == /\ outcome \in [W -> Outcomes] /\ ws = [w \in W |-> "run"]
        /\ resCh = <<>> /\ errCh = <<>> /\ resClosed = FALSE /\ errClosed = FALSE
        /\ closer = "wait" /\ ctx = "live" /\ i = 0 /\ acc = {} /\ ret = "none"

WorkerFinish(w) ==
  /\ ws[w] = "run" /\ outcome[w] # "slow"
  /\ ws' = [ws EXCEPT ![w] = "done"]
  /\ IF outcome[w] = "ok" THEN resCh' = Append(resCh, w) /\ UNCHANGED errCh
     ELSE errCh' = Append(errCh, w) /\ UNCHANGED resCh
  /\ UNCHANGED <<outcome, resClosed, errClosed, closer, ctx, i, acc, ret>>
\* a slow worker returns (with an error) only after the context is done
SlowFinish(w) ==
  /\ ws[w] = "run" /\ outcome[w] = "slow" /\ ctx = "done"
  /\ ws' = [ws EXCEPT ![w] = "done"] /\ errCh' = Append(errCh, w)
  /\ UNCHANGED <<outcome, resCh, resClosed, errClosed, closer, ctx, i, acc, ret>>
Close ==
  /\ CloseChans # "none" /\ closer = "wait" /\ \A w \in W : ws[w] = "done"
  /\ closer' = "closed" /\ resClosed' = TRUE /\ errClosed' = (CloseChans = "both")
  /\ UNCHANGED <<outcome, ws, resCh, errCh, ctx, i, acc, ret>>
CtxDone ==   \* the caller's deadline; it fires (at the latest) when some worker is stuck
  /\ ctx = "live" /\ ret = "none" /\ ctx' = "done"
  /\ UNCHANGED <<outcome, ws, resCh, errCh, resClosed, errClosed, closer, i, acc, ret>>
\* one iteration of the collector's select
Collect ==
  /\ ret = "none" /\ i < N
  /\ \/ /\ resCh # <<>> /\ acc' = acc \cup {Head(resCh)} /\ resCh' = Tail(resCh) /\ i' = i + 1
        /\ UNCHANGED <<errCh, ret>>
     \/ /\ resCh = <<>> /\ resClosed /\ i' = i + 1 /\ UNCHANGED <<acc, resCh, errCh, ret>>   \* zero value of a closed channel
     \/ /\ errCh # <<>> /\ ret' = "err" /\ errCh' = Tail(errCh) /\ UNCHANGED <<acc, resCh, i>>
     \/ /\ errCh = <<>> /\ errClosed /\ ret' = "nilnil" /\ UNCHANGED <<acc, resCh, errCh, i>>   \* return nil, <nil error>
     \/ /\ ctx = "done" /\ ret' = "ctxerr" /\ UNCHANGED <<acc, resCh, errCh, i>>
  /\ UNCHANGED <<outcome, ws, resClosed, errClosed, closer, ctx>>
Finish == /\ ret = "none" /\ i = N /\ ret' = "ok"
          /\ UNCHANGED <<outcome, ws, resCh, errCh, resClosed, errClosed, closer, ctx, i, acc>>
Next == (\E w \in W : WorkerFinish(w) \/ SlowFinish(w)) \/ Close \/ CtxDone \/ Collect \/ Finish
Spec == Init /\ [][Next]_vars
FairSpec == Spec /\ WF_vars(Collect) /\ WF_vars(Finish) /\ WF_vars(CtxDone) /\ \A w \in W : WF_vars(WorkerFinish(w))

\* C09
NoNilNil   == ret # "nilnil"
OkMeansAll == ret = "ok" => (acc = W /\ \A w \in W : outcome[w] = "ok")
FailLoud   == (ret # "none" /\ \E w \in W : outcome[w] # "ok") => ret \in {"err", "ctxerr"}
Returns    == <>(ret # "none")
=============================================================================
