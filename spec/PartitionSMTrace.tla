-------------------------- MODULE PartitionSMTrace --------------------------
(* Binding V for C04: traces of several real partition state machines fed
   byte-identical log entries.  Replica "A" applies every entry; a "branch"
   event starts another replica from a snapshot that A took after entry `cut`
   (restored into a fresh index, or into one that had applied `from` entries),
   which then applies the rest; replica "C" applies every entry the way a follower does, with nobody
   waiting for the outcome.  Checked: every replica's outcome for entry i
   and its contents after entry i equal A's and equal the sequential map's. *)
EXTENDS Integers, Sequences, FiniteSets, TLC, Json
CONSTANT TraceFile
Trace == ndJsonDeserialize(TraceFile)
VARIABLES l, ref, refout, viol
vars == <<l, ref, refout, viol>>

Empty == [x \in {} |-> 0]
Merge(n, o) == [k \in DOMAIN n |-> IF n[k] # 0 THEN n[k] ELSE o[k]]
Drop(f, x) == [y \in DOMAIN f \ {x} |-> f[y]]
Put(f, x, v) == [y \in DOMAIN f \cup {x} |-> IF y = x THEN v ELSE f[y]]
InsertM(s, id, pt, meta) == IF id \in DOMAIN s THEN [s |-> s, res |-> "exists"]
                            ELSE [s |-> Put(s, id, [pt |-> pt, meta |-> meta]), res |-> "ok"]
RemoveM(s, id) == IF id \in DOMAIN s THEN [s |-> Drop(s, id), res |-> "ok"] ELSE [s |-> s, res |-> "notfound"]
UpdateM(s, id, pt, meta) == IF id \in DOMAIN s
                            THEN [s |-> Put(s, id, [pt |-> pt, meta |-> Merge(meta, s[id].meta)]), res |-> "ok"]
                            ELSE [s |-> s, res |-> "notfound"]
RECURSIVE FoldM(_, _, _, _)
FoldM(s, kind, items, errs) ==
  IF items = <<>> THEN [s |-> s, errs |-> errs]
  ELSE LET it == Head(items)
           r  == CASE kind = "binsert" -> InsertM(s, it.id, it.pt, it.meta)
                   [] kind = "bupdate" -> UpdateM(s, it.id, it.pt, it.meta)
                   [] kind = "bremove" -> RemoveM(s, it.id)
       IN FoldM(r.s, kind, Tail(items), IF r.res = "ok" THEN errs ELSE Put(errs, it.id, r.res))
\* expected effect of the logged change t on store s: [s, out] where out is the comparable outcome
Expect(s, t) ==
  CASE t.op = "insert" -> LET r == InsertM(s, t.id, t.pt, t.meta) IN [s |-> r.s, out |-> <<r.res, Empty>>]
    [] t.op = "update" -> LET r == UpdateM(s, t.id, t.pt, t.meta) IN [s |-> r.s, out |-> <<r.res, Empty>>]
    [] t.op = "remove" -> LET r == RemoveM(s, t.id) IN [s |-> r.s, out |-> <<r.res, Empty>>]
    [] OTHER -> LET r == FoldM(s, t.op, t.items, Empty) IN [s |-> r.s, out |-> <<"batch", r.errs>>]
ErrMap(t) == [i \in {t.errs[j][1] : j \in 1..Len(t.errs)} |->
                LET j == CHOOSE j \in 1..Len(t.errs) : t.errs[j][1] = i IN t.errs[j][2]]
Out(t) == <<t.res, ErrMap(t)>>
LiveAsMap(st) == [i \in {st.live[j].id : j \in 1..Len(st.live)} |->
                    LET j == CHOOSE j \in 1..Len(st.live) : st.live[j].id = i
                    IN [pt |-> st.live[j].pt, meta |-> st.live[j].meta]]
Same(st, s) == /\ LiveAsMap(st) = s /\ Len(st.live) = Cardinality(DOMAIN s) /\ st.len = Cardinality(DOMAIN s)
               \* ... and nothing else is reachable: no stale entry point, no stale objects
               /\ (DOMAIN s = {} => Len(st.ep) = 0)
               /\ (DOMAIN s # {} => (Len(st.ep) = 4 /\ st.ep[2] = 0 /\ st.ep[3] = 1 /\ st.ep[1] \in DOMAIN s))

Init == l = 1 /\ ref = <<Empty>> /\ refout = <<>> /\ viol = {}
Step ==
  /\ l <= Len(Trace)
  /\ l' = l + 1
  /\ LET t == Trace[l] IN
     CASE t.ev = "reset" -> ref' = <<Empty>> /\ refout' = <<>> /\ viol' = viol
       [] t.ev = "apply" /\ t.r = "A" ->
            LET x == Expect(ref[Len(ref)], t)
            IN /\ ref' = Append(ref, x.s) /\ refout' = Append(refout, Out(t))
               /\ viol' = viol \cup (IF t.idx = Len(ref) THEN {} ELSE {<<l, "Order">>})
                               \cup (IF Out(t) = x.out THEN {} ELSE {<<l, "OutcomeVsMap">>})
                               \cup (IF Same(t.st, x.s) THEN {} ELSE {<<l, "ContentsVsMap">>})
       [] t.ev = "branch" ->
            /\ ref' = ref /\ refout' = refout
            /\ viol' = viol \cup (IF t.rerr = "" THEN {} ELSE {<<l, "RestoreErr">>})
                            \cup (IF t.cut + 1 > Len(ref) THEN {<<l, "Order">>}
                                  ELSE IF t.rerr # "" \/ Same(t.st, ref[t.cut + 1]) THEN {} ELSE {<<l, "SnapshotVsReplay">>})
       [] t.ev = "apply" /\ t.r = "C" ->       \* a follower nobody waits on: the entry must still apply, with the same effect
            /\ ref' = ref /\ refout' = refout
            /\ viol' = viol \cup (IF t.res = "unobserved" THEN {} ELSE {<<l, "ApplyFailedUnobserved">>})
                            \cup (IF t.idx + 1 > Len(ref) THEN {<<l, "Order">>}
                                  ELSE IF t.res # "unobserved" \/ Same(t.st, ref[t.idx + 1]) THEN {} ELSE {<<l, "ReplicaDiverged">>})
       [] t.ev = "apply" /\ t.r = "D" ->       \* a replica with a caller of its own waiting while it applies entries proposed elsewhere:
            /\ ref' = ref /\ refout' = refout   \* that caller must hear nothing (C11: an outcome reaches its own caller and no one else)
            /\ viol' = viol \cup (IF t.res = "misdelivered" THEN {<<l, "OutcomeMisdelivered">>} ELSE {})
                            \cup (IF t.res \in {"unobserved", "misdelivered"} THEN {} ELSE {<<l, "ApplyFailedUnobserved">>})
                            \cup (IF t.idx + 1 > Len(ref) THEN {<<l, "Order">>}
                                  ELSE IF t.res # "unobserved" \/ Same(t.st, ref[t.idx + 1]) THEN {} ELSE {<<l, "ReplicaDiverged">>})
       [] t.ev = "apply" /\ t.r # "A" ->
            /\ ref' = ref /\ refout' = refout
            /\ viol' = viol \cup (IF t.idx > Len(refout) THEN {<<l, "Order">>}
                                  ELSE (IF Out(t) = refout[t.idx] THEN {} ELSE {<<l, "OutcomeDiffers">>})
                                       \cup (IF Same(t.st, ref[t.idx + 1]) THEN {} ELSE {<<l, "ReplicaDiverged">>}))
Spec == Init /\ [][Step]_vars
Report == l = Len(Trace) + 1 => PrintT(<<"VIOL", ToJson([n |-> Len(Trace), v |-> viol])>>)
=============================================================================
