SPECIFICATION Spec
CONSTANTS
  Prios = {1, 2, 3}
  Tags = {"a", "b"}
  MaxQ = 3
  MaxOps = 6
  ShareOnReverse = FALSE
  InitKinds = {"min", "max"}
  InitItems <- InitItemsDef
INVARIANTS TypeOK Contents ResultOK HeapOK
PROPERTIES ReverseIndependent Isolation
CHECK_DEADLOCK FALSE
