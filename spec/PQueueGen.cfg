SPECIFICATION GSpec
CONSTANTS
  Prios = {1, 2, 3}
  Tags = {"a", "b"}
  MaxQ = 3
  MaxOps = 5
  ShareOnReverse = FALSE
  InitKinds = {"min", "max"}
  InitItems <- InitItemsDef
INVARIANT Emit
VIEW GView
CHECK_DEADLOCK FALSE
