----------------------------- MODULE ProposeWait -----------------------------
(* C11: storage/partition.go proposeAndWaitForCommit + utils/notificator.go.

   A caller registers a notification channel of capacity NotifCap (the code as
   shipped: 0), proposes its change, and only then starts to wait on the channel.
   The apply loop applies committed entries in log order and notifies the entry's
   channel WITHOUT blocking: with an unbuffered channel the outcome is dropped
   unless the caller already sits in its select.  Every replica applies every
   entry; only the proposer's replica has a channel registered under the entry's
   id (ids are unique), so an outcome can reach no other caller.

   Outcomes are those of a set of ids (insert: ok / exists; remove: ok / notfound).

   (third session) A caller may GIVE UP - its context is cancelled or the proposal times out - at
   any moment after it registered, also when its outcome already sits in the channel: it returns an
   error (never a false acknowledgement) and removes its channel from the notificator; a later
   notification for its entry finds no channel and is dropped.  Channels are objects: with
   RecycleChannels = FALSE (as shipped) every Register makes a new, empty one; with TRUE a removed
   channel goes to a free list as it is and the next Register takes it - together with whatever
   an abandoned caller left in it, which the next caller then takes for its own outcome. *)
EXTENDS Integers, Sequences, FiniteSets, TLC

CONSTANTS Callers, Ids, NotifCap, Ops,   \* Ops: [Callers -> [op, id]]
          RecycleChannels, MayGiveUp       \* MayGiveUp: the callers that may give up

VARIABLES pc,       \* [Callers -> "start" | "registered" | "proposed" | "waiting" | "returned"]
          chan,     \* [channel object -> Seq(outcome)]
          chanOf,   \* [Callers -> channel object registered under the caller's entry id, 0 = none]
          free,     \* recycled channel objects
          made,     \* number of channel objects made so far
          log,      \* sequence of callers whose entries are committed, in commit order
          applied,  \* number of log entries applied
          store,    \* set of ids present
          outcome,  \* [Callers -> outcome or "none"]: what applying the caller's entry produced
          ret       \* [Callers -> what the caller returned, "none" before]
vars == <<pc, chan, chanOf, free, made, log, applied, store, outcome, ret>>
Chans == 1..Cardinality(Callers)

Init == /\ pc = [c \in Callers |-> "start"] /\ chan = [k \in Chans |-> <<>>]
        /\ chanOf = [c \in Callers |-> 0] /\ free = {} /\ made = 0
        /\ log = <<>> /\ applied = 0 /\ store = {}
        /\ outcome = [c \in Callers |-> "none"] /\ ret = [c \in Callers |-> "none"]

Register(c) == /\ pc[c] = "start" /\ pc' = [pc EXCEPT ![c] = "registered"]
               /\ IF RecycleChannels /\ free # {}
                  THEN LET k == CHOOSE x \in free : TRUE IN
                       chanOf' = [chanOf EXCEPT ![c] = k] /\ free' = free \ {k} /\ UNCHANGED <<made, chan>>
                  ELSE chanOf' = [chanOf EXCEPT ![c] = made + 1] /\ made' = made + 1 /\ UNCHANGED <<free, chan>>
               /\ UNCHANGED <<log, applied, store, outcome, ret>>
Propose(c)  == pc[c] = "registered" /\ pc' = [pc EXCEPT ![c] = "proposed"] /\ log' = Append(log, c)
               /\ UNCHANGED <<chan, chanOf, free, made, applied, store, outcome, ret>>
\* the gap between raft.Propose returning and the select
EnterSelect(c) == pc[c] = "proposed" /\ pc' = [pc EXCEPT ![c] = "waiting"] /\ UNCHANGED <<chan, chanOf, free, made, log, applied, store, outcome, ret>>
\* the deferred notificator.Remove: the channel leaves the map (and, recycled, joins the free list undrained)
Release(c) == /\ chanOf' = [chanOf EXCEPT ![c] = 0]
              /\ free' = IF RecycleChannels THEN free \cup {chanOf[c]} ELSE free
Receive(c) == /\ pc[c] = "waiting" /\ chan[chanOf[c]] # <<>>
              /\ ret' = [ret EXCEPT ![c] = Head(chan[chanOf[c]])] /\ chan' = [chan EXCEPT ![chanOf[c]] = Tail(@)]
              /\ pc' = [pc EXCEPT ![c] = "returned"] /\ Release(c) /\ UNCHANGED <<made, log, applied, store, outcome>>
\* context cancelled / timed out: whether or not the outcome has been delivered meanwhile
GiveUp(c) == /\ c \in MayGiveUp /\ pc[c] \in {"proposed", "waiting"}
             /\ ret' = [ret EXCEPT ![c] = "err"] /\ pc' = [pc EXCEPT ![c] = "returned"]
             /\ Release(c) /\ UNCHANGED <<chan, made, log, applied, store, outcome>>

Eval(c) == LET o == Ops[c] IN
  IF o.op = "insert" THEN (IF o.id \in store THEN "exists" ELSE "ok")
  ELSE (IF o.id \in store THEN "ok" ELSE "notfound")
Apply == /\ applied < Len(log)
         /\ LET c == log[applied + 1]  r == Eval(c)  o == Ops[c] IN
            /\ store' = IF r = "ok" THEN (IF o.op = "insert" THEN store \cup {o.id} ELSE store \ {o.id}) ELSE store
            /\ outcome' = [outcome EXCEPT ![c] = r]
            \* Notify(id, r, non-blocking): nothing happens when no channel is registered under the id any more
            /\ chan' = IF chanOf[c] = 0 THEN chan
                       ELSE [chan EXCEPT ![chanOf[c]] =
                          IF Len(@) < NotifCap \/ (NotifCap = 0 /\ pc[c] = "waiting" /\ @ = <<>>) THEN Append(@, r) ELSE @]
         /\ applied' = applied + 1
         /\ UNCHANGED <<pc, chanOf, free, made, log, ret>>
\* with capacity 0 a send succeeds only as a rendezvous: the value is consumed at once
Rendezvous(c) == NotifCap = 0 /\ Receive(c)

Next == (\E c \in Callers : Register(c) \/ Propose(c) \/ EnterSelect(c) \/ Receive(c) \/ GiveUp(c)) \/ Apply
Spec == Init /\ [][Next]_vars
FairSpec == Spec /\ WF_vars(Apply) /\ \A c \in Callers : WF_vars(Register(c) \/ Propose(c) \/ EnterSelect(c) \/ Receive(c))

\* C11
Truthful  == \A c \in Callers : ret[c] \notin {"none", "err"} => ret[c] = outcome[c]   \* the caller gets ITS outcome (or an error), hence ok only if applied
Delivered == \A c \in Callers : <>(pc[c] = "returned")                           \* ... and always gets it (no timeout in the model)
=============================================================================
