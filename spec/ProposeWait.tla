----------------------------- MODULE ProposeWait -----------------------------
(* C11: storage/partition.go proposeAndWaitForCommit + utils/notificator.go.

   A caller registers a notification channel of capacity NotifCap (the code as
   shipped: 0), proposes its change, and only then starts to wait on the channel.
   The apply loop applies committed entries in log order and notifies the entry's
   channel WITHOUT blocking: with an unbuffered channel the outcome is dropped
   unless the caller already sits in its select.  Every replica applies every
   entry; only the proposer's replica has a channel registered under the entry's
   id (ids are unique), so an outcome can reach no other caller.

   Outcomes are those of a set of ids (insert: ok / exists; remove: ok / notfound). *)
EXTENDS Integers, Sequences, FiniteSets, TLC

CONSTANTS Callers, Ids, NotifCap, Ops   \* Ops: [Callers -> [op, id]]

VARIABLES pc,       \* [Callers -> "start" | "registered" | "proposed" | "waiting" | "returned"]
          chan,     \* [Callers -> Seq(outcome)]   the caller's notification channel (registered once pc # "start")
          log,      \* sequence of callers whose entries are committed, in commit order
          applied,  \* number of log entries applied
          store,    \* set of ids present
          outcome,  \* [Callers -> outcome or "none"]: what applying the caller's entry produced
          ret       \* [Callers -> what the caller returned, "none" before]
vars == <<pc, chan, log, applied, store, outcome, ret>>

Init == /\ pc = [c \in Callers |-> "start"] /\ chan = [c \in Callers |-> <<>>]
        /\ log = <<>> /\ applied = 0 /\ store = {}
        /\ outcome = [c \in Callers |-> "none"] /\ ret = [c \in Callers |-> "none"]

Register(c) == pc[c] = "start" /\ pc' = [pc EXCEPT ![c] = "registered"] /\ UNCHANGED <<chan, log, applied, store, outcome, ret>>
Propose(c)  == pc[c] = "registered" /\ pc' = [pc EXCEPT ![c] = "proposed"] /\ log' = Append(log, c)
               /\ UNCHANGED <<chan, applied, store, outcome, ret>>
\* the gap between raft.Propose returning and the select
EnterSelect(c) == pc[c] = "proposed" /\ pc' = [pc EXCEPT ![c] = "waiting"] /\ UNCHANGED <<chan, log, applied, store, outcome, ret>>
Receive(c) == /\ pc[c] = "waiting" /\ chan[c] # <<>>
              /\ ret' = [ret EXCEPT ![c] = Head(chan[c])] /\ chan' = [chan EXCEPT ![c] = Tail(@)]
              /\ pc' = [pc EXCEPT ![c] = "returned"] /\ UNCHANGED <<log, applied, store, outcome>>

Eval(c) == LET o == Ops[c] IN
  IF o.op = "insert" THEN (IF o.id \in store THEN "exists" ELSE "ok")
  ELSE (IF o.id \in store THEN "ok" ELSE "notfound")
Apply == /\ applied < Len(log)
         /\ LET c == log[applied + 1]  r == Eval(c)  o == Ops[c] IN
            /\ store' = IF r = "ok" THEN (IF o.op = "insert" THEN store \cup {o.id} ELSE store \ {o.id}) ELSE store
            /\ outcome' = [outcome EXCEPT ![c] = r]
            \* Notify(id, r, non-blocking)
            /\ chan' = [chan EXCEPT ![c] =
                          IF Len(@) < NotifCap \/ (NotifCap = 0 /\ pc[c] = "waiting" /\ @ = <<>>) THEN Append(@, r) ELSE @]
         /\ applied' = applied + 1
         /\ UNCHANGED <<pc, log, ret>>
\* with capacity 0 a send succeeds only as a rendezvous: the value is consumed at once
Rendezvous(c) == NotifCap = 0 /\ Receive(c)

Next == (\E c \in Callers : Register(c) \/ Propose(c) \/ EnterSelect(c) \/ Receive(c)) \/ Apply
Spec == Init /\ [][Next]_vars
FairSpec == Spec /\ WF_vars(Apply) /\ \A c \in Callers : WF_vars(Register(c) \/ Propose(c) \/ EnterSelect(c) \/ Receive(c))

\* C11
Truthful  == \A c \in Callers : ret[c] # "none" => ret[c] = outcome[c]          \* the caller gets ITS outcome, hence ok only if applied
Delivered == \A c \in Callers : <>(pc[c] = "returned")                           \* ... and always gets it (no timeout in the model)
=============================================================================
