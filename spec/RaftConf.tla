------------------------------ MODULE RaftConf ------------------------------
(* The host's bookkeeping of a raft group's membership (storage/raft/group.go:
   raftConfState, trySnapshot, the snapshot branch of the ready loop, start-up),
   which RaftHost.tla leaves out (its groups have a fixed membership).

   The group's log is abstracted to its membership entries: log[i] is <<"add", n>>,
   <<"remove", n>> or <<"data">>.  Every node n has
     applied[n]   index up to which it has applied the log
     libConf[n]   the configuration inside the raft library (always right: the library
                  rebuilds it from the snapshot's metadata and the entries it applies)
     hostConf[n]  the host's copy, raftConfState: [has, conf] (has = FALSE: nil).  It is what
                  trySnapshot hands to wal.CreateSnapshot as the snapshot's ConfState
     snap[n]      the local snapshot in the node's store: [idx, conf]
     first[n]     first index still in the node's log (compaction)
   Actions: a membership / data entry is appended (committed at once - consensus is
   RaftHost's business), a node applies its next entry (ApplyConfChange returns the
   library's full configuration, which the host stores), takes a local snapshot
   (refused while the host has no configuration, as wal.CreateSnapshot does) and compacts,
   receives a peer's snapshot because the entries it needs are gone, restarts.

   Switches:
     UpdateOnInstall   TRUE: installing a received snapshot also sets hostConf to the
                       snapshot's ConfState (repaired); FALSE: it keeps what it was (shipped)
     RestoreOnRestart  TRUE: after a restart hostConf is the stored configuration
                       (repaired); FALSE: it is nil until the next membership entry (shipped:
                       the node cannot snapshot - no compaction - but writes nothing wrong)

     JoinerKnows       FALSE (shipped): a node restarts the way the allocator restarts every replica -
                       startRaftNode with the partition's node list, which BOOTSTRAPS a group when the
                       store is empty.  For a node that was ADDED to an existing group (it started with
                       an empty log and no peers) and dies before its first durable write that is a
                       group of its own: fabricated configuration entries at positions where the real
                       group has other entries (NoFork; open finding of C05 / C03).  TRUE: the start-up
                       knows that the replica joined an existing group and starts it without peers.

   SnapConfExact: the ConfState of every stored snapshot is the membership at its index -
   what a restart (and every node that is sent this snapshot) rebuilds its quorum from.
   TLC: holds with UpdateOnInstall = TRUE, counterexample with FALSE (a follower that was
   away while nodes joined, caught up by snapshot, snapshots locally). *)
EXTENDS Integers, Sequences, FiniteSets, TLC
CONSTANTS Node, InitMembers, MaxLog, MaxRestarts, UpdateOnInstall, RestoreOnRestart, JoinerKnows
VARIABLES log, applied, libConf, hostConf, snap, first, restarts,
          stored,   \* [Node -> BOOLEAN]: the node's store holds something (entries, hard state, snapshot)
          forked    \* [Node -> BOOLEAN]: the node bootstrapped a group of its own over an existing one
vars == <<log, applied, libConf, hostConf, snap, first, restarts, stored, forked>>

NoConf == [has |-> FALSE, conf |-> {}]
Has(c) == [has |-> TRUE, conf |-> c]
RECURSIVE MembersAt(_)
MembersAt(i) ==
  IF i = 0 THEN InitMembers
  ELSE LET e == log[i]  m == MembersAt(i - 1)
       IN CASE e[1] = "add" -> m \cup {e[2]}
            [] e[1] = "remove" -> m \ {e[2]}
            [] OTHER -> m

Init == /\ log = <<>>
        /\ applied = [n \in Node |-> 0]
        /\ libConf = [n \in Node |-> InitMembers]
        /\ hostConf = [n \in Node |-> Has(InitMembers)]     \* the bootstrap entries are conf changes the host applies
        /\ snap = [n \in Node |-> [idx |-> 0, conf |-> {}]]
        /\ first = [n \in Node |-> 1]
        /\ restarts = 0
        /\ stored = [n \in Node |-> n \in InitMembers]      \* the bootstrap entries are the first durable write
        /\ forked = [n \in Node |-> FALSE]

AppendEntry(e) == /\ Len(log) < MaxLog /\ log' = Append(log, e)
             /\ UNCHANGED <<applied, libConf, hostConf, snap, first, restarts, stored, forked>>
AppendAdd(n) == n \notin MembersAt(Len(log)) /\ AppendEntry(<<"add", n>>)
AppendRemove(n) == n \in MembersAt(Len(log)) /\ Cardinality(MembersAt(Len(log))) > 1 /\ AppendEntry(<<"remove", n>>)
AppendData == AppendEntry(<<"data">>)

\* n applies its next entry from its own log or the leader's (the entry must still exist somewhere it can
\* be sent from: some node whose log has not been compacted past it)
Apply(n) ==
  /\ applied[n] < Len(log)
  /\ \E m \in Node : first[m] <= applied[n] + 1
  /\ LET i == applied[n] + 1 IN
     /\ applied' = [applied EXCEPT ![n] = i]
     /\ libConf' = [libConf EXCEPT ![n] = MembersAt(i)]
     /\ hostConf' = [hostConf EXCEPT ![n] = IF log[i][1] \in {"add", "remove"} THEN Has(MembersAt(i)) ELSE @]
  /\ stored' = [stored EXCEPT ![n] = TRUE]
  /\ UNCHANGED <<log, snap, first, restarts, forked>>

\* trySnapshot + CreateSnapshot: refused without a configuration; compacts the log up to the snapshot
LocalSnapshot(n) ==
  /\ hostConf[n].has /\ applied[n] > snap[n].idx
  /\ snap' = [snap EXCEPT ![n] = [idx |-> applied[n], conf |-> hostConf[n].conf]]
  /\ first' = [first EXCEPT ![n] = applied[n] + 1]
  /\ UNCHANGED <<log, applied, libConf, hostConf, restarts, stored, forked>>

\* a node that is behind every log it could be fed from receives a peer's snapshot (MsgSnap)
InstallSnapshot(n, m) ==
  /\ n # m /\ snap[m].idx > applied[n] /\ first[m] > applied[n] + 1
  /\ applied' = [applied EXCEPT ![n] = snap[m].idx]
  /\ libConf' = [libConf EXCEPT ![n] = snap[m].conf]
  /\ hostConf' = [hostConf EXCEPT ![n] = IF UpdateOnInstall THEN Has(snap[m].conf) ELSE @]
  /\ snap' = [snap EXCEPT ![n] = snap[m]]
  /\ first' = [first EXCEPT ![n] = snap[m].idx + 1]
  /\ stored' = [stored EXCEPT ![n] = TRUE]
  /\ UNCHANGED <<log, restarts, forked>>

\* restart: the library rebuilds its configuration from the stored snapshot and the entries after it
\* (replayed through Apply); the host's copy starts from the store or from nothing
Restart(n) ==
  /\ restarts < MaxRestarts /\ restarts' = restarts + 1
  /\ applied' = [applied EXCEPT ![n] = snap[n].idx]
  /\ libConf' = [libConf EXCEPT ![n] = IF snap[n].idx = 0 THEN InitMembers ELSE snap[n].conf]
  /\ hostConf' = [hostConf EXCEPT ![n] = IF RestoreOnRestart
                                          THEN Has(IF snap[n].idx = 0 THEN InitMembers ELSE snap[n].conf)
                                          ELSE NoConf]
  \* a replica with an empty store that is listed in the group's current membership: the allocator hands it that
  \* list, startRaftNode bootstraps.  Right for the initial members (they all bootstrap the same group), a fork
  \* for a node that was added to a running group
  /\ forked' = [forked EXCEPT ![n] = @ \/ (~JoinerKnows /\ ~stored[n] /\ n \notin InitMembers /\ n \in MembersAt(Len(log)))]
  /\ UNCHANGED <<log, snap, first, stored>>

Next == \/ \E n \in Node : AppendAdd(n) \/ AppendRemove(n) \/ Apply(n) \/ LocalSnapshot(n) \/ Restart(n)
        \/ AppendData
        \/ \E n, m \in Node : InstallSnapshot(n, m)
Spec == Init /\ [][Next]_vars

-----------------------------------------------------------------------------
TypeOK == /\ \A n \in Node : applied[n] \in 0..Len(log) /\ snap[n].idx <= applied[n] /\ first[n] <= applied[n] + 1
\* the stored snapshot describes the membership at its index
SnapConfExact == \A n \in Node : snap[n].idx > 0 => snap[n].conf = MembersAt(snap[n].idx)
\* the library's configuration is the membership at the applied index (what the model assumes of the library,
\* given exact snapshots)
LibConfExact == \A n \in Node : libConf[n] = MembersAt(applied[n])
\* when the host holds a configuration at all it is the current one
\* nobody bootstraps a second group over an existing one
NoFork == \A n \in Node : ~forked[n]
HostConfExact == \A n \in Node : hostConf[n].has => hostConf[n].conf = MembersAt(applied[n])
=============================================================================
