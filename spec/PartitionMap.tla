---------------------------- MODULE PartitionMap ----------------------------
(* C02: what a partition is to its users - a sequential map
      id -> (point, metadata)
   with exact outcomes and exact counters.  Six change kinds as in
   storage/partition.go; failed operations change nothing (UNCHANGED is part of
   the action, so a failing call that mutates is not a behaviour of this spec).
   Hnsw.tla refines this module under the mapping live vertices |-> store
   (checked by TLC as the property HnswMC!RefinesMap). *)
EXTENDS Integers, Sequences, FiniteSets, TLC

CONSTANTS Ids, Points, Keys, Vals, Dim, KVBytes, MaxBatch
Metas  == [Keys -> Vals \cup {0}]
NoMeta == [k \in Keys |-> 0]
Merge(new, old) == [k \in Keys |-> IF new[k] # 0 THEN new[k] ELSE old[k]]
ItemBytes(m) == 16 + 4 * Dim + KVBytes * Cardinality({k \in Keys : m[k] # 0})

VARIABLES store,   \* [SUBSET Ids -> [pt, meta]]
          mlen, mbytes, mlast
mvars == <<store, mlen, mbytes, mlast>>

Empty == [x \in {} |-> 0]
Drop(f, x) == [y \in DOMAIN f \ {x} |-> f[y]]
Put(f, x, v) == [y \in DOMAIN f \cup {x} |-> IF y = x THEN v ELSE f[y]]

InsertM(s, id, pt, meta) == IF id \in DOMAIN s THEN [s |-> s, res |-> "exists"]
                            ELSE [s |-> Put(s, id, [pt |-> pt, meta |-> meta]), res |-> "ok"]
RemoveM(s, id) == IF id \in DOMAIN s THEN [s |-> Drop(s, id), res |-> "ok"] ELSE [s |-> s, res |-> "notfound"]
UpdateM(s, id, pt, meta) == IF id \in DOMAIN s
                            THEN [s |-> Put(s, id, [pt |-> pt, meta |-> Merge(meta, s[id].meta)]), res |-> "ok"]
                            ELSE [s |-> s, res |-> "notfound"]
RECURSIVE FoldM(_, _, _, _)
FoldM(s, kind, items, errs) ==
  IF items = <<>> THEN [s |-> s, errs |-> errs]
  ELSE LET it == Head(items)
           r  == CASE kind = "binsert" -> InsertM(s, it.id, it.pt, it.meta)
                   [] kind = "bupdate" -> UpdateM(s, it.id, it.pt, it.meta)
                   [] kind = "bremove" -> RemoveM(s, it.id)
       IN FoldM(r.s, kind, Tail(items), IF r.res = "ok" THEN errs ELSE (it.id :> r.res) @@ errs)

RECURSIVE SumB(_, _)
SumB(s, D) == IF D = {} THEN 0 ELSE LET x == CHOOSE y \in D : TRUE IN ItemBytes(s[x].meta) + SumB(s, D \ {x})
Counters(s) == mlen' = Cardinality(DOMAIN s) /\ mbytes' = SumB(s, DOMAIN s)

MInit == store = Empty /\ mlen = 0 /\ mbytes = 0 /\ mlast = [op |-> "init"]

MInsert(id, pt, meta) == LET r == InsertM(store, id, pt, meta)
                         IN store' = r.s /\ Counters(r.s) /\ mlast' = [op |-> "insert", id |-> id, res |-> r.res]
MRemove(id) == LET r == RemoveM(store, id)
               IN store' = r.s /\ Counters(r.s) /\ mlast' = [op |-> "remove", id |-> id, res |-> r.res]
MUpdate(id, pt, meta) == LET r == UpdateM(store, id, pt, meta)
                         IN store' = r.s /\ Counters(r.s) /\ mlast' = [op |-> "update", id |-> id, res |-> r.res]
MBatch(kind, items) == LET r == FoldM(store, kind, items, Empty)
                       IN store' = r.s /\ Counters(r.s) /\ mlast' = [op |-> kind, errs |-> r.errs]
MSaveLoad == UNCHANGED <<store, mlen, mbytes>> /\ mlast' = [op |-> "saveload"]

BItem == [id : Ids, pt : Points, meta : Metas]
MNext == \/ \E id \in Ids, pt \in Points, m \in Metas : MInsert(id, pt, m) \/ MUpdate(id, pt, m)
         \/ \E id \in Ids : MRemove(id)
         \/ MSaveLoad
         \/ \E kind \in {"binsert", "bupdate", "bremove"}, n \in 1..MaxBatch : \E items \in [1..n -> BItem] : MBatch(kind, items)
MSpec == MInit /\ [][MNext]_mvars

\* the counters are functions of the map (C02: "the item count always equals the number of live ids")
CountersOK == mlen = Cardinality(DOMAIN store) /\ mbytes = SumB(store, DOMAIN store)
\* failed operations change nothing
FailedUnchanged == [][(mlast'.op \in {"insert", "remove", "update"} /\ mlast'.res # "ok") => store' = store]_mvars
=============================================================================
