SPECIFICATION MCSpec
CONSTANTS
  Ids = {1, 2, 3}
  Points = {1, 2, 3, 4}
  Rank <- RankDef
  MaxLevel = 1
  M = 1
  MMax = 1
  MMax0 = 2
  MaxVtx = 4
  Ks = {1, 2}
  Keys = {"a"}
  Vals = {1}
  Dim = 3
  KVBytes = 2
  MaxBatch = 0
  HandOverFilter = TRUE
  MaxOps = 100
PROPERTY RefinesMap
INVARIANTS LenOK BytesOK MapOK EpLive SearchSound Budget SmallExact RoundTrip
VIEW View
CHECK_DEADLOCK FALSE
