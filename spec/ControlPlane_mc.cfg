SPECIFICATION Spec
CONSTANTS
  Entries <- E_conf_create
  NotifCap = 10
  UnderRepl = TRUE
  WatchSendUnderLock = FALSE
  InlineNodeChanges = FALSE
  AnswerEveryUpd = TRUE
