SPECIFICATION GSpec
CONSTANTS
  Groups = {"g1", "g2"}
  MaxIdx = 4
  MaxTerm = 2
  MaxOps = 5
INVARIANT Emit
VIEW GView
CHECK_DEADLOCK FALSE
