SPECIFICATION GSpec
CONSTANTS
  Ids = {1, 2, 3}
  Points = {1, 2, 3, 4}
  Rank <- RankDef
  MaxLevel = 1
  M = 1
  MMax = 1
  MMax0 = 2
  MaxVtx = 4
  Ks = {1, 2}
  Keys = {"a"}
  Vals = {}
  Dim = 3
  KVBytes = 2
  MaxBatch = 0
  HandOverFilter = TRUE
  MaxOps = 6
INVARIANT Emit
VIEW GView
CHECK_DEADLOCK FALSE
