SPECIFICATION Spec
CONSTANTS
  Dialers = {"d1", "d2"}
  Readers = {"r1"}
  DialNested = FALSE
  NestedRead = FALSE
  MaxOps = 3
INVARIANT LockOK
CHECK_DEADLOCK TRUE
