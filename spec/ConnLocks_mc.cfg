SPECIFICATION Spec
CONSTANTS
  Dialers = {"d1", "d2"}
  DialNested = FALSE
  MaxOps = 3
INVARIANT LockOK
CHECK_DEADLOCK TRUE
