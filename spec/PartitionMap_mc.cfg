SPECIFICATION MSpec
CONSTANTS
  Ids = {1, 2, 3}
  Points = {1, 2}
  Keys = {"a"}
  Vals = {1, 2}
  Dim = 3
  KVBytes = 2
  MaxBatch = 2
INVARIANT CountersOK
PROPERTY FailedUnchanged
CHECK_DEADLOCK FALSE
