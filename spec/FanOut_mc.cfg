SPECIFICATION FairSpec
CONSTANTS
  W = {"w1", "w2", "w3"}
  CloseChans = "none"
  Outcomes = {"ok", "err", "slow"}
  LoopVarShared = FALSE
INVARIANTS NoNilNil OkMeansAll FailLoud
PROPERTY Returns
CHECK_DEADLOCK FALSE
