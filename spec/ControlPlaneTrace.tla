-------------------------- MODULE ControlPlaneTrace --------------------------
(* Binding V for C18.  One event per scenario run on the real control plane
   (cluster.Conn + Allocator + DatasetManager over a scripted zero group whose apply
   goroutine applies entries strictly in order): did the node finish applying its log
   (ControlPlane.tla's Done state) and does it still apply a further entry afterwards?
   A run that ends in a state ControlPlane.tla calls a deadlock is rejected; its blocked
   goroutines' frames are the signature the check compares with the known findings. *)
EXTENDS Integers, Sequences, FiniteSets, TLC, Json
CONSTANT TraceFile
Trace == ndJsonDeserialize(TraceFile)
VARIABLES l, viol
vars == <<l, viol>>
Init == l = 1 /\ viol = {}
Step == /\ l <= Len(Trace) /\ l' = l + 1
        /\ LET t == Trace[l] IN
           viol' = viol \cup (IF t.stalled = 1 \/ t.pending > 0 THEN {<<l, "Stall">>} ELSE {})
                        \cup (IF t.stalled = 0 /\ t.serving = 0 THEN {<<l, "NotServing">>} ELSE {})
                        \cup (IF t.stalled = 0 /\ t.applied < t.entries THEN {<<l, "EntriesLost">>} ELSE {})
                        \* every proposer of a catalogue change is answered once its entry is applied (stale = 1: with the log
                        \* drained and idle for 3 s a goroutine still waits in DatasetManager for the outcome of its proposal -
                        \* the allocator's node-change worker, whose context ends at shutdown only, is then blocked for good)
                        \* every running raft group belongs to a loaded partition of a dataset in the catalogue (extragroups: groups beyond those)
                        \cup (IF t.stalled = 0 /\ t.extragroups > 0 THEN {<<l, "GroupOutlivesPartition">>} ELSE {})
                        \cup (IF t.stalled = 0 /\ t.stale > 0 THEN {<<l, "ProposalNeverAnswered">>} ELSE {})
Spec == Init /\ [][Step]_vars
Report == l = Len(Trace) + 1 => PrintT(<<"VIOL", ToJson([n |-> Len(Trace), v |-> viol])>>)
=============================================================================
