SPECIFICATION Spec
CONSTANTS
  Classes = {"v1", "v2", "bad.id", "bad.pbid", "bad.dim", "bad.other"}
  ValidSet = {"v1", "v2"}
  Poisonous = {"bad.pbid"}
  Crashing = {"bad.id", "bad.dim"}
  Validates = TRUE
  MaxReq = 3
INVARIANTS Alive NoPoison
CHECK_DEADLOCK FALSE
