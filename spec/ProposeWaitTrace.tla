-------------------------- MODULE ProposeWaitTrace --------------------------
(* Binding V for C11.  Events recorded from real write calls:
   write : one Dataset.Insert/Update/Remove call; path says where the owner is
           (local: this node's real raft group; remote-ok / remote-err: a scripted
           owner; noaddr: the owner has no known address; baddim: wrong dimension);
           order says whether the gate let the apply loop run before the caller
           reached its select (apply-first) or not; abandoned = apply-first and the caller's
           context is cancelled before it is released (the call after it must get its OWN outcome).
   conc  : several gated concurrent inserts, same id or distinct ids.
   batch : a batch call mixing partitions and item kinds; expect = the ids that
           must be reported, with their error class.
   The local outcomes are those of ProposeWait's set semantics (Eval). *)
EXTENDS Integers, Sequences, FiniteSets, TLC, Json
CONSTANT TraceFile
Trace == ndJsonDeserialize(TraceFile)
VARIABLES l, viol
vars == <<l, viol>>

Expected(t) == IF t.kind = "insert" THEN (IF t.before = 1 THEN "exists" ELSE "ok")
               ELSE (IF t.before = 1 THEN "ok" ELSE "notfound")
AfterOk(t) == CASE t.kind = "insert" -> t.after = 1
                [] t.kind = "update" -> t.after = 1
                [] t.kind = "remove" -> t.after = 0
WriteViol(t) ==
  CASE t.path = "local" ->
         (IF t.ret = "ok" /\ ~AfterOk(t) THEN {<<l, "FalseAck">>} ELSE {})
         \cup (IF t.ret = "timeout" THEN {<<l, "OutcomeLost">>}
               \* order = "abandoned": the caller's context was cancelled after the outcome had been delivered -
               \* it may return that outcome or the cancellation (an error is never a false acknowledgement)
               ELSE IF t.ret # Expected(t) /\ ~(t.order = "abandoned" /\ t.ret = "err") THEN {<<l, "WrongOutcome">>} ELSE {})
    [] t.path = "local-noquorum" ->     \* accepted by the leader, never committed: must not be acknowledged
         (IF t.ret = "ok" \/ t.after # t.before THEN {<<l, "FalseAck">>} ELSE {})
    [] t.path = "local-unload" ->       \* the raft group is unloaded under a write that is about to propose
         (IF t.ret = "panic" THEN {<<l, "HandlerPanic">>} ELSE {})
         \cup (IF t.ret = "hang" THEN {<<l, "OutcomeLost">>} ELSE {})
         \cup (IF t.ret = "ok" /\ t.kind = "insert" /\ t.after # 1 THEN {<<l, "FalseAck">>} ELSE {})
    [] t.path = "remote-ok" ->
         (IF t.ret = "ok" /\ t.remote = 1 THEN {} ELSE {<<l, "ProxyLost">>})
    [] t.path \in {"remote-err", "noaddr", "down"} ->    \* down: the owner's address refuses connections, the caller set no time limit
         (IF t.ret = "ok" THEN {<<l, "FalseAck">>} ELSE {})
         \cup (IF t.ret = "hang" THEN {<<l, "NoAnswer">>} ELSE {})
         \cup (IF t.remote = 0 THEN {} ELSE {<<l, "FalseAck">>})
    [] t.path = "baddim" ->
         (IF t.ret = "dim" /\ t.remote = 0 /\ t.after = t.before THEN {} ELSE {<<l, "DimNotRejected">>})
ConcViol(t) ==
  LET n == Len(t.rets)
      oks == Cardinality({j \in 1..n : t.rets[j] = "ok"})
      exs == Cardinality({j \in 1..n : t.rets[j] = "exists"})
  IN IF t.same = 1 THEN (IF oks = 1 /\ exs = n - 1 THEN {} ELSE {<<l, "NotLinearizable">>})
     ELSE (IF oks = n THEN {} ELSE {<<l, "OutcomeLost">>})
BatchViol(t) == IF t.ret = "ok" /\ t.got = t.expect THEN {} ELSE {<<l, "BatchErrors">>}

Init == l = 1 /\ viol = {}
Step == /\ l <= Len(Trace) /\ l' = l + 1
        /\ LET t == Trace[l] IN
           viol' = viol \cup (CASE t.ev = "write" -> WriteViol(t) [] t.ev = "conc" -> ConcViol(t) [] t.ev = "batch" -> BatchViol(t))
Spec == Init /\ [][Step]_vars
Report == l = Len(Trace) + 1 => PrintT(<<"VIOL", ToJson([n |-> Len(Trace), v |-> viol])>>)
=============================================================================
