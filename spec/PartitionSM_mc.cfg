SPECIFICATION Spec
CONSTANTS
  Ids = {1, 2}
  Points = {1, 2}
  Keys = {"a"}
  Vals = {1}
  Replicas = {"A", "B"}
  MaxLog = 3
INVARIANTS SameIndexSameStore EqualsReplay SnapshotIsPrefix OutcomesAgree
CHECK_DEADLOCK FALSE
