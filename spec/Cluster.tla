------------------------------- MODULE Cluster -------------------------------
(* C10: item routing.  Owner is a fixed total function Ids -> partitions (what
   utils.UuidMod computes from the id and the partition count).  A write for an id
   may enter at any node and through any API path (single or batch insert / update /
   remove); the entry node applies it locally if it hosts the owner partition and
   otherwise forwards it to a node of the owner's replica set (single paths: the
   remote node routes again with the same function; batch paths: the partition id
   travels with the request).  Switch PathOwner models a path that computes a
   different owner (e.g. from half of the id): TLC then finds an item stored in a
   partition that is not its owner. *)
EXTENDS Integers, FiniteSets, TLC
CONSTANTS Ids, NP, Nodes, Owner, Hosts, Paths, PathOwner
\* Owner : [Ids -> 0..NP-1];  Hosts : [0..NP-1 -> SUBSET Nodes];  PathOwner : [Paths -> [Ids -> 0..NP-1]]
VARIABLES stored
vars == <<stored>>
Init == stored = [p \in 0..(NP - 1) |-> {}]
Write(entry, path, id) ==
  LET p == PathOwner[path][id]      \* the partition this path picks at the entry node
      \* forwarded single-item requests are routed again by the receiving node (with the insert path's function)
      q == IF entry \in Hosts[p] \/ path \in {"binsert", "bupdate", "bremove"} THEN p ELSE PathOwner["insert"][id]
  IN stored' = [stored EXCEPT ![q] = @ \cup {id}]
Next == \E e \in Nodes, pa \in Paths, i \in Ids : Write(e, pa, i)
Spec == Init /\ [][Next]_vars
OwnerOnly == \A p \in 0..(NP - 1) : \A i \in stored[p] : Owner[i] = p
\* no id in two partitions (routing is a function of the id)
Stable == \A p, q \in 0..(NP - 1) : p # q => stored[p] \cap stored[q] = {}
=============================================================================
