------------------------------- MODULE ApiTrace -------------------------------
(* Binding V for C12: one event per request class fired at a real single-node
   server process that holds a valid dataset: the request's outcome, whether the
   process survived and still serves a valid insert + search (probe), and whether it
   comes back and serves after kill -9 + restart on the same directory.  Accepted
   iff the run is a behaviour of Api.tla with Validates = TRUE: outcome ok or err
   (ok required for the valid classes), alive, restart alive, probes served. *)
EXTENDS Integers, Sequences, FiniteSets, TLC, Json
CONSTANT TraceFile
Trace == ndJsonDeserialize(TraceFile)
VARIABLES l, viol
vars == <<l, viol>>
Init == l = 1 /\ viol = {}
V(t) ==
  IF t.setup # "" THEN {<<l, "Setup">>}
  ELSE (IF t.alive = 1 THEN {} ELSE {<<l, "Crash">>})
       \cup (IF t.outcome = "hang" THEN {<<l, "Hang">>} ELSE {})
       \cup (IF t.valid = 1 /\ t.outcome # "ok" /\ t.alive = 1 THEN {<<l, "ValidRejected">>} ELSE {})
       \cup (IF t.alive = 1 /\ t.probe # "" THEN {<<l, "NotServing">>} ELSE {})
       \cup (IF t.restart = 1 THEN {} ELSE {<<l, "PoisonedLog">>})
       \cup (IF t.restart = 1 /\ t.replayprobe # "" THEN {<<l, "ReplayNotServing">>} ELSE {})
       \* C09: a search over something that is not there fails loudly
       \cup (IF t.musterr = 1 /\ t.outcome = "ok" THEN {<<l, "SilentSuccess">>} ELSE {})
Step == /\ l <= Len(Trace) /\ l' = l + 1 /\ viol' = viol \cup V(Trace[l])
Spec == Init /\ [][Step]_vars
Report == l = Len(Trace) + 1 => PrintT(<<"VIOL", ToJson([n |-> Len(Trace), v |-> viol])>>)
=============================================================================
