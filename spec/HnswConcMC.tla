----------------------------- MODULE HnswConcMC -----------------------------
EXTENDS HnswConc
\* two writers removing the entry point and its neighbour (the benchmark's usage)
P_rem_rem == [t \in Threads |-> IF t = "t1" THEN <<"rem", 1>> ELSE IF t = "t2" THEN <<"rem", 2>> ELSE <<"search", 0>>]
\* a writer removing the last vertex while another inserts
P_rem_ins == [t \in Threads |-> IF t = "t1" THEN <<"rem", 1>> ELSE IF t = "t2" THEN <<"ins", 4>> ELSE <<"search", 0>>]
\* one writer, readers only (the server's usage)
P_writer_readers == [t \in Threads |-> IF t = "t1" THEN <<"rem", 1>> ELSE <<"search", 0>>]
P_ins_readers == [t \in Threads |-> IF t = "t1" THEN <<"ins", 4>> ELSE <<"search", 0>>]
I3 == {1, 2, 3}
I1 == {1}
=============================================================================
