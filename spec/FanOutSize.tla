----------------------------- MODULE FanOutSize -----------------------------
(* Dataset.SizeInfo (C17), see the header of FanOut.tla.  Partitions P in loop
   order 1..NP; Local says which are on this node; remote lookups may fail. *)
EXTENDS Integers, Sequences, FiniteSets, TLC
CONSTANTS NP, LoopVarShared, CloseErr   \* CloseErr: helper closes errorCh when all goroutines are done (the code: TRUE)
P == 1..NP
VARIABLES local, fails,      \* fixed by Init: [P -> BOOLEAN]
          li,                \* loop variable: partition being visited (NP + 1 = loop finished)
          gs,                \* [P -> "none" | "spawned" | "read" | "done"]  goroutine of remote partition p
          target,            \* [P -> 0..NP]  which partition goroutine p actually asked about
          counted,           \* bag: [P -> Nat]  how many times partition p was added to the sum
          errCh, closed, ci, ret
vars == <<local, fails, li, gs, target, counted, errCh, closed, ci, ret>>
Init == /\ local \in [P -> BOOLEAN] /\ fails \in [P -> BOOLEAN]
        /\ li = 1 /\ gs = [p \in P |-> "none"] /\ target = [p \in P |-> 0] /\ counted = [p \in P |-> 0]
        /\ errCh = <<>> /\ closed = FALSE /\ ci = 0 /\ ret = "none"
Visit == /\ li <= NP
         /\ IF local[li] THEN /\ counted' = [counted EXCEPT ![li] = @ + 1] /\ errCh' = Append(errCh, "nil") /\ UNCHANGED gs
            ELSE /\ gs' = [gs EXCEPT ![li] = "spawned"] /\ UNCHANGED <<counted, errCh>>
         /\ li' = li + 1
         /\ UNCHANGED <<local, fails, target, closed, ci, ret>>
\* the goroutine reads the (captured) loop variable
GRead(p) == /\ gs[p] = "spawned"
            /\ target' = [target EXCEPT ![p] = IF LoopVarShared THEN (IF li > NP THEN NP ELSE IF li - 1 >= p THEN li - 1 ELSE p) ELSE p]
            /\ gs' = [gs EXCEPT ![p] = "read"]
            /\ UNCHANGED <<local, fails, li, counted, errCh, closed, ci, ret>>
GFinish(p) == /\ gs[p] = "read"
              /\ LET t == target[p] IN
                 IF fails[t] \/ local[t]      \* asking a node about a partition it does not host is an error, too
                 THEN errCh' = Append(errCh, "err") /\ UNCHANGED counted
                 ELSE counted' = [counted EXCEPT ![t] = @ + 1] /\ UNCHANGED errCh
              /\ gs' = [gs EXCEPT ![p] = "done"]
              /\ UNCHANGED <<local, fails, li, target, closed, ci, ret>>
Close == /\ CloseErr /\ ~closed /\ li > NP /\ \A p \in P : gs[p] \in {"none", "done"}
         /\ closed' = TRUE /\ UNCHANGED <<local, fails, li, gs, target, counted, errCh, ci, ret>>
Collect == /\ ret = "none" /\ li > NP /\ ci < NP
           /\ \/ /\ errCh # <<>> /\ Head(errCh) = "nil" /\ errCh' = Tail(errCh) /\ ci' = ci + 1 /\ UNCHANGED ret
              \/ /\ errCh # <<>> /\ Head(errCh) = "err" /\ errCh' = Tail(errCh) /\ ret' = "err" /\ UNCHANGED ci
              \/ /\ errCh = <<>> /\ closed /\ ci' = ci + 1 /\ UNCHANGED <<errCh, ret>>
           /\ UNCHANGED <<local, fails, li, gs, target, counted, closed>>
Finish == /\ ret = "none" /\ ci = NP /\ ret' = "ok" /\ UNCHANGED <<local, fails, li, gs, target, counted, errCh, closed, ci>>
Next == Visit \/ (\E p \in P : GRead(p) \/ GFinish(p)) \/ Close \/ Collect \/ Finish
Spec == Init /\ [][Next]_vars
FairSpec == Spec /\ WF_vars(Next)
\* C17: a successful answer counted every partition exactly once; a failed lookup is never hidden
EachOnce == ret = "ok" => \A p \in P : counted[p] = 1
FailLoud == ret = "ok" => \A p \in P : ~local[p] => ~fails[p]
Returns  == <>(ret # "none")
=============================================================================
