---------------------------- MODULE PQueueTrace ----------------------------
(* Binding V for C19, property level: an ndjson trace recorded from the real
   utils.PriorityQueue is replayed against the ABSTRACT layer of PQueue only
   (a set of items per queue object).  Every event carries the real result and
   the real contents (ToSlice) of every queue object after the call.
   Failed checks are accumulated, not fatal, so one run classifies them all. *)
EXTENDS Integers, Sequences, FiniteSets, TLC, Json
CONSTANT TraceFile
Trace == ndJsonDeserialize(TraceFile)
VARIABLES l, kinds, bags, viol
vars == <<l, kinds, bags, viol>>

Less(k, x, y) == IF k = "min" THEN x[1] < y[1] ELSE x[1] > y[1]
Extremal(k, S, x) == x \in S /\ \A y \in S : ~Less(k, y, x)
Opp(k) == IF k = "min" THEN "max" ELSE "min"
SetOf(s) == {s[i] : i \in 1..Len(s)}

Init == l = 1 /\ kinds = <<>> /\ bags = <<>> /\ viol = {}

\* contents of every queue object as logged vs. abstract bags B; op queue = oq
ContentViol(t, B, oq) ==
  IF t.quiet = 1 THEN {}     \* the harness did not look at the queues after this call (every second history: only at the end)
  ELSE IF Len(t.qs) # Len(B) THEN {<<l, "QueueCount">>}
  ELSE UNION {IF SetOf(t.qs[q]) = B[q] /\ Len(t.qs[q]) = Cardinality(B[q]) THEN {}
              ELSE {<<l, IF q = oq THEN "Contents" ELSE "Isolation">>} : q \in 1..Len(B)}

Step ==
  /\ l <= Len(Trace)
  /\ l' = l + 1
  /\ LET t == Trace[l] IN
     CASE t.ev = "new" ->
            LET its == IF "items" \in DOMAIN t THEN t.items ELSE <<>>
                B == << {<<its[i][1], its[i][2]>> : i \in 1..Len(its)} >>
            IN /\ kinds' = <<t.kind>> /\ bags' = B /\ viol' = viol \cup ContentViol(t, B, 1)
       [] t.ev = "push" ->
            LET B == [bags EXCEPT ![t.q] = @ \cup {<<t.p, t.t>>}]
            IN /\ bags' = B /\ kinds' = kinds
               /\ viol' = viol \cup ContentViol(t, B, t.q)
       [] t.ev = "pop" ->
            LET r == <<t.p, t.t>>
                B == [bags EXCEPT ![t.q] = @ \ {r}]
            IN /\ bags' = B /\ kinds' = kinds
               /\ viol' = viol \cup ContentViol(t, B, t.q)
                               \cup (IF Extremal(kinds[t.q], bags[t.q], r) THEN {} ELSE {<<l, "PopOrder">>})
       [] t.ev = "peek" ->
            /\ bags' = bags /\ kinds' = kinds
            /\ viol' = viol \cup ContentViol(t, bags, t.q)
                            \cup (IF Extremal(kinds[t.q], bags[t.q], <<t.p, t.t>>) THEN {} ELSE {<<l, "PeekOrder">>})
       [] t.ev = "reverse" ->
            LET B == Append(bags, bags[t.q])
            IN /\ bags' = B /\ kinds' = Append(kinds, Opp(kinds[t.q]))
               /\ viol' = viol \cup ContentViol(t, B, t.q)
       [] t.ev = "panic" ->
            /\ bags' = bags /\ kinds' = kinds /\ viol' = viol \cup {<<l, "Panic">>}

Spec == Init /\ [][Step]_vars
Report == l = Len(Trace) + 1 => PrintT(<<"VIOL", ToJson([n |-> Len(Trace), v |-> viol])>>)
=============================================================================
