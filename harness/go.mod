module verifharness

go 1.14

require (
	github.com/coreos/etcd v3.3.19+incompatible
	github.com/dgraph-io/badger/v2 v2.0.3
	github.com/golang/protobuf v1.3.5
	github.com/marekgalovic/anndb v0.0.0
	github.com/satori/go.uuid v1.2.0
	github.com/sirupsen/logrus v1.5.0
	google.golang.org/grpc v1.28.0
)

replace github.com/marekgalovic/anndb => /repo
