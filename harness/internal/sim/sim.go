// Package sim provides scripted "remote nodes": real gRPC servers on loopback that
// implement anndb's Search and DataManager services with programmable answers,
// failures and gates, so that only the caller (the real Dataset code) is under test.
package sim

import (
	"context"
	"errors"
	"net"
	"sync"
	"sync/atomic"
	"time"

	pb "github.com/marekgalovic/anndb/protobuf"
	uuid "github.com/satori/go.uuid"
	"google.golang.org/grpc"
	"google.golang.org/grpc/codes"
	"google.golang.org/grpc/status"
)

type Item struct {
	Id    uuid.UUID
	Score float32
}

// Node is one scripted remote node.
type Node struct {
	pb.UnimplementedSearchServer
	pb.UnimplementedDataManagerServer
	Id   uint64
	Addr string
	srv  *grpc.Server

	mu         sync.Mutex
	Outcome    string // "ok" | "err" | "slow"
	release    chan struct{}
	Arrived    chan string // method name, one per call that reached the handler
	Finished   chan string
	Items      map[uuid.UUID][]Item    // partition -> search answer
	BatchItems [][3]string             // every item of every partition batch request received: kind, partition, id
	Sizes      map[uuid.UUID][2]uint64 // partition -> len, bytes
	Calls      []string                // log of calls: "PartitionInfo:<pid>" ...
	Writes     []string                // applied writes "insert:<id>" ...
	Down       bool                    // refuse by closing the listener
}

func NewNode(id uint64) *Node {
	n := &Node{Id: id, Outcome: "ok", Items: map[uuid.UUID][]Item{}, Sizes: map[uuid.UUID][2]uint64{}}
	n.Reset("ok", false)
	lis, err := net.Listen("tcp", "127.0.0.1:0")
	if err != nil {
		panic(err)
	}
	n.Addr = lis.Addr().String()
	n.srv = grpc.NewServer()
	pb.RegisterSearchServer(n.srv, n)
	pb.RegisterDataManagerServer(n.srv, n)
	go n.srv.Serve(lis)
	return n
}

func (n *Node) Stop() { n.srv.Stop() }

// Reset prepares the node for one scenario; gated = calls block until Release.
func (n *Node) Reset(outcome string, gated bool) {
	n.mu.Lock()
	defer n.mu.Unlock()
	n.Outcome = outcome
	n.release = make(chan struct{})
	if !gated {
		close(n.release)
	}
	n.Arrived = make(chan string, 64)
	n.Finished = make(chan string, 64)
	n.Calls = nil
	n.Writes = nil
	n.BatchItems = nil
}

func (n *Node) Release() {
	n.mu.Lock()
	defer n.mu.Unlock()
	select {
	case <-n.release:
	default:
		close(n.release)
	}
}

// gate: returns the error the call should fail with (nil = proceed).
var errKind uint32

// FailMidStreamOnce: when 1, the next SearchPartitions call (on whichever node it arrives) breaks off with Unavailable
// after it has streamed its first item (a node that dies while it answers); MidStreamFailed names that node
var FailMidStreamOnce int32
var MidStreamFailed uint64

func (n *Node) gate(ctx context.Context, what string) error {
	n.mu.Lock()
	rel, outcome := n.release, n.Outcome
	n.Calls = append(n.Calls, what)
	arrived, finished := n.Arrived, n.Finished
	n.mu.Unlock()
	arrived <- what
	defer func() { finished <- what }()
	if outcome == "slow" {
		<-ctx.Done()
		return ctx.Err()
	}
	select {
	case <-rel:
	case <-ctx.Done():
		return ctx.Err()
	}
	if outcome == "err" {
		// a failing worker fails in one of the ways a real one can: a plain handler error, or a transport-level status
		// (the node is going away, overloaded, too slow) - whatever the code, the caller must not go on without it
		switch atomic.AddUint32(&errKind, 1) % 4 {
		case 1:
			return status.Error(codes.Unavailable, "scripted failure: unavailable")
		case 2:
			return status.Error(codes.DeadlineExceeded, "scripted failure: deadline exceeded")
		case 3:
			return status.Error(codes.ResourceExhausted, "scripted failure: resource exhausted")
		}
		return errors.New("scripted failure")
	}
	return nil
}

func (n *Node) SearchPartitions(req *pb.SearchPartitionsRequest, stream pb.Search_SearchPartitionsServer) error {
	what := "SearchPartitions"
	for _, pidb := range req.GetPartitionIds() {
		pid, _ := uuid.FromBytes(pidb)
		what += ":" + pid.String()
	}
	if err := n.gate(stream.Context(), what); err != nil {
		return err
	}
	for _, pidb := range req.GetPartitionIds() {
		pid, _ := uuid.FromBytes(pidb)
		n.mu.Lock()
		items := n.Items[pid]
		n.mu.Unlock()
		for i, it := range items {
			if i >= int(req.GetK()) {
				break
			}
			if err := stream.Send(&pb.SearchResultItem{Id: it.Id.Bytes(), Score: it.Score}); err != nil {
				return err
			}
			if atomic.CompareAndSwapInt32(&FailMidStreamOnce, 1, 0) {
				atomic.StoreUint64(&MidStreamFailed, n.Id)
				return status.Error(codes.Unavailable, "scripted failure: the node went away in the middle of its answer")
			}
		}
	}
	return nil
}

func (n *Node) PartitionInfo(ctx context.Context, req *pb.PartitionInfoRequest) (*pb.PartitionInfoResponse, error) {
	pid, _ := uuid.FromBytes(req.GetPartitionId())
	if err := n.gate(ctx, "PartitionInfo:"+pid.String()); err != nil {
		return nil, err
	}
	n.mu.Lock()
	sz, ok := n.Sizes[pid]
	n.mu.Unlock()
	if !ok {
		return nil, errors.New("Partition is not loaded on the node")
	}
	return &pb.PartitionInfoResponse{Len: sz[0], BytesSize: sz[1]}, nil
}

func (n *Node) write(ctx context.Context, what string) (*pb.EmptyMessage, error) {
	if err := n.gate(ctx, what); err != nil {
		return nil, err
	}
	n.mu.Lock()
	n.Writes = append(n.Writes, what)
	n.mu.Unlock()
	return &pb.EmptyMessage{}, nil
}

func (n *Node) Insert(ctx context.Context, req *pb.InsertRequest) (*pb.EmptyMessage, error) {
	id, _ := uuid.FromBytes(req.GetId())
	return n.write(ctx, "insert:"+id.String())
}
func (n *Node) Update(ctx context.Context, req *pb.UpdateRequest) (*pb.EmptyMessage, error) {
	id, _ := uuid.FromBytes(req.GetId())
	return n.write(ctx, "update:"+id.String())
}
func (n *Node) Remove(ctx context.Context, req *pb.RemoveRequest) (*pb.EmptyMessage, error) {
	id, _ := uuid.FromBytes(req.GetId())
	return n.write(ctx, "remove:"+id.String())
}

func (n *Node) batch(ctx context.Context, kind string, req *pb.PartitionBatchRequest) (*pb.BatchResponse, error) {
	pid, _ := uuid.FromBytes(req.GetPartitionId())
	if err := n.gate(ctx, kind+":"+pid.String()); err != nil {
		return nil, err
	}
	n.mu.Lock()
	defer n.mu.Unlock()
	errs := map[string]string{}
	for _, it := range req.GetItems() {
		id, _ := uuid.FromBytes(it.GetId())
		n.BatchItems = append(n.BatchItems, [3]string{kind, pid.String(), id.String()})
		// scripted rule: ids whose last byte is odd fail at the remote partition
		if id[15]%2 == 1 {
			errs[id.String()] = "scripted item failure"
		} else {
			n.Writes = append(n.Writes, kind+":"+id.String())
		}
	}
	return &pb.BatchResponse{Errors: errs}, nil
}

func (n *Node) PartitionBatchInsert(ctx context.Context, req *pb.PartitionBatchRequest) (*pb.BatchResponse, error) {
	return n.batch(ctx, "binsert", req)
}
func (n *Node) PartitionBatchUpdate(ctx context.Context, req *pb.PartitionBatchRequest) (*pb.BatchResponse, error) {
	return n.batch(ctx, "bupdate", req)
}
func (n *Node) PartitionBatchRemove(ctx context.Context, req *pb.PartitionBatchRequest) (*pb.BatchResponse, error) {
	return n.batch(ctx, "bremove", req)
}

// WaitArrived waits until a call reached the handler.
func (n *Node) WaitArrived(d time.Duration) bool {
	n.mu.Lock()
	c := n.Arrived
	n.mu.Unlock()
	select {
	case <-c:
		return true
	case <-time.After(d):
		return false
	}
}

func (n *Node) WaitFinished(d time.Duration) bool {
	n.mu.Lock()
	c := n.Finished
	n.mu.Unlock()
	select {
	case <-c:
		return true
	case <-time.After(d):
		return false
	}
}

// BatchSnapshot returns every batch item received since the last Reset.
func (n *Node) BatchSnapshot() [][3]string {
	n.mu.Lock()
	defer n.mu.Unlock()
	return append([][3]string{}, n.BatchItems...)
}

func (n *Node) Snapshot() (calls, writes []string) {
	n.mu.Lock()
	defer n.mu.Unlock()
	return append([]string{}, n.Calls...), append([]string{}, n.Writes...)
}
