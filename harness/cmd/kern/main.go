// Command kern drives the real distance kernels of anndb (simd/avx, simd/sse, the portable
// implementation and the public index/space types) for property C15.
//
//	kern sweep <plans.ndjson> <trace.ndjson> <seed> <tier>
//	    plans.ndjson: one line per (w, u, len) as emitted by TLC from spec/Kernel.tla
//	    (KernelGen): the run-length plan of loads a kernel call makes and the order of the
//	    horizontal sum.  For every implementation x kernel x length x placement x value
//	    class the real kernel is called on vectors placed in a guarded arena (PROT_NONE
//	    pages on both sides, NaN canaries around the vectors) and its result is compared
//	      (1) bit for bit with the plan evaluated in IEEE-754 binary32   (model exactness),
//	      (2) with the exactly computed distance under a forward error bound, as is the
//	          portable implementation                                     (Agree),
//	      (3) with itself under swapped arguments / equal arguments       (Symmetric, SelfZero),
//	      (4) against zero                                                (NonNeg),
//	      (5) with a second run whose canaries differ                     (OobRead).
//	    Each (implementation, kernel, placement group) runs in a child process: a fault
//	    inside a kernel kills only that child and is reported as a crash event.
//	kern child <plans.ndjson> <impl> <kern> <group> <out.ndjson> <progress> <seed> <tier>
package main

import (
	"bufio"
	"encoding/json"
	"fmt"
	"math"
	"math/rand"
	"os"
	"os/exec"
	"regexp"
	"runtime"
	"sort"
	"strconv"
	"strings"
	"sync"
	"syscall"
	"unsafe"

	"github.com/marekgalovic/anndb/index/space"
	amath "github.com/marekgalovic/anndb/math"
)

type seg struct {
	Ph string `json:"ph"`
	At int    `json:"at"`
	W  int    `json:"w"`
	N  int    `json:"n"`
}

type planT struct {
	W    int    `json:"w"`
	U    int    `json:"u"`
	Len  int    `json:"len"`
	HS   string `json:"hs"`
	Plan []seg  `json:"plan"`
}

var kernels = []string{"euclidean", "manhattan", "cosine"}

// (W, U) of the generated assembly per implementation and kernel (Kernel.tla header)
func shape(impl, kern, group string) (int, int) {
	if impl == "native" || (impl == "sse" && group == "unaligned") {
		// the portable loop; the SSE wrappers' scalar path for operands that are not 16-byte aligned
		return 1, 1
	}
	w := 8
	if impl == "sse" {
		w = 4
	}
	if kern == "euclidean" {
		return w, 4
	}
	return w, 2
}

const u32 = 1.0 / (1 << 24) // unit roundoff of binary32

// ---------------------------------------------------------------- plan evaluation (binary32)
func hsum(l []float32, hs string) float32 {
	switch hs {
	case "pair8": // vhaddps, vhaddps, vextractf128, vaddss
		return float32(float32(float32(l[0]+l[1])+float32(l[2]+l[3])) + float32(float32(l[4]+l[5])+float32(l[6]+l[7])))
	case "seq4": // movshdup/addss, unpckhpd/addss, shufps/addss
		return float32(float32(float32(l[0]+l[1])+l[2]) + l[3])
	}
	var r float32
	for _, x := range l {
		r = float32(r + x)
	}
	return r
}

func sqrt32(x float32) float32 { return float32(math.Sqrt(float64(x))) }
func abs32(x float32) float32 {
	if x < 0 {
		return -x
	}
	return x
}

// evalPlan returns what a kernel that follows the plan returns through its Go wrapper.
func evalPlan(p *planT, impl, kern string, a, b []float32) float32 {
	w := p.W
	nacc := 1
	if kern == "cosine" {
		nacc = 3
	}
	lanes := make([][]float32, nacc)
	for k := range lanes {
		lanes[k] = make([]float32, w)
	}
	term := func(i int, vec bool) (float32, float32, float32) {
		switch kern {
		case "euclidean":
			d := float32(a[i] - b[i])
			return float32(d * d), 0, 0
		case "manhattan":
			d := float32(a[i] - b[i])
			if vec && p.W > 1 { // the vector body computes sqrt(d*d), the scalar tail (and every scalar loop) |d|
				return sqrt32(float32(d * d)), 0, 0
			}
			return abs32(d), 0, 0
		}
		return float32(a[i] * b[i]), float32(a[i] * a[i]), float32(b[i] * b[i])
	}
	res := make([]float32, nacc)
	summed := false
	for _, s := range p.Plan {
		if s.Ph == "vec" {
			for blk := 0; blk < s.N; blk++ {
				for j := 0; j < s.W; j++ {
					t0, t1, t2 := term(s.At+blk*s.W+j, true)
					lanes[0][j] = float32(lanes[0][j] + t0)
					if nacc == 3 {
						lanes[1][j] = float32(lanes[1][j] + t1)
						lanes[2][j] = float32(lanes[2][j] + t2)
					}
				}
			}
			continue
		}
		if !summed {
			for k := range res {
				res[k] = hsum(lanes[k], p.HS)
			}
			summed = true
		}
		for e := 0; e < s.N; e++ {
			t0, t1, t2 := term(s.At+e*s.W, false)
			res[0] = float32(res[0] + t0)
			if nacc == 3 {
				res[1] = float32(res[1] + t1)
				res[2] = float32(res[2] + t2)
			}
		}
	}
	if !summed {
		for k := range res {
			res[k] = hsum(lanes[k], p.HS)
		}
	}
	switch kern {
	case "euclidean":
		return sqrt32(res[0])
	case "manhattan":
		return res[0]
	}
	if impl == "native" {
		return float32(1.0 - res[0]/float32(sqrt32(res[1])*sqrt32(res[2])))
	}
	n2 := float32(res[1] * res[2])
	return float32(1.0 - res[0]/sqrt32(n2))
}

// ---------------------------------------------------------------- exact reference and bounds
type ref struct {
	val      float64 // the exact distance of the binary32 inputs (computed in binary64)
	lo, hi   float64 // interval a correctly rounding-limited binary32 implementation must hit
	judged   bool    // false: outside the regime in which the portable algorithm itself is accurate
	infOK    bool    // +Inf acceptable (the exact sum is at or beyond the binary32 range)
	mustInf  bool
	whyNot   string
}

const minSub = 1.401298464324817e-45 // 2^-149
const maxF32 = math.MaxFloat32

// exactSums: every product and partial sum any summation order can form is an integer below 2^24, i.e. is
// computed without rounding in binary32; the only roundings left are the final sqrt / division
func exactSums(a, b []float32) bool {
	tot := 0.0
	for i := range a {
		x, y := float64(a[i]), float64(b[i])
		if x != math.Trunc(x) || y != math.Trunc(y) || math.Abs(x) > 2048 || math.Abs(y) > 2048 {
			return false
		}
		tot += x*x + y*y + (x-y)*(x-y)
	}
	return tot < (1 << 24)
}

func reference(kern string, a, b []float32) ref {
	n := float64(len(a))
	if exactSums(a, b) {
		n = 0
	}
	switch kern {
	case "euclidean":
		s := 0.0
		for i := range a {
			d := float64(a[i]) - float64(b[i])
			s += d * d
		}
		if math.IsInf(s, 0) || math.IsNaN(s) {
			return ref{val: math.Sqrt(s), judged: true, mustInf: true, infOK: true}
		}
		rel := (n + 6) * u32 * 1.05
		slo := s*(1-rel) - n*minSub
		shi := s*(1+rel) + n*minSub
		if slo < 0 {
			slo = 0
		}
		r := ref{val: math.Sqrt(s), lo: math.Sqrt(slo)*(1-2*u32) - minSub, hi: math.Sqrt(shi)*(1+2*u32) + minSub, judged: true}
		if shi >= maxF32 {
			r.infOK = true
		}
		if slo > maxF32*(1+rel) {
			r.mustInf = true
		}
		return r
	case "manhattan":
		s := 0.0
		for i := range a {
			s += math.Abs(float64(a[i]) - float64(b[i]))
		}
		rel := (n + 6) * u32 * 1.05
		r := ref{val: s, lo: s*(1-rel) - n*minSub, hi: s*(1+rel) + n*minSub, judged: true}
		if r.hi >= maxF32 {
			r.infOK = true
		}
		if r.lo > maxF32*(1+rel) {
			r.mustInf = true
		}
		return r
	}
	dot, na, nb, sab := 0.0, 0.0, 0.0, 0.0
	for i := range a {
		x, y := float64(a[i]), float64(b[i])
		dot += x * y
		sab += math.Abs(x * y)
		na += x * x
		nb += y * y
	}
	lo2, hi2 := math.Ldexp(1, -100), math.Ldexp(1, 126)
	if !(na >= lo2 && na <= hi2 && nb >= lo2 && nb <= hi2) {
		return ref{judged: false, whyNot: "norm outside [2^-50, 2^63]: the portable algorithm itself over/underflows"}
	}
	c := 1 - dot/(math.Sqrt(na)*math.Sqrt(nb))
	tol := (2*n+10)*u32*1.05*(sab/(math.Sqrt(na)*math.Sqrt(nb))) + 6*u32
	return ref{val: c, lo: c - tol, hi: c + tol, judged: true}
}

func within(r ref, k float32) bool {
	x := float64(k)
	if math.IsNaN(x) {
		return math.IsNaN(r.val)
	}
	if math.IsInf(x, 1) {
		return r.infOK || r.mustInf
	}
	if r.mustInf {
		return false
	}
	return x >= r.lo && x <= r.hi
}

// ---------------------------------------------------------------- guarded arena
type arena struct {
	mem  []byte
	data uintptr // first data byte (page aligned)
	size int     // data bytes
}

const page = 4096

func newArena(maxFloats int) *arena {
	dp := (maxFloats*4+64*4+page-1)/page + 1
	m, err := syscall.Mmap(-1, 0, (dp+2)*page, syscall.PROT_READ|syscall.PROT_WRITE, syscall.MAP_ANON|syscall.MAP_PRIVATE)
	if err != nil {
		panic(err)
	}
	if err := syscall.Mprotect(m[:page], syscall.PROT_NONE); err != nil {
		panic(err)
	}
	if err := syscall.Mprotect(m[(dp+1)*page:], syscall.PROT_NONE); err != nil {
		panic(err)
	}
	return &arena{mem: m, data: uintptr(unsafe.Pointer(&m[page])), size: dp * page}
}

// place returns a slice of n floats inside the arena.  mode "end": the slice ends at the last data
// byte (the guard page follows); "start": it begins at the first data byte (a guard page precedes);
// "off": it begins 16+off floats into the data area.  The 16 floats before and after the slice that
// still are data are set to the canary.
func (ar *arena) place(n int, mode string, off int, canary float32) []float32 {
	all := (*[1 << 28]float32)(unsafe.Pointer(ar.data))[: ar.size/4 : ar.size/4]
	var first int
	switch mode {
	case "end":
		first = ar.size/4 - n
	case "start":
		first = 0
	default:
		first = 16 + off
	}
	for i := first - 16; i < first+n+16; i++ {
		if i >= 0 && i < len(all) && (i < first || i >= first+n) {
			all[i] = canary
		}
	}
	return all[first : first+n : first+n]
}

func aligned16(s []float32) bool { return uintptr(unsafe.Pointer(&s[0]))%16 == 0 }

// ---------------------------------------------------------------- value classes
var classes = []string{"ints", "normal", "onehot", "mixed", "parallel", "big", "small", "huge", "tiny", "subnormal"}

func fill(cls string, rng *rand.Rand, a, b []float32, hot int) {
	n := len(a)
	logu := func(lo, hi float64) float32 {
		e := lo + rng.Float64()*(hi-lo)
		v := float32(math.Pow(10, e))
		if rng.Intn(2) == 0 {
			v = -v
		}
		return v
	}
	for i := 0; i < n; i++ {
		switch cls {
		case "ints":
			a[i], b[i] = float32(rng.Intn(17)-8), float32(rng.Intn(17)-8)
		case "normal":
			a[i], b[i] = float32(rng.NormFloat64()), float32(rng.NormFloat64())
		case "onehot":
			a[i], b[i] = 0, 1
		case "parallel": // b = c * a: the cosine distance is 0 up to rounding - on either side of 0
			a[i] = float32(rng.NormFloat64())
			b[i] = a[i]
		case "mixed":
			switch rng.Intn(4) {
			case 0:
				a[i], b[i] = 0, float32(rng.NormFloat64())
			case 1:
				a[i], b[i] = logu(-6, 6), logu(-6, 6)
			case 2:
				a[i], b[i] = float32(rng.NormFloat64()), 0
			default:
				a[i], b[i] = float32(rng.NormFloat64()), float32(rng.NormFloat64())
			}
		case "big":
			a[i], b[i] = logu(9, 12), logu(9, 12)
		case "small":
			a[i], b[i] = logu(-12, -9), logu(-12, -9)
		case "huge":
			a[i], b[i] = logu(19.5, 21), logu(19.5, 21)
		case "tiny":
			a[i], b[i] = logu(-25, -20), logu(-25, -20)
		case "subnormal":
			a[i], b[i] = logu(-44, -39), logu(-44, -39)
		}
	}
	if cls == "onehot" {
		a[hot] = 3
	}
	if cls == "parallel" {
		c := []float32{3, 0.3, 7, 1.7, -3, 11}[rng.Intn(6)]
		for i := range b {
			b[i] = float32(c * a[i])
		}
	}
}

// ---------------------------------------------------------------- child
type failure struct {
	Kind   string `json:"kind"`
	Class  string `json:"cls"`
	Place  string `json:"place"`
	Detail string `json:"detail"`
}

type lenEvent struct {
	Ev       string    `json:"ev"`
	Impl     string    `json:"impl"`
	Kern     string    `json:"kern"`
	Group    string    `json:"group"`
	Len      int       `json:"len"`
	W        int       `json:"w"`
	U        int       `json:"u"`
	Cases    int       `json:"cases"`
	Exact    int       `json:"exact"`
	Judged   int       `json:"judged"`
	Unjudged int       `json:"unjudged"`
	NFail    int       `json:"nfail"`
	Fail     []failure `json:"fail"`
	MaxErr   string    `json:"maxerr"` // largest |kernel - exact| / tolerance over the judged cases
	MaxCase  string    `json:"maxcase"`
	Dispatch int       `json:"dispatch"`
}

func call(sp space.SpaceImpl, kern string, a, b []float32) float32 {
	switch kern {
	case "euclidean":
		return sp.EuclideanDistance(amath.Vector(a), amath.Vector(b))
	case "manhattan":
		return sp.ManhattanDistance(amath.Vector(a), amath.Vector(b))
	}
	return sp.CosineDistance(amath.Vector(a), amath.Vector(b))
}

func bits(x float32) uint32 { return math.Float32bits(x) }
func sameBits(x, y float32) bool {
	if x != x && y != y {
		return true
	}
	return bits(x) == bits(y)
}

type placement struct {
	name       string
	modeA      string
	offA       int
	modeB      string
	offB       int
}

func placements(tier string) []placement {
	ps := []placement{
		{"end", "end", 0, "end", 0},
		{"start", "start", 0, "start", 0},
		{"off0", "off", 0, "off", 0},
		{"off4", "off", 4, "off", 8},
		{"off1", "off", 1, "off", 1},
		{"off3-6", "off", 3, "off", 6},
		{"off7-2", "off", 7, "off", 2},
		{"end-off5", "end", 0, "off", 5},
	}
	if tier != "quick" {
		ps = append(ps, placement{"off2-2", "off", 2, "off", 2}, placement{"off5-1", "off", 5, "off", 1},
			placement{"off6-3", "off", 6, "off", 3}, placement{"start-end", "start", 0, "end", 0})
	}
	return ps
}

func child(args []string) {
	plansPath, impl, kern, group, outPath, progPath := args[0], args[1], args[2], args[3], args[4], args[5]
	seed, _ := strconv.ParseInt(args[6], 10, 64)
	tier := args[7]
	w, u := shape(impl, kern, group)
	plans := map[int]*planT{}
	var lens []int
	pf, err := os.Open(plansPath)
	if err != nil {
		panic(err)
	}
	sc := bufio.NewScanner(pf)
	sc.Buffer(make([]byte, 1<<20), 1<<26)
	for sc.Scan() {
		var p planT
		if json.Unmarshal(sc.Bytes(), &p) != nil {
			continue
		}
		if p.W == w && p.U == u {
			pp := p
			plans[p.Len] = &pp
			lens = append(lens, p.Len)
		}
	}
	pf.Close()
	sort.Ints(lens)
	maxLen := 0
	for _, l := range lens {
		if l > maxLen {
			maxLen = l
		}
	}
	arA, arB := newArena(maxLen+64), newArena(maxLen+64)
	sp := space.VerifImpl(impl)
	nat := space.VerifImpl("native")
	pub := space.VerifSpace(kern, sp)
	out, err := os.Create(outPath)
	if err != nil {
		panic(err)
	}
	bw := bufio.NewWriter(out)
	defer func() { bw.Flush(); out.Close() }()
	prog, err := os.OpenFile(progPath, os.O_CREATE|os.O_WRONLY|os.O_TRUNC, 0644)
	if err != nil {
		panic(err)
	}
	rng := rand.New(rand.NewSource(seed*1000003 + int64(len(impl))*7919 + int64(len(kern))))
	nan := float32(math.NaN())
	for _, n := range lens {
		p := plans[n]
		ev := lenEvent{Ev: "len", Impl: impl, Kern: kern, Group: group, Len: n, W: w, U: u, Fail: []failure{}}
		maxErr := 0.0
		addFail := func(kind, cls, place, detail string) {
			ev.NFail++
			for _, f := range ev.Fail {
				if f.Kind == kind && f.Class == cls {
					return
				}
			}
			if len(ev.Fail) < 12 {
				ev.Fail = append(ev.Fail, failure{kind, cls, place, detail})
			}
		}
		for _, pl := range placements(tier) {
			a := arA.place(n, pl.modeA, pl.offA, nan)
			b := arB.place(n, pl.modeB, pl.offB, nan)
			al := aligned16(a) && aligned16(b)
			if (group == "aligned") != al {
				continue
			}
			for _, cls := range classes {
				hots := []int{0}
				if cls == "onehot" {
					hots = hotIndices(n, w, u, rng, tier)
				}
				for _, hot := range hots {
					fill(cls, rng, a, b, hot)
					fmt.Fprintf(prog, "%s %s %s len=%d place=%s cls=%s\n", impl, kern, group, n, pl.name, cls)
					k := call(sp, kern, a, b)
					ev.Cases++
					m := evalPlan(p, impl, kern, a, b)
					if sameBits(k, m) {
						ev.Exact++
					} else {
						// does the result depend on what lies outside the vectors?
						a2 := arA.place(n, pl.modeA, pl.offA, 0)
						b2 := arB.place(n, pl.modeB, pl.offB, 0)
						k2 := call(sp, kern, a2, b2)
						arA.place(n, pl.modeA, pl.offA, nan)
						arB.place(n, pl.modeB, pl.offB, nan)
						if !sameBits(k, k2) {
							addFail("OobRead", cls, pl.name, fmt.Sprintf("len=%d: result %v with NaN canaries, %v with zero canaries around the vectors", n, k, k2))
						}
					}
					r := reference(kern, a, b)
					if !r.judged {
						ev.Unjudged++
					} else {
						ev.Judged++
						kn := call(nat, kern, a, b)
						okK, okN := within(r, k), within(r, kn)
						if tolw := (r.hi - r.lo) / 2; tolw > 0 && !math.IsInf(float64(k), 0) && !math.IsNaN(float64(k)) {
							if e := math.Abs(float64(k)-r.val) / tolw; e > maxErr {
								maxErr = e
								ev.MaxCase = fmt.Sprintf("%s/%s k=%v exact=%.9g [%.9g, %.9g]", cls, pl.name, k, r.val, r.lo, r.hi)
							}
						}
						if !okK {
							det := fmt.Sprintf("len=%d: %s.%s returns %v, the portable implementation %v, exact %.9g (accepted [%.9g, %.9g])", n, impl, kern, k, kn, r.val, r.lo, r.hi)
							if cls == "onehot" {
								det += fmt.Sprintf(", one-hot index %d", hot)
							}
							if !okN && impl != "native" {
								det += " - the portable implementation is outside the bound as well"
							}
							addFail("Disagree", cls, pl.name, det)
						}
						// symmetric, non-negative, zero between a vector and itself: through the public Space type
						d1, d2 := pub.Distance(amath.Vector(a), amath.Vector(b)), pub.Distance(amath.Vector(b), amath.Vector(a))
						if !sameBits(d1, d2) && !(within(r, d1) && within(r, d2)) {
							addFail("Asymmetric", cls, pl.name, fmt.Sprintf("len=%d: d(a,b)=%v d(b,a)=%v", n, d1, d2))
						}
						if d1 < 0 {
							addFail("Negative", cls, pl.name, fmt.Sprintf("len=%d: Distance returns %v", n, d1))
						}
						// self distance: b := a (copied into b's placement, so that both addresses stay as placed)
						copy(b, a)
						rs := reference(kern, a, b)
						if rs.judged {
							ds := pub.Distance(amath.Vector(a), amath.Vector(b))
							if !within(rs, ds) || ds < 0 {
								addFail("SelfNonZero", cls, pl.name, fmt.Sprintf("len=%d: d(a,a)=%v (accepted [%.3g, %.3g])", n, ds, rs.lo, rs.hi))
							}
						}
					}
				}
			}
		}
		// the public constructors: whatever implementation the CPU dispatch picks must satisfy the same bound
		if group == "aligned" {
			a := arA.place(n, "off", 0, nan)
			b := arB.place(n, "off", 0, nan)
			for _, cls := range []string{"ints", "normal", "onehot"} {
				fill(cls, rng, a, b, n/2)
				var s space.Space
				switch kern {
				case "euclidean":
					s = space.NewEuclidean()
				case "manhattan":
					s = space.NewManhattan()
				default:
					s = space.NewCosine()
				}
				d := s.Distance(amath.Vector(a), amath.Vector(b))
				r := reference(kern, a, b)
				ev.Dispatch++
				if r.judged && !within(r, d) {
					addFail("Dispatch", cls, "off0", fmt.Sprintf("len=%d: space.New%s().Distance = %v, exact %.9g", n, strings.Title(kern), d, r.val))
				}
			}
		}
		ev.MaxErr = strconv.FormatFloat(maxErr, 'f', 3, 64)
		if ev.Cases == 0 {
			continue
		}
		js, _ := json.Marshal(ev)
		bw.Write(js)
		bw.WriteByte('\n')
		bw.Flush()
	}
}

func hotIndices(n, w, u int, rng *rand.Rand, tier string) []int {
	if n <= 72 {
		all := make([]int, n)
		for i := range all {
			all[i] = i
		}
		return all
	}
	set := map[int]bool{0: true, n - 1: true}
	nb := n / w
	for _, i := range []int{w - 1, w, w*u - 1, w * u, w*u*(nb/u) - 1, w * u * (nb / u), w*nb - 1, w * nb, w*nb + 1, n - 2} {
		if i >= 0 && i < n {
			set[i] = true
		}
	}
	k := 4
	if tier != "quick" {
		k = 12
	}
	for j := 0; j < k; j++ {
		set[rng.Intn(n)] = true
	}
	var out []int
	for i := range set {
		out = append(out, i)
	}
	sort.Ints(out)
	return out
}

// ---------------------------------------------------------------- sweep (parent)
type crashEvent struct {
	Ev     string `json:"ev"`
	Impl   string `json:"impl"`
	Kern   string `json:"kern"`
	Group  string `json:"group"`
	Last   string `json:"last"`
	Signal string `json:"signal"`
	Frame  string `json:"frame"`
	InKern int    `json:"inkernel"`
}

func sweep(args []string) {
	plans, tracePath, seed, tier := args[0], args[1], args[2], args[3]
	scratch := os.Getenv("VERIF_SCRATCH")
	if scratch == "" {
		scratch = os.TempDir()
	}
	self, _ := os.Executable()
	type job struct{ impl, kern, group string }
	var jobs []job
	for _, impl := range []string{"avx", "sse", "native"} {
		for _, kern := range kernels {
			for _, g := range []string{"aligned", "unaligned"} {
				jobs = append(jobs, job{impl, kern, g})
			}
		}
	}
	results := make([][]byte, len(jobs))
	harnessErr := make([]string, len(jobs))
	var wg sync.WaitGroup
	sem := make(chan struct{}, runtime.NumCPU())
	for ji, j := range jobs {
		wg.Add(1)
		go func(ji int, j job) {
			defer wg.Done()
			sem <- struct{}{}
			defer func() { <-sem }()
			base := fmt.Sprintf("%s/kern-%s-%s-%s", scratch, j.impl, j.kern, j.group)
			cmd := exec.Command(self, "child", plans, j.impl, j.kern, j.group, base+".ndjson", base+".progress", seed, tier)
			var stderr strings.Builder
			cmd.Stderr = &stderr
			err := cmd.Run()
			data, _ := os.ReadFile(base + ".ndjson")
			if err != nil {
				prog, _ := os.ReadFile(base + ".progress")
				lines := strings.Split(strings.TrimSpace(string(prog)), "\n")
				last := lines[len(lines)-1]
				se := stderr.String()
				ce := crashEvent{Ev: "crash", Impl: j.impl, Kern: j.kern, Group: j.group, Last: last}
				if m := regexp.MustCompile(`\[signal (\w+)[^\]]*\]`).FindStringSubmatch(se); m != nil {
					ce.Signal = m[1]
				}
				// the faulting goroutine's innermost frame
				if m := regexp.MustCompile(`(?m)^goroutine \d+[^\n]*\n(?:runtime\.[^\n]*\n\s[^\n]*\n)*([^\n(]+)\(`).FindStringSubmatch(se); m != nil {
					ce.Frame = m[1]
				}
				if strings.Contains(ce.Frame, "anndb/simd/") || strings.Contains(ce.Frame, "anndb/index/space") {
					ce.InKern = 1
				}
				if ce.InKern == 0 {
					harnessErr[ji] = fmt.Sprintf("child %v died outside the kernels: %v\n%s", j, err, tail(se, 2500))
				}
				js, _ := json.Marshal(ce)
				data = append(data, js...)
				data = append(data, '\n')
			}
			results[ji] = data
			os.Remove(base + ".ndjson")
			os.Remove(base + ".progress")
		}(ji, j)
	}
	wg.Wait()
	for _, e := range harnessErr {
		if e != "" {
			fmt.Fprintln(os.Stderr, e)
			os.Exit(3)
		}
	}
	out, err := os.Create(tracePath)
	if err != nil {
		panic(err)
	}
	for _, d := range results {
		out.Write(d)
	}
	out.Close()
}

func tail(s string, n int) string {
	if len(s) > n {
		return s[len(s)-n:]
	}
	return s
}

func main() {
	if len(os.Args) < 2 {
		fmt.Fprintln(os.Stderr, "usage: kern sweep|child ...")
		os.Exit(2)
	}
	switch os.Args[1] {
	case "sweep":
		sweep(os.Args[2:])
	case "child":
		child(os.Args[2:])
	default:
		os.Exit(2)
	}
}
