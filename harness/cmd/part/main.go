// Command part drives the real partition state machine (storage.partition.process
// over a real index.Hnsw) for properties C01 C02 C04 C07 C08.
//
//	part ranks <metric> <np> <dim>                   -> TLA+ module HnswRankDef on stdout ("TIES" on stderr + exit 3 if not tie-free)
//	part replay <cfg.json> <hist.ndjson> <trace.ndjson> <drift.json>
//	part random <cfg.json> <n> <maxlen> <seed> <trace.ndjson> <rankmodule.tla>
//
// cfg.json: {"index": IndexCfg, "np": 4, "dim": 3, "keys": ["a"], "ks": [1,2], "full": "last"|"all"}
package main

import (
	"bufio"
	"bytes"
	"context"
	"encoding/json"
	"fmt"
	"io"
	"io/ioutil"
	"math"
	"math/rand"
	"os"
	"reflect"
	"runtime"
	"sort"
	"strconv"
	"strings"
	"sync/atomic"
	"time"

	"github.com/marekgalovic/anndb/index"
	amath "github.com/marekgalovic/anndb/math"
	pb "github.com/marekgalovic/anndb/protobuf"
	"github.com/marekgalovic/anndb/storage"
	uuid "github.com/satori/go.uuid"
	"verifharness/internal/hx"
)

type Cfg struct {
	Index hx.IndexCfg `json:"index"`
	Np    int         `json:"np"`
	Dim   int         `json:"dim"`
	Keys  []string    `json:"keys"`
	Ks    []int       `json:"ks"`
	Full  string      `json:"full"`
	NIds  int         `json:"nids"`
	MaxLv int         `json:"maxlvl"`
	Vals  int         `json:"vals"`
	// replay: only histories with hid % Stride == Offset are written to the trace
	// (the exact comparison with the model still covers every history)
	Stride int `json:"stride"`
	Offset int `json:"offset"`
	// how abstract ids are embedded into uuids (hx.IdScheme)
	Ids int `json:"ids"`
}

type modelState struct {
	Ep    int `json:"ep"`
	Nv    int `json:"nv"`
	Len   int `json:"len"`
	Bytes int `json:"bytes"`
	Vt    []struct {
		Id   int     `json:"id"`
		Pt   int     `json:"pt"`
		Lvl  int     `json:"lvl"`
		Meta hx.Meta `json:"meta"`
		Del  bool    `json:"del"`
	} `json:"vt"`
	Ed [][][]int `json:"ed"`
	Sr [][]struct {
		K int   `json:"k"`
		R []int `json:"r"`
	} `json:"sr"`
}

type hist struct {
	H  []hx.Op    `json:"h"`
	St modelState `json:"st"`
}

type event struct {
	Ev    string          `json:"ev"`
	Hid   int             `json:"hid"`
	I     int             `json:"i"`
	Full  int             `json:"full"`
	Id    int             `json:"id"`
	Pt    int             `json:"pt"`
	Lvl   int             `json:"lvl"`
	Meta  hx.Meta         `json:"meta"`
	Items []hx.Item       `json:"items"`
	Res   string          `json:"res"`
	Errs  [][]interface{} `json:"errs"`
	St    *hx.State       `json:"st,omitempty"`
	St2   *hx.State       `json:"st2,omitempty"`
	Pre   *hx.State       `json:"pre,omitempty"`
	Sr    []hx.SearchRes  `json:"sr,omitempty"`
	Cfg   interface{}     `json:"cfg,omitempty"`
	Err   string          `json:"err,omitempty"`
	Tgt   string          `json:"tgt,omitempty"`
}

type driver struct {
	cfg  Cfg
	u    *hx.Universe
	sm   *storage.VerifPartitionSM
	qs   []int
	zero hx.Meta
	// a recovered panic may have left locks of the index held: nothing more is run on this index
	poisoned bool
	hist     []string
}

func (d *driver) reset() {
	d.sm = storage.NewVerifPartitionSM(d.cfg.Index.New(d.u))
	d.poisoned = false
	d.hist = nil
}

func (d *driver) resetEvent(hid int) event {
	d.reset()
	return event{Ev: "reset", Hid: hid, Meta: d.zero, Items: []hx.Item{}, Errs: [][]interface{}{},
		Cfg: map[string]interface{}{"M": d.cfg.Index.M, "MMax0": d.cfg.Index.MMax0, "linkBound": d.cfg.Index.LinkBound(), "dim": d.u.Dim,
			"algo": d.cfg.Index.Algo, "metric": d.cfg.Index.Metric, "ef": d.cfg.Index.Ef}}
}

func (d *driver) observe(ev *event) {
	st, _ := hx.Project(d.sm.Index(), d.u, d.cfg.Keys)
	ev.St = &st
	ev.Sr = hx.Probe(d.sm.Index(), d.u, d.cfg.Keys, d.qs, d.cfg.Ks)
	ev.Full = 1
	for _, r := range ev.Sr {
		if strings.HasPrefix(r.Err, "panic:") {
			d.poisoned = true
		}
	}
}

// exec applies one abstract op to the real state machine.
func (d *driver) exec(o hx.Op, hid, i int, full bool) (ret event) {
	ev := event{Ev: o.Op, Hid: hid, I: i, Id: o.Id, Pt: o.Pt, Lvl: o.Lvl, Meta: o.Meta, Items: o.Items, Errs: [][]interface{}{}}
	if ev.Meta == nil {
		ev.Meta = d.zero
	}
	if ev.Items == nil {
		ev.Items = []hx.Item{}
	}
	for k := range ev.Items {
		if ev.Items[k].Meta == nil {
			ev.Items[k].Meta = d.zero
		}
	}
	if d.poisoned {
		ev.Res, ev.Err = "panic", "not run: an earlier panic may have left locks of this index held"
		return ev
	}
	progress()
	d.hist = append(d.hist, o.Op)
	curHist.Store(strings.Join(d.hist, ","))
	if o.Op == "saveload" || o.Op == "loadempty" {
		// a panic inside snapshot / restore is the real code's (the raft loop that calls them would die with it)
		defer func() {
			if r := recover(); r != nil {
				ev.Res, ev.Err = "panic", fmt.Sprint("panic in ", o.Op, ": ", r)
				d.poisoned = true
				ret = ev
			}
		}()
	}
	if o.Op == "saveload" {
		return d.saveload(ev, hid, full)
	}
	if o.Op == "loadempty" {
		// the snapshot a replica takes while it is empty, restored into this (used) replica
		data, err := storage.NewVerifPartitionSM(d.cfg.Index.New(d.u)).Snapshot()
		ev.Res = "ok"
		if err != nil {
			ev.Res, ev.Err = "saveerr", err.Error()
		} else if err := d.sm.Restore(data); err != nil {
			ev.Res, ev.Err = "loaderr", err.Error()
		}
		d.observe(&ev)
		return ev
	}
	_, out := d.sm.Apply(hx.Change(d.u, o))
	oc := hx.OutcomeOf(o, out)
	ev.Res, ev.Errs = oc.Res, oc.Errs
	if out.Panic != "" {
		ev.Err = out.Panic
		d.poisoned = true
	} else if out.ProcessErr != "" {
		ev.Err = out.ProcessErr
	}
	if full {
		d.observe(&ev)
	}
	return ev
}

// saveload: partition.snapshot(), then processSnapshot() into a fresh state machine
// and into the used one; the run continues on the fresh (odd hid) or used (even hid) one.
func (d *driver) saveload(ev event, hid int, full bool) event {
	pre, _ := hx.Project(d.sm.Index(), d.u, d.cfg.Keys)
	ev.Pre = &pre
	data, err := d.sm.Snapshot()
	if err != nil {
		ev.Res, ev.Err = "saveerr", err.Error()
		if full {
			d.observe(&ev)
		}
		return ev
	}
	fresh := storage.NewVerifPartitionSM(d.cfg.Index.New(d.u))
	e1 := fresh.Restore(data)
	e2 := d.sm.Restore(data)
	switch {
	case e1 != nil:
		ev.Res, ev.Err = "loaderr", "fresh: "+e1.Error()
	case e2 != nil:
		ev.Res, ev.Err = "loaderr", "used: "+e2.Error()
	default:
		ev.Res = "ok"
	}
	used := d.sm
	if hid%2 == 1 {
		d.sm, ev.Tgt = fresh, "fresh"
	} else {
		ev.Tgt = "used"
	}
	// always observe both targets: C08 compares them
	d.observe(&ev)
	other := used
	if hid%2 == 0 {
		other = fresh
	}
	st2, _ := hx.Project(other.Index(), d.u, d.cfg.Keys)
	ev.St2 = &st2
	if !full {
		ev.Full = 2 // state logged for the round-trip check only
	}
	return ev
}

func loadCfg(p string) Cfg {
	b, err := ioutil.ReadFile(p)
	if err != nil {
		panic(err)
	}
	var c Cfg
	if err := json.Unmarshal(b, &c); err != nil {
		panic(err)
	}
	if c.Ids != 0 {
		hx.IdScheme = c.Ids
	}
	return c
}

func newDriver(c Cfg, u *hx.Universe) *driver {
	d := &driver{cfg: c, u: u, zero: hx.Meta{}}
	for _, k := range c.Keys {
		d.zero[k] = 0
	}
	for q := 1; q <= len(u.Vecs); q++ {
		d.qs = append(d.qs, q)
	}
	return d
}

// stall watchdog: if no operation starts for 60 s the process dumps its goroutines and exits 7
var lastProgress int64
var curHist atomic.Value // the operations of the history being executed (shape)

func progress() { atomic.StoreInt64(&lastProgress, time.Now().UnixNano()) }

func watchdog() {
	progress()
	go func() {
		for {
			time.Sleep(5 * time.Second)
			if time.Since(time.Unix(0, atomic.LoadInt64(&lastProgress))) > 60*time.Second {
				buf := make([]byte, 1<<20)
				os.Stderr.Write(buf[:runtime.Stack(buf, true)])
				h, _ := curHist.Load().(string)
				fmt.Fprintln(os.Stderr, "STALL: no operation started for 60 s; history="+h)
				os.Exit(7)
			}
		}
	}()
}

func main() {
	switch os.Args[1] {
	case "replay", "random", "explore":
		watchdog()
	}
	switch os.Args[1] {
	case "ranks":
		np, _ := strconv.Atoi(os.Args[3])
		dim, _ := strconv.Atoi(os.Args[4])
		u := hx.GolombUniverse(os.Args[2], np, dim)
		fmt.Print(u.RankModule())
		if u.Ties {
			fmt.Fprintln(os.Stderr, "TIES")
			os.Exit(3)
		}
	case "replay":
		replay(loadCfg(os.Args[2]), os.Args[3], os.Args[4], os.Args[5])
	case "random":
		n, _ := strconv.Atoi(os.Args[3])
		ml, _ := strconv.Atoi(os.Args[4])
		seed, _ := strconv.ParseInt(os.Args[5], 10, 64)
		random(loadCfg(os.Args[2]), n, ml, seed, os.Args[6], os.Args[7])
	case "recall":
		n, _ := strconv.Atoi(os.Args[2])
		dim, _ := strconv.Atoi(os.Args[3])
		seed, _ := strconv.ParseInt(os.Args[5], 10, 64)
		recall(n, dim, os.Args[4], seed, os.Args[6])
	case "streams":
		n, _ := strconv.Atoi(os.Args[3])
		seed, _ := strconv.ParseInt(os.Args[4], 10, 64)
		streams(loadCfg(os.Args[2]), n, seed, os.Args[5], os.Args[6])
	case "replicas":
		seed, _ := strconv.ParseInt(os.Args[5], 10, 64)
		nb, _ := strconv.Atoi(os.Args[6])
		replicas(loadCfg(os.Args[2]), os.Args[3], os.Args[4], seed, nb)
	case "explore":
		seed, _ := strconv.ParseInt(os.Args[5], 10, 64)
		nb, _ := strconv.Atoi(os.Args[6])
		explore(loadCfg(os.Args[2]), os.Args[3], os.Args[4], seed, nb)
	default:
		fmt.Fprintln(os.Stderr, "usage: part ranks|replay|random|explore ...")
		os.Exit(2)
	}
}

// ------------------------------------------------------------------ replay

func canonOfModel(m modelState) hx.Canon {
	cn := hx.Canon{Objs: map[int][4]int{}, Edges: map[int][][]int{}}
	// reachable = live objects, the entry point, and everything linked from them
	seen := map[int]bool{}
	var queue []int
	for h := range m.Vt {
		if !m.Vt[h].Del {
			seen[h+1] = true
			queue = append(queue, h+1)
		}
	}
	if m.Ep != 0 && !seen[m.Ep] {
		seen[m.Ep] = true
		queue = append(queue, m.Ep)
	}
	for len(queue) > 0 {
		h := queue[0]
		queue = queue[1:]
		v := m.Vt[h-1]
		del, stored := 0, 1
		if v.Del {
			del, stored = 1, 0
		}
		cn.Objs[v.Pt] = [4]int{v.Id, v.Lvl, del, stored}
		es := make([][]int, v.Lvl+1)
		for l := 0; l <= v.Lvl; l++ {
			es[l] = []int{}
			for _, n := range m.Ed[h-1][l] {
				es[l] = append(es[l], m.Vt[n-1].Pt)
				if !seen[n] {
					seen[n] = true
					queue = append(queue, n)
				}
			}
			sort.Ints(es[l])
		}
		cn.Edges[v.Pt] = es
	}
	if m.Ep != 0 {
		cn.Ep = m.Vt[m.Ep-1].Pt
	}
	return cn
}

func replay(c Cfg, in, out, driftOut string) {
	u := hx.GolombUniverse(c.Index.Metric, c.Np, c.Dim)
	d := newDriver(c, u)
	f, err := os.Open(in)
	if err != nil {
		panic(err)
	}
	defer f.Close()
	w, _ := os.Create(out)
	defer w.Close()
	bw := bufio.NewWriterSize(w, 1<<20)
	defer bw.Flush()
	enc := json.NewEncoder(bw)
	rd := bufio.NewReaderSize(f, 1<<20)
	type drift struct {
		Hid  int         `json:"hid"`
		H    []hx.Op     `json:"h"`
		What string      `json:"what"`
		Real interface{} `json:"real"`
		Exp  interface{} `json:"model"`
	}
	var drifts []drift
	nd, hid, nev, ntr := 0, 0, 0, 0
	for {
		line, err := rd.ReadBytes('\n')
		if len(bytes.TrimSpace(line)) > 0 {
			var h hist
			if e := json.Unmarshal(line, &h); e != nil {
				panic(e)
			}
			hid++
			logged := c.Stride <= 1 || hid%c.Stride == c.Offset%c.Stride
			rev := d.resetEvent(hid)
			if logged {
				enc.Encode(rev)
				nev++
				ntr++
			}
			for i, o := range h.H {
				full := logged && (c.Full == "all" || i == len(h.H)-1)
				ev := d.exec(o, hid, i+1, full)
				if logged {
					enc.Encode(ev)
					nev++
				}
			}
			// exact layer
			_, real := hx.Project(d.sm.Index(), u, c.Keys)
			exp := canonOfModel(h.St)
			what := ""
			if d.poisoned {
				what = "panic"
			} else if !reflect.DeepEqual(real, exp) {
				what = "graph"
			} else {
				// probe searches: model returns object sets; compare as sets of points
				for qi, perK := range h.St.Sr {
					for _, kr := range perK {
						sr := hx.ProbeOne(d.sm.Index(), u, c.Keys, qi+1, kr.K)
						got := []int{}
						for _, it := range sr.Res {
							id := it[0].(int)
							for _, lv := range h.St.Vt {
								if lv.Id == id && !lv.Del {
									got = append(got, lv.Pt)
								}
							}
						}
						want := []int{}
						for _, hnd := range kr.R {
							want = append(want, h.St.Vt[hnd-1].Pt)
						}
						sort.Ints(got)
						sort.Ints(want)
						if !reflect.DeepEqual(got, want) {
							what = fmt.Sprintf("search q=%d k=%d", qi+1, kr.K)
						}
					}
				}
			}
			if what != "" {
				nd++
				if len(drifts) < 10 {
					drifts = append(drifts, drift{hid, h.H, what, real, exp})
				}
			}
		}
		if err == io.EOF {
			break
		}
		if err != nil {
			panic(err)
		}
	}
	df, _ := os.Create(driftOut)
	json.NewEncoder(df).Encode(map[string]interface{}{"histories": hid, "logged": ntr, "events": nev, "drift": nd, "samples": drifts, "ties": u.Ties})
	df.Close()
}

// ------------------------------------------------------------------ explore

// explore: for every emitted map state (shortest history), try the operations of
// the alphabet in that state: every single-item change, save/load, and nbatch
// seeded random batch changes.  One recorded history per (state, operation).
func explore(c Cfg, in, out string, seed int64, nbatch int) {
	rng := rand.New(rand.NewSource(seed))
	u := hx.GolombUniverse(c.Index.Metric, c.Np, c.Dim)
	d := newDriver(c, u)
	f, err := os.Open(in)
	if err != nil {
		panic(err)
	}
	defer f.Close()
	w, _ := os.Create(out)
	defer w.Close()
	bw := bufio.NewWriterSize(w, 1<<20)
	defer bw.Flush()
	enc := json.NewEncoder(bw)
	metas := allMetas(c, d.zero)
	sc := bufio.NewScanner(f)
	sc.Buffer(make([]byte, 1<<20), 1<<26)
	hid := 0
	for sc.Scan() {
		var h hist
		if err := json.Unmarshal(sc.Bytes(), &h); err != nil {
			panic(err)
		}
		ops := alphabet(c, rng, metas, len(h.H), nbatch)
		for _, o := range ops {
			hid++
			enc.Encode(d.resetEvent(hid))
			for i, po := range h.H {
				if po.Op == "insert" {
					po.Lvl = (po.Id + i) % (c.MaxLv + 1)
				}
				enc.Encode(d.exec(po, hid, i+1, false))
			}
			enc.Encode(d.exec(o, hid, len(h.H)+1, true))
		}
	}
}

func allMetas(c Cfg, zero hx.Meta) []hx.Meta {
	metas := []hx.Meta{zero}
	for _, k := range c.Keys {
		for v := 1; v <= c.Vals; v++ {
			m := hx.Meta{}
			for _, k2 := range c.Keys {
				m[k2] = 0
			}
			m[k] = v
			metas = append(metas, m)
		}
	}
	return metas
}

func alphabet(c Cfg, rng *rand.Rand, metas []hx.Meta, hl, nbatch int) []hx.Op {
	var ops []hx.Op
	for id := 1; id <= c.NIds; id++ {
		ops = append(ops, hx.Op{Op: "remove", Id: id})
		for pt := 1; pt <= c.Np; pt++ {
			for _, m := range metas {
				ops = append(ops, hx.Op{Op: "insert", Id: id, Pt: pt, Lvl: (id + pt + hl) % (c.MaxLv + 1), Meta: m})
				ops = append(ops, hx.Op{Op: "update", Id: id, Pt: pt, Meta: m})
			}
		}
	}
	ops = append(ops, hx.Op{Op: "saveload"})
	kinds := []string{"binsert", "bupdate", "bremove"}
	for b := 0; b < nbatch; b++ {
		o := hx.Op{Op: kinds[rng.Intn(3)]}
		for k := 1 + rng.Intn(3); k > 0; k-- {
			it := hx.Item{Id: 1 + rng.Intn(c.NIds), Pt: 1 + rng.Intn(c.Np), Lvl: rng.Intn(c.MaxLv + 1), Meta: metas[rng.Intn(len(metas))]}
			if o.Op == "bremove" {
				it = hx.Item{Id: it.Id, Pt: 1}
			}
			if o.Op == "bupdate" {
				it.Lvl = 0
			}
			o.Items = append(o.Items, it)
		}
		ops = append(ops, o)
	}
	return ops
}

// ------------------------------------------------------------------ recall (C07, clause 2: a measurement)

// recall: n random vectors inserted with the index's own level distribution under default
// parameters; 200 random queries; hits = how many of the exact 10 nearest the index returned.
func recall(n, dim int, metric string, seed int64, out string) {
	rng := rand.New(rand.NewSource(seed))
	sp := hx.NewSpace(metric)
	idx := index.NewHnsw(uint(dim), sp)
	vecs := make([]amath.Vector, n)
	for i := range vecs {
		v := make(amath.Vector, dim)
		for j := range v {
			v[j] = float32(rng.NormFloat64())
		}
		vecs[i] = v
		var u uuid.UUID
		u[0], u[12], u[13], u[14], u[15] = 0x70, byte(i>>24), byte(i>>16), byte(i>>8), byte(i)
		if err := idx.Insert(u, v, nil, idx.RandomLevel()); err != nil {
			panic(err)
		}
	}
	const k, nq = 10, 200
	hits := 0
	for q := 0; q < nq; q++ {
		qv := make(amath.Vector, dim)
		for j := range qv {
			qv[j] = float32(rng.NormFloat64())
		}
		type pair struct {
			i int
			d float32
		}
		all := make([]pair, n)
		for i := range vecs {
			all[i] = pair{i, sp.Distance(qv, vecs[i])}
		}
		sort.Slice(all, func(a, b int) bool { return all[a].d < all[b].d })
		want := map[int]bool{}
		for _, p := range all[:k] {
			want[p.i] = true
		}
		res, err := idx.Search(context.Background(), qv, k)
		if err != nil {
			panic(err)
		}
		for _, it := range res {
			i := int(it.Id[12])<<24 | int(it.Id[13])<<16 | int(it.Id[14])<<8 | int(it.Id[15])
			if want[i] {
				hits++
			}
		}
	}
	f, _ := os.Create(out)
	defer f.Close()
	json.NewEncoder(f).Encode(map[string]interface{}{"ev": "recall", "n": n, "dim": dim, "metric": metric, "k": k, "queries": nq, "hits": hits})
}

// ------------------------------------------------------------------ streams (C08)

type sevent struct {
	Ev     string      `json:"ev"`
	Hid    int         `json:"hid"`
	Hdr    int         `json:"hdr"`
	Reader string      `json:"reader"`
	Tgt    string      `json:"tgt"`
	Shape  string      `json:"shape"`
	Res    string      `json:"res"`
	Err    string      `json:"err"`
	Unread int         `json:"unread"`
	Nbytes int         `json:"nbytes"`
	Nitems int         `json:"nitems"`
	Alloc  int         `json:"alloc"` // bytes allocated by Load (damaged inputs)
	Pre    *hx.State   `json:"pre,omitempty"`
	St     *hx.State   `json:"st,omitempty"`
	Cfg    interface{} `json:"cfg,omitempty"`
}

type chunkReader struct {
	b    []byte
	mode string
	rng  *rand.Rand
	n    int
}

func (r *chunkReader) Read(p []byte) (int, error) {
	if len(r.b) == 0 {
		return 0, io.EOF
	}
	if len(p) == 0 {
		return 0, nil
	}
	k := len(p)
	switch r.mode {
	case "bytewise":
		k = 1
	case "halves":
		k = (len(p) + 1) / 2
	case "random":
		k = 1 + r.rng.Intn(len(p))
	case "split7":
		k = 7 - r.n%7
		r.n += k
	}
	if k > len(p) {
		k = len(p)
	}
	if k > len(r.b) {
		k = len(r.b)
	}
	copy(p, r.b[:k])
	r.b = r.b[k:]
	return k, nil
}

var trailer = bytes.Repeat([]byte{0xAB}, 5000)

var shapes = []string{"none", "small", "keys40", "key255", "val65535", "nonutf8", "emptykv", "key256", "val65536"}

func shapeMeta(shape string, rng *rand.Rand) index.Metadata {
	rep := func(n int) string {
		b := make([]byte, n)
		for i := range b {
			b[i] = byte('a' + rng.Intn(26))
		}
		return string(b)
	}
	switch shape {
	case "none":
		return nil
	case "small":
		return index.Metadata{"k": rep(1 + rng.Intn(5)), "kk": "v"}
	case "keys40":
		m := index.Metadata{}
		for i := 0; i < 40; i++ {
			m[fmt.Sprintf("key%02d", i)] = rep(rng.Intn(9))
		}
		return m
	case "key255":
		return index.Metadata{rep(253 + rng.Intn(3)): "x"} // the last lengths the one-byte length field can hold
	case "val65535":
		return index.Metadata{"big": rep(65533 + rng.Intn(3))}
	case "nonutf8":
		return index.Metadata{"\xff\xfe\x00k": "\x80\x00\xc3\x28"}
	case "emptykv":
		return index.Metadata{"": "", "e": ""}
	case "key256":
		return index.Metadata{rep(256): "x"}
	case "val65536":
		return index.Metadata{"big": rep(65536)}
	}
	return nil
}

// streams: random index states (inserts/removes with a given metadata shape), then
// Save(header) and Load through a fragmenting reader into a fresh or a used index.
func streams(c Cfg, n int, seed int64, out, rankOut string) {
	damaged := 3
	hx.MetaHash = true
	rng := rand.New(rand.NewSource(seed))
	vecs := make([]amath.Vector, c.Np)
	for i := range vecs {
		v := make(amath.Vector, c.Dim)
		for j := range v {
			v[j] = float32(rng.Intn(9)-4) + float32(rng.Intn(4))*0.25 + 0.125
		}
		vecs[i] = v
	}
	// bit-exactness probes: -0, a subnormal, the largest finite value
	vecs[0][0] = float32(math.Copysign(0, -1))
	vecs[1][0] = math.Float32frombits(1)
	vecs[2][0] = math.MaxFloat32
	u := hx.NewUniverse(c.Index.Metric, vecs)
	ioutil.WriteFile(rankOut, []byte(u.RankModule()), 0644)
	w, _ := os.Create(out)
	defer w.Close()
	bw := bufio.NewWriterSize(w, 1<<20)
	defer bw.Flush()
	enc := json.NewEncoder(bw)
	readers := []string{"whole", "bytewise", "halves", "random", "split7"}
	hid := 0
	for it := 0; it < n; it++ {
		shape := shapes[it%len(shapes)]
		// build a state
		idx := c.Index.New(u)
		nops := rng.Intn(14)
		if it%len(shapes) == it%23 {
			nops = 0 // the empty index
		}
		for k := 0; k < nops; k++ {
			id := hx.Uid(1 + rng.Intn(c.NIds))
			if rng.Intn(3) == 0 {
				idx.Remove(id)
			} else {
				m := shapeMeta(shape, rng)
				if rng.Intn(3) == 0 {
					m = shapeMeta("small", rng)
				}
				idx.Insert(id, append(amath.Vector{}, vecs[rng.Intn(c.Np)]...), m, lvl(rng, c.MaxLv))
			}
		}
		if it%3 == 1 {
			// remove the entry point a few times in a row: after hand-overs through pruned (one-sided) links the entry
			// point can lie BELOW the highest stored level - a state every round trip has to restore as it is
			for r := 0; r < 1+rng.Intn(4); r++ {
				if st, _ := hx.Project(idx, u, nil); len(st.Ep) > 0 {
					idx.Remove(hx.Uid(st.Ep[0]))
				}
			}
		}
		pre, _ := hx.Project(idx, u, nil)
		for hdr := 0; hdr <= 1; hdr++ {
			var buf bytes.Buffer
			// a panic inside Save is the index refusing to snapshot a state it reached (the apply loop would die)
			serr := func() (err error) {
				defer func() {
					if r := recover(); r != nil {
						err = fmt.Errorf("panic: %v", r)
					}
				}()
				return idx.Save(&buf, hdr == 1)
			}()
			data := buf.Bytes()
			for _, rdm := range readers {
				for _, tgt := range []string{"fresh", "used"} {
					hid++
					ev := sevent{Ev: "stream", Hid: hid, Hdr: hdr, Reader: rdm, Tgt: tgt, Shape: shape, Nbytes: len(data), Nitems: len(pre.Live), Pre: &pre}
					if hid == 1 {
						ev.Cfg = map[string]interface{}{"dim": u.Dim}
					}
					if serr != nil {
						ev.Res, ev.Err = "saveerr", serr.Error()
						if strings.HasPrefix(serr.Error(), "panic: ") {
							ev.Res = "savepanic"
						}
						enc.Encode(ev)
						continue
					}
					target := c.Index.New(u)
					if hdr == 1 && tgt == "fresh" && hid%2 == 0 {
						// with a header the stream describes itself: the receiver may have been constructed with another
						// dimension and other parameters (a generic loader), the header's have to win
						target = index.NewHnsw(uint(u.Dim+3), u.Space)
						ev.Tgt = "fresh-otherdim"
					}
					if tgt == "used" {
						for k := 0; k < 1+rng.Intn(6); k++ {
							target.Insert(hx.Uid(100+rng.Intn(20)), append(amath.Vector{}, vecs[rng.Intn(c.Np)]...), shapeMeta("small", rng), lvl(rng, c.MaxLv))
						}
					}
					// the snapshot is followed by other bytes in the same stream: Load must stop exactly at its end
					// (the snapshot of an empty index is the empty string and has no end marker: no trailer there)
					tr := trailer
					if len(pre.Live) == 0 {
						tr = nil
					}
					rd := &chunkReader{b: append(append([]byte{}, data...), tr...), mode: rdm, rng: rng}
					// marker, flushed before the load: if the process dies in Load (runaway allocation on a
					// misread count) the check still knows which round trip it was
					enc.Encode(sevent{Ev: "loading", Hid: hid, Hdr: hdr, Reader: rdm, Tgt: tgt, Shape: shape, Nbytes: len(data), Nitems: len(pre.Live)})
					bw.Flush()
					func() {
						defer func() {
							if r := recover(); r != nil {
								ev.Res, ev.Err = "loadpanic", fmt.Sprint(r)
							}
						}()
						if err := target.Load(rd, hdr == 1); err != nil {
							ev.Res, ev.Err = "loaderr", err.Error()
						} else {
							ev.Res = "ok"
						}
					}()
					ev.Unread = len(rd.b) - len(tr) // 0 = consumed exactly the bytes Save wrote
					if ev.Res == "ok" {
						st, _ := hx.Project(target, u, nil)
						ev.St = &st
					}
					enc.Encode(ev)
				}
			}
			// the same bytes cut short (a transfer that broke off): recorded, not judged - C08 speaks about loading
			// the index's own, complete output.  (Overwriting counts with huge numbers is deliberately not tried
			// here: the unchanged tree allocates 23 GB for such a 515-byte input, which is outside the property
			// as stated and would only kill the harness.)
			if serr == nil && len(data) > 8 {
				for k := 0; k < damaged; k++ {
					bad := append([]byte{}, data...)
					o := rng.Intn(len(bad) - 4)
					kind := "cut"
					bad = bad[:o]
					hid++
					enc.Encode(sevent{Ev: "loading", Hid: hid, Hdr: hdr, Reader: kind, Tgt: "fresh", Shape: shape, Nbytes: len(bad), Nitems: len(pre.Live)})
					bw.Flush()
					ev := sevent{Ev: "damaged", Hid: hid, Hdr: hdr, Reader: kind, Tgt: "fresh", Shape: shape, Nbytes: len(bad), Nitems: len(pre.Live), Res: "ok"}
					target := c.Index.New(u)
					var m0, m1 runtime.MemStats
					runtime.ReadMemStats(&m0)
					func() {
						defer func() {
							if r := recover(); r != nil {
								ev.Res, ev.Err = "loadpanic", fmt.Sprint(r)
							}
						}()
						if err := target.Load(bytes.NewReader(bad), hdr == 1); err != nil {
							ev.Res, ev.Err = "loaderr", err.Error()
						}
					}()
					runtime.ReadMemStats(&m1)
					ev.Alloc = int(m1.TotalAlloc - m0.TotalAlloc)
					enc.Encode(ev)
				}
			}
		}
	}
}

// ------------------------------------------------------------------ replicas (C04)

type revent struct {
	Ev    string          `json:"ev"`
	Hid   int             `json:"hid"`
	R     string          `json:"r"`
	Idx   int             `json:"idx"`
	Cut   int             `json:"cut"`
	From  int             `json:"from"`
	Rerr  string          `json:"rerr"`
	Op    string          `json:"op"`
	Id    int             `json:"id"`
	Pt    int             `json:"pt"`
	Lvl   int             `json:"lvl"`
	Meta  hx.Meta         `json:"meta"`
	Items []hx.Item       `json:"items"`
	Res   string          `json:"res"`
	Errs  [][]interface{} `json:"errs"`
	St    *hx.State       `json:"st,omitempty"`
	Cfg   interface{}     `json:"cfg,omitempty"`
}

// replicas: each log (map-state history + one more operation) is applied by replica A entry by
// entry, with a snapshot after every entry; for every cut point another replica is started from
// that snapshot (fresh, or after having applied cut-1 entries itself) and fed the same bytes.
func replicas(c Cfg, in, out string, seed int64, nbatch int) {
	rng := rand.New(rand.NewSource(seed))
	u := hx.GolombUniverse(c.Index.Metric, c.Np, c.Dim)
	d := newDriver(c, u)
	f, err := os.Open(in)
	if err != nil {
		panic(err)
	}
	defer f.Close()
	w, _ := os.Create(out)
	defer w.Close()
	bw := bufio.NewWriterSize(w, 1<<20)
	defer bw.Flush()
	enc := json.NewEncoder(bw)
	metas := allMetas(c, d.zero)
	sc := bufio.NewScanner(f)
	sc.Buffer(make([]byte, 1<<20), 1<<26)
	hid := 0
	fill := func(ev *revent, o hx.Op) {
		ev.Op, ev.Id, ev.Pt, ev.Lvl, ev.Meta, ev.Items = o.Op, o.Id, o.Pt, o.Lvl, o.Meta, o.Items
		if ev.Meta == nil {
			ev.Meta = d.zero
		}
		if ev.Items == nil {
			ev.Items = []hx.Item{}
		}
		for k := range ev.Items {
			if ev.Items[k].Meta == nil {
				ev.Items[k].Meta = d.zero
			}
		}
	}
	for sc.Scan() {
		var h hist
		if err := json.Unmarshal(sc.Bytes(), &h); err != nil {
			panic(err)
		}
		for _, o := range alphabet(c, rng, metas, len(h.H), nbatch) {
			if o.Op == "saveload" {
				continue
			}
			hid++
			if c.Stride > 1 && hid%c.Stride != c.Offset%c.Stride {
				continue
			}
			logOps := append(append([]hx.Op{}, h.H...), o)
			for i := range logOps {
				if logOps[i].Op == "insert" && i < len(h.H) {
					logOps[i].Lvl = (logOps[i].Id + i) % (c.MaxLv + 1)
				}
			}
			enc.Encode(revent{Ev: "reset", Hid: hid, Meta: d.zero, Items: []hx.Item{}, Errs: [][]interface{}{},
				Cfg: map[string]interface{}{"M": c.Index.M, "metric": c.Index.Metric, "algo": c.Index.Algo}})
			a := storage.NewVerifPartitionSM(c.Index.New(u))
			data := make([][]byte, len(logOps))
			snaps := make([][]byte, len(logOps)+1)
			snapErr := make([]string, len(logOps)+1)
			take := func(i int) {
				b, err := a.Snapshot()
				if err != nil {
					snapErr[i] = "snapshot: " + err.Error()
				}
				// kept as returned, not copied: the raft log store caches exactly this slice and hands it out for
				// snapshot messages long after the state machine has moved on and taken further snapshots
				snaps[i] = b
			}
			take(0)
			dead := false
			for i, op := range logOps {
				ev := revent{Ev: "apply", Hid: hid, R: "A", Idx: i + 1}
				fill(&ev, op)
				bts, outc := a.Apply(hx.Change(u, op))
				data[i] = bts
				oc := hx.OutcomeOf(op, outc)
				ev.Res, ev.Errs = oc.Res, oc.Errs
				st, _ := hx.Project(a.Index(), u, c.Keys)
				ev.St = &st
				enc.Encode(ev)
				if oc.Res == "panic" || oc.Res == "fatal" {
					dead = true
					break
				}
				take(i + 1)
			}
			if dead {
				continue
			}
			// replica C: a follower as it really is - nobody waits for the entries' outcomes
			{
				cr := storage.NewVerifPartitionSM(c.Index.New(u))
				for i := range logOps {
					ev := revent{Ev: "apply", Hid: hid, R: "C", Idx: i + 1}
					fill(&ev, logOps[i])
					out := cr.ApplyBytes(data[i])
					ev.Res = "unobserved"
					if out.Panic != "" {
						ev.Res = "panic"
					} else if out.ProcessErr != "" {
						ev.Res = "fatal" // the ready loop would log.Fatal
					}
					ev.Errs = [][]interface{}{}
					st, _ := hx.Project(cr.Index(), u, c.Keys)
					ev.St = &st
					enc.Encode(ev)
					if ev.Res != "unobserved" {
						break
					}
				}
			}
			// replica D: a replica that has a caller of its own waiting - registered, its entry not applied yet - while it
			// applies the entries proposed through replica A: nothing of theirs may reach that caller
			{
				dr := storage.NewVerifPartitionSM(c.Index.New(u))
				for i := range logOps {
					waiter := dr.VerifPendingCaller()
					ev := revent{Ev: "apply", Hid: hid, R: "D", Idx: i + 1}
					fill(&ev, logOps[i])
					out := dr.ApplyBytes(data[i])
					ev.Res = "unobserved"
					select {
					case <-waiter:
						ev.Res = "misdelivered"
					default:
					}
					if out.Panic != "" {
						ev.Res = "panic"
					} else if out.ProcessErr != "" {
						ev.Res = "fatal"
					}
					ev.Errs = [][]interface{}{}
					st, _ := hx.Project(dr.Index(), u, c.Keys)
					ev.St = &st
					enc.Encode(ev)
					if ev.Res == "panic" || ev.Res == "fatal" {
						break
					}
				}
			}
			for cut := 0; cut <= len(logOps); cut++ {
				froms := []int{0}
				if cut >= 1 {
					froms = append(froms, cut-1)
				}
				if cut >= 2 {
					froms = append(froms, 1)
				}
				for _, from := range froms {
					b := storage.NewVerifPartitionSM(c.Index.New(u))
					for i := 0; i < from; i++ {
						b.ApplyObserved(data[i])
					}
					ev := revent{Ev: "branch", Hid: hid, R: "B", Cut: cut, From: from, Meta: d.zero, Items: []hx.Item{}, Errs: [][]interface{}{}}
					ev.Rerr = snapErr[cut]
					if ev.Rerr == "" {
						if err := b.Restore(snaps[cut]); err != nil {
							ev.Rerr = "restore: " + err.Error()
						}
					}
					st, _ := hx.Project(b.Index(), u, c.Keys)
					ev.St = &st
					enc.Encode(ev)
					if ev.Rerr != "" {
						continue
					}
					for i := cut; i < len(logOps); i++ {
						ev := revent{Ev: "apply", Hid: hid, R: "B", Idx: i + 1}
						fill(&ev, logOps[i])
						oc := hx.OutcomeOf(logOps[i], b.ApplyObserved(data[i]))
						ev.Res, ev.Errs = oc.Res, oc.Errs
						st, _ := hx.Project(b.Index(), u, c.Keys)
						ev.St = &st
						enc.Encode(ev)
					}
				}
			}
		}
	}
}

// ------------------------------------------------------------------ random

// random histories beyond the exact model's premise: more ids, random vectors
// (ties through repeated points), small ef / efConstruction, any M, all op kinds.
func random(c Cfg, n, maxlen int, seed int64, out, rankOut string) {
	rng := rand.New(rand.NewSource(seed))
	vecs := make([]amath.Vector, c.Np)
	for i := range vecs {
		v := make(amath.Vector, c.Dim)
		for j := range v {
			v[j] = float32(rng.Intn(7)-3) + float32(rng.Intn(4))*0.25
		}
		if c.Index.Derived && i%7 == 3 {
			// outliers: points far from the rest are the first to lose their incoming links when a budget is too small
			for j := range v {
				v[j] *= 10
			}
		}
		if c.Index.Metric == "cosine" {
			v[0] += 0.125 // avoid the zero vector
			if i >= 2 && i%3 == 2 {
				// same direction as an earlier point, another norm: 1 - cos is zero up to float32 rounding
				s := []float32{3, 0.3, 7, 1.7}[rng.Intn(4)]
				for j := range v {
					v[j] = vecs[i-2][j] * s
				}
			}
		}
		vecs[i] = v
	}
	// a few exact duplicates of earlier points under a different name are expressed by
	// re-using the same point for different ids, which the generator below does freely
	u := hx.NewUniverse(c.Index.Metric, vecs)
	ioutil.WriteFile(rankOut, []byte(u.RankModule()), 0644)
	d := newDriver(c, u)
	w, _ := os.Create(out)
	defer w.Close()
	bw := bufio.NewWriterSize(w, 1<<20)
	defer bw.Flush()
	enc := json.NewEncoder(bw)
	meta := func() hx.Meta {
		m := hx.Meta{}
		for _, k := range c.Keys {
			m[k] = 0
			if rng.Intn(2) == 0 {
				m[k] = 1 + rng.Intn(c.Vals)
			}
		}
		return m
	}
	item := func() hx.Item {
		return hx.Item{Id: 1 + rng.Intn(c.NIds), Pt: 1 + rng.Intn(c.Np), Lvl: lvl(rng, c.MaxLv), Meta: meta()}
	}
	for hid := 1; hid <= n; hid++ {
		if hid%25 == 1 {
			enc.Encode(nearUpdate(d, hid, rng))
		}
		enc.Encode(d.resetEvent(hid))
		ln := 1 + rng.Intn(maxlen)
		// the first third of the histories is insert-only (C07 clause 1 at larger M)
		insertOnly := hid%3 == 0 || (c.Index.Derived && hid%3 == 1)
		// every tenth history: some updates carry a metadata value too long for the snapshot format (accepted by the
		// index; such histories take no snapshot - that a snapshot of such a state is refused is C08's open finding)
		oversize := hid%10 == 7 && len(c.Keys) > 0
		for i := 1; i <= ln; i++ {
			var o hx.Op
			x := rng.Intn(100)
			it := item()
			if insertOnly && c.Index.Derived && i <= c.NIds {
				it.Id = i // distinct ids: the collection grows to the length of the history
			}
			switch {
			case insertOnly || x < 40:
				o = hx.Op{Op: "insert", Id: it.Id, Pt: it.Pt, Lvl: it.Lvl, Meta: it.Meta}
			case x < 60:
				o = hx.Op{Op: "remove", Id: it.Id}
			case x < 75:
				o = hx.Op{Op: "update", Id: it.Id, Pt: it.Pt, Meta: it.Meta}
			case x < 78:
				o = hx.Op{Op: "saveload"}
			case x < 80:
				o = hx.Op{Op: "loadempty"}
			default:
				kinds := []string{"binsert", "bupdate", "bremove"}
				o = hx.Op{Op: kinds[rng.Intn(3)]}
				for k := 1 + rng.Intn(3); k > 0; k-- {
					bi := item()
					if o.Op == "bremove" {
						bi = hx.Item{Id: bi.Id, Pt: 1}
					}
					if o.Op == "bupdate" {
						bi.Lvl = 0
					}
					o.Items = append(o.Items, bi)
				}
			}
			if oversize {
				if o.Op == "saveload" || o.Op == "loadempty" {
					o = hx.Op{Op: "remove", Id: it.Id}
				}
				if (o.Op == "update" || o.Op == "insert") && rng.Intn(3) == 0 {
					m := hx.Meta{}
					for k, v := range o.Meta {
						m[k] = v
					}
					m[c.Keys[0]] = hx.LongVal
					o.Meta = m
				}
				if o.Op == "bupdate" && len(o.Items) > 0 && rng.Intn(3) == 0 {
					m := hx.Meta{}
					for k, v := range o.Items[0].Meta {
						m[k] = v
					}
					m[c.Keys[0]] = hx.LongVal
					o.Items[0].Meta = m
				}
			}
			full := c.Full == "all" || i == ln || rng.Intn(4) == 0
			ev := d.exec(o, hid, i, full)
			enc.Encode(ev)
			if ev.Res == "panic" || ev.Res == "fatal" {
				break
			}
		}
	}
}

func lvl(rng *rand.Rand, max int) int {
	l := 0
	for l < max && rng.Intn(3) == 0 {
		l++
	}
	return l
}

var _ = index.ItemNotFoundError

// nearUpdate: "updating replaces the vector" for every vector - also one that differs from the stored one in the last
// bit of one coordinate only (single and batch update, on a state machine of its own: the model's universe has no such
// pair of points).  The event carries the bits asked for and the bits stored afterwards.
func nearUpdate(d *driver, hid int, rng *rand.Rand) map[string]interface{} {
	sm := storage.NewVerifPartitionSM(d.cfg.Index.New(d.u))
	ev := map[string]interface{}{"ev": "near", "hid": hid, "want": []string{}, "got": []string{}, "err": "", "cwant": []string{}, "cgot": []string{}}
	defer func() {
		if r := recover(); r != nil {
			ev["err"] = fmt.Sprint("panic: ", r)
		}
	}()
	bits := func(v amath.Vector) string {
		s := ""
		for _, x := range v {
			s += fmt.Sprintf("%08x", math.Float32bits(x))
		}
		return s
	}
	var want, got []string
	for k := 1; k <= 3 && k <= len(d.u.Vecs); k++ {
		id := hx.Uid(k)
		v := append(amath.Vector{}, d.u.Vecs[k-1]...)
		sm.Apply(&pb.PartitionChange{Type: pb.PartitionChangeType_PartitionChangeInsertValue, Id: id.Bytes(), Value: v})
		c := rng.Intn(len(v))
		for step := 0; step < 2; step++ {
			nv := append(amath.Vector{}, v...)
			up := float32(math.Inf(1))
			if (k+step)%2 == 0 {
				up = float32(math.Inf(-1))
			}
			nv[c] = math.Nextafter32(nv[c], up)
			if step == 0 {
				sm.Apply(&pb.PartitionChange{Type: pb.PartitionChangeType_PartitionChangeUpdateValue, Id: id.Bytes(), Value: nv})
			} else {
				sm.Apply(&pb.PartitionChange{Type: pb.PartitionChangeType_PartitionChangeBatchUpdateValue,
					BatchItems: []*pb.BatchItem{{Id: id.Bytes(), Value: nv}}})
			}
			st, err := sm.Index().Get(id)
			if err != nil {
				ev["err"] = err.Error()
				return ev
			}
			want, got = append(want, bits(nv)), append(got, bits(st))
			v = nv
		}
	}
	ev["want"], ev["got"] = want, got
	// C07 clause 1 on the same small index: a search whose context is already cancelled returns what an undisturbed
	// search returns, or an error - never a shorter list without one
	ids := func(r index.SearchResult, err error) []string {
		if err != nil {
			return []string{"err"}
		}
		out := []string{}
		for _, it := range r {
			out = append(out, it.Id.String()[:8]+fmt.Sprintf("%.3f", it.Score))
		}
		return out
	}
	// (an index of its own with TWO items, each the other's only possible neighbour: whatever the link budgets and the
	// selection mode, an undisturbed search finds both, in the same order every time)
	sm2 := storage.NewVerifPartitionSM(d.cfg.Index.New(d.u))
	for k := 1; k <= 2; k++ {
		sm2.Apply(&pb.PartitionChange{Type: pb.PartitionChangeType_PartitionChangeInsertValue, Id: hx.Uid(k).Bytes(), Value: append(amath.Vector{}, d.u.Vecs[k-1]...)})
	}
	cctx, cancel := context.WithCancel(context.Background())
	cancel()
	w1 := ids(sm2.Index().Search(context.Background(), d.u.Vecs[0], 2))
	w2 := ids(sm2.Index().Search(context.Background(), d.u.Vecs[0], 2))
	if len(w1) == 2 && fmt.Sprint(w1) == fmt.Sprint(w2) {
		ev["cwant"] = w1
		ev["cgot"] = ids(sm2.Index().Search(cctx, d.u.Vecs[0], 2))
	}
	return ev
}
