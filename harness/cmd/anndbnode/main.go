// Command anndbnode is cmd/anndb's main with the verif hooks wired: one real anndb
// server process for the L2 harness (properties C12 C14 C18 C20).
//
//	anndbnode -port P -data-dir D [-join addr | -join false] [-node-id N]
//
// Environment: VERIF_SETUP_DELAY_MS  sleep this long in the gate between zeroGroup.Start()
//
//	                      and the registration of the catalogue consumer
//	VERIF_APPLY_DELAY_MS  a slow replica: ready cycles with committed entries start this much later
//	SIGUSR1               request a local snapshot of the zero group (skip = 0)
package main

import (
	"flag"
	"fmt"
	"os"
	"os/signal"
	"strconv"
	"strings"
	"syscall"
	"time"

	etcdRaft "github.com/coreos/etcd/raft"
	"github.com/coreos/etcd/raft/raftpb"
	"github.com/marekgalovic/anndb"
	"github.com/marekgalovic/anndb/storage/raft"
	log "github.com/sirupsen/logrus"
)

func main() {
	var join string
	config := anndb.NewConfig()
	flag.Uint64Var(&config.RaftNodeId, "node-id", 0, "Raft node ID")
	flag.StringVar(&config.Port, "port", "6000", "Node port")
	flag.StringVar(&join, "join", "", "Comma separated list of existing cluster nodes")
	flag.StringVar(&config.DataDir, "data-dir", "/tmp", "Data directory")
	flag.Parse()
	if os.Getenv("VERIF_LOG") == "" {
		log.SetLevel(log.ErrorLevel)
	}
	if join == "false" {
		config.DoNotJoinCluster = true
	} else {
		for _, s := range strings.Split(join, ",") {
			if len(s) > 0 {
				config.JoinNodes = append(config.JoinNodes, strings.Trim(s, " "))
			}
		}
	}
	if d, _ := strconv.Atoi(os.Getenv("VERIF_SETUP_DELAY_MS")); d > 0 {
		anndb.VerifGate = func(point string) {
			if point == "setup.afterZeroStart" {
				time.Sleep(time.Duration(d) * time.Millisecond)
			}
		}
	}
	if d, _ := strconv.Atoi(os.Getenv("VERIF_APPLY_DELAY_MS")); d > 0 {
		// a slow replica: every ready cycle that has committed entries to apply starts this much later
		raft.VerifHook = func(g *raft.RaftGroup, point string, rd *etcdRaft.Ready, entry *raftpb.Entry, err error) {
			if point == "ready" && rd != nil && len(rd.CommittedEntries) > 0 {
				time.Sleep(time.Duration(d) * time.Millisecond)
			}
		}
	}
	if d, _ := strconv.Atoi(os.Getenv("VERIF_JOIN_REPLY_DELAY_MS")); d > 0 {
		// the member's reply to the join hand-shake is processed this much later (newer changes overtake it)
		raft.VerifJoinReply = func() { time.Sleep(time.Duration(d) * time.Millisecond) }
	}
	os.MkdirAll(config.DataDir, os.ModePerm)
	server := anndb.NewServer(config)
	if err := server.Run(); err != nil {
		fmt.Fprintln(os.Stderr, "RUN-ERROR:", err)
		os.Exit(4)
	}
	if !config.DoNotJoinCluster {
		if err := server.JoinCluster(); err != nil {
			fmt.Fprintln(os.Stderr, "JOIN-ERROR:", err)
			os.Exit(5)
		}
	}
	if ms, _ := strconv.Atoi(os.Getenv("VERIF_JOIN_DELAY_MS")); ms > 0 && !config.DoNotJoinCluster {
		// window between the members recording the join and this process reporting it
		time.Sleep(time.Duration(ms) * time.Millisecond)
	}
	fmt.Println("READY", server.VerifNodeId())
	usr := make(chan os.Signal, 4)
	signal.Notify(usr, syscall.SIGUSR1)
	term := make(chan os.Signal, 1)
	signal.Notify(term, syscall.SIGTERM, syscall.SIGINT)
	for {
		select {
		case <-usr:
			go func() {
				server.VerifZeroGroup().VerifRequestSnapshot(0)
				fmt.Println("SNAPSHOT-REQUESTED")
			}()
		case <-term:
			server.Stop()
			return
		}
	}
}
