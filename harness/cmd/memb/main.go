// Command memb binds Membership.tla to the real cluster.Conn + raft.NodesManager at L1 (property C20):
// random membership logs - join(n) from a new address each time, leave(n) - are applied to three address books:
//
//	a  every entry (Conn.AddNode / Conn.RemoveNode, what the zero group's apply loop does per entry)
//	b  a prefix, then a's snapshot taken at a later index (NodesManager.processSnapshot), then the rest
//	c  that snapshot into a fresh book, then the rest
//
// and all three must end as the fold of the log says: the members, each with the address of its latest join.
//
//	memb <trace.ndjson> <seed> <nlogs>
package main

import (
	"bufio"
	"context"
	"encoding/json"
	"fmt"
	"math/rand"
	"os"
	"strconv"

	"github.com/marekgalovic/anndb/cluster"
	"github.com/marekgalovic/anndb/storage/raft"
	log "github.com/sirupsen/logrus"
)

// group captures the functions NodesManager registers for the zero group's snapshots
type group struct {
	restore raft.ProcessFn
	snap    raft.SnapshotFn
}

func (g *group) RegisterProcessFn(raft.ProcessFn) error           { return nil }
func (g *group) RegisterProcessSnapshotFn(f raft.ProcessFn) error { g.restore = f; return nil }
func (g *group) RegisterSnapshotFn(f raft.SnapshotFn) error       { g.snap = f; return nil }
func (g *group) LeaderId() uint64                                 { return 1 }
func (g *group) Propose(ctx context.Context, b []byte) error      { return nil }

type entry struct {
	Op   string `json:"op"`
	N    int    `json:"n"`
	Addr string `json:"addr"`
}

type book struct {
	conn *cluster.Conn
	g    *group
}

func newBook(self int, addr string) *book {
	conn, _ := cluster.NewConn(uint64(self), addr, "")
	conn.AddNode(uint64(self), addr)
	b := &book{conn: conn, g: &group{}}
	nm := raft.NewNodesManager(conn, nil)
	if err := nm.RegisterSnapshot(b.g); err != nil {
		panic(err)
	}
	return b
}

func (b *book) apply(e entry) {
	if e.Op == "join" {
		b.conn.AddNode(uint64(e.N), e.Addr)
	} else {
		b.conn.RemoveNode(uint64(e.N))
	}
}

func (b *book) view() map[string]string {
	out := map[string]string{}
	for id, a := range b.conn.Nodes() {
		out[fmt.Sprint(id)] = a
	}
	return out
}

func main() {
	if os.Getenv("VERIF_LOG") == "" {
		log.SetLevel(log.ErrorLevel)
	}
	f, _ := os.Create(os.Args[1])
	defer f.Close()
	bw := bufio.NewWriter(f)
	defer bw.Flush()
	enc := json.NewEncoder(bw)
	seed, _ := strconv.ParseInt(os.Args[2], 10, 64)
	nlogs, _ := strconv.Atoi(os.Args[3])
	rng := rand.New(rand.NewSource(seed))
	for hid := 1; hid <= nlogs; hid++ {
		// node 1 is the member whose books we look at (it never leaves); 2..5 come and go
		members := map[int]bool{1: true}
		gen := map[int]int{}
		var log []entry
		n := 1 + rng.Intn(9)
		for len(log) < n {
			x := 2 + rng.Intn(4)
			if members[x] {
				log = append(log, entry{Op: "leave", N: x})
				delete(members, x)
			} else {
				gen[x]++
				log = append(log, entry{Op: "join", N: x, Addr: fmt.Sprintf("10.0.%d.%d:6000", gen[x], x)})
				members[x] = true
			}
		}
		cut := rng.Intn(len(log) + 1)
		snapAt := cut + rng.Intn(len(log)+1-cut)
		a, b, c := newBook(1, "10.0.0.1:6000"), newBook(1, "10.0.0.1:6000"), newBook(1, "10.0.0.1:6000")
		res := "ok"
		var snap []byte
		func() {
			defer func() {
				if r := recover(); r != nil {
					res = fmt.Sprint("panic: ", r)
				}
			}()
			for i, e := range log {
				if i == snapAt {
					snap, _ = a.g.snap()
				}
				a.apply(e)
			}
			if snapAt == len(log) {
				snap, _ = a.g.snap()
			}
			for _, e := range log[:cut] {
				b.apply(e)
			}
			if err := b.g.restore(snap); err != nil {
				res = "restore: " + err.Error()
			}
			for _, e := range log[snapAt:] {
				b.apply(e)
			}
			if err := c.g.restore(snap); err != nil {
				res = "restore: " + err.Error()
			}
			for _, e := range log[snapAt:] {
				c.apply(e)
			}
		}()
		enc.Encode(map[string]interface{}{"ev": "memb", "hid": hid, "log": log, "cut": cut, "snapat": snapAt, "res": res,
			"a": a.view(), "b": b.view(), "c": c.view()})
	}
}
