// Command place exercises the real allocator placement function (C16).
//
//	place <trace.ndjson> <seed> <draws>
package main

import (
	"bufio"
	"encoding/json"
	"math/rand"
	"os"
	"sort"
	"strconv"
	"sync"

	"github.com/marekgalovic/anndb/cluster"
	"github.com/marekgalovic/anndb/storage"
	_ "verifharness/internal/hx"
)

type event struct {
	Ev      string  `json:"ev"`
	N       int     `json:"n"`
	R       int     `json:"r"`
	P       int     `json:"p"`
	Members []int   `json:"members"`
	Pl      [][]int `json:"pl"`
	Draws   int     `json:"draws"`
	AllDiag int     `json:"alldiag"`
	Panic   string  `json:"panic"`
}

func main() {
	out := os.Args[1]
	seed, _ := strconv.ParseInt(os.Args[2], 10, 64)
	draws, _ := strconv.Atoi(os.Args[3])
	f, _ := os.Create(out)
	defer f.Close()
	bw := bufio.NewWriter(f)
	defer bw.Flush()
	enc := json.NewEncoder(bw)
	rand.Seed(seed)
	for _, n := range []int{1, 2, 3, 4, 5, 8, 16} {
		conn, _ := cluster.NewConn(1, "127.0.0.1:1", "")
		members := []int{}
		for i := 1; i <= n; i++ {
			conn.AddNode(uint64(i*7), "127.0.0.1:1")
			members = append(members, i*7)
		}
		alloc := storage.NewAllocator(conn)
		for _, r := range []int{1, 2, 3, 8} {
			for _, p := range []int{1, 2, 3, 7, 64} {
				allDiag := 1
				for d := 0; d < draws; d++ {
					ev := event{Ev: "place", N: n, R: r, P: p, Members: members, Pl: [][]int{}}
					func() {
						defer func() {
							if x := recover(); x != nil {
								ev.Panic = "panic"
							}
						}()
						pl := alloc.VerifPartitionsNodeIds(uint(p), uint(r))
						for _, s := range pl {
							row := []int{}
							for _, id := range s {
								row = append(row, int(id))
							}
							sort.Ints(row)
							ev.Pl = append(ev.Pl, row)
						}
					}()
					for i := 1; i < len(ev.Pl); i++ {
						if len(ev.Pl[i]) != len(ev.Pl[0]) {
							allDiag = 0
							break
						}
						for j := range ev.Pl[i] {
							if ev.Pl[i][j] != ev.Pl[0][j] {
								allDiag = 0
							}
						}
					}
					if d < 6 {
						enc.Encode(ev)
					}
				}
				enc.Encode(event{Ev: "indep", N: n, R: r, P: p, Members: members, Pl: [][]int{}, Draws: draws, AllDiag: allDiag})
			}
		}
		alloc.Stop()
	}
	// membership histories: the members are what is left after joins and removals - of peers this node has
	// and has not talked to - and re-joins; several creations may run at the same time
	for _, n := range []int{3, 5, 9} {
		conn, _ := cluster.NewConn(1, "127.0.0.1:1", "")
		alloc := storage.NewAllocator(conn)
		cur := map[int]bool{}
		for i := 1; i <= n+3; i++ {
			conn.AddNode(uint64(i*7), "127.0.0.1:1")
			cur[i*7] = true
			if i%2 == 0 {
				conn.Dial(uint64(i * 7)) // a peer this node has a connection to
			}
		}
		for _, i := range []int{2, 3, n + 3} { // one dialed, one never dialed, the last one
			conn.RemoveNode(uint64(i * 7))
			delete(cur, i*7)
		}
		conn.AddNode(uint64(2*7), "127.0.0.1:1") // a node that comes back
		cur[14] = true
		conn.RemoveNode(uint64(14))
		delete(cur, 14)
		members := []int{}
		for m := range cur {
			members = append(members, m)
		}
		sort.Ints(members)
		for _, r := range []int{1, 2, 3, 8} {
			for _, p := range []int{1, 3, 7} {
				var mu sync.Mutex
				var wg sync.WaitGroup
				allDiag := 1
				for g := 0; g < 8; g++ {
					wg.Add(1)
					go func(g int) {
						defer wg.Done()
						for d := 0; d < draws/4+1; d++ {
							ev := event{Ev: "place", N: len(members), R: r, P: p, Members: members, Pl: [][]int{}}
							func() {
								defer func() {
									if x := recover(); x != nil {
										ev.Panic = "panic"
									}
								}()
								for _, s := range alloc.VerifPartitionsNodeIds(uint(p), uint(r)) {
									row := []int{}
									for _, id := range s {
										row = append(row, int(id))
									}
									sort.Ints(row)
									ev.Pl = append(ev.Pl, row)
								}
							}()
							mu.Lock()
							for i := 1; i < len(ev.Pl); i++ {
								if len(ev.Pl[i]) != len(ev.Pl[0]) {
									allDiag = 0
									break
								}
								for j := range ev.Pl[i] {
									if ev.Pl[i][j] != ev.Pl[0][j] {
										allDiag = 0
									}
								}
							}
							enc.Encode(ev)
							mu.Unlock()
						}
					}(g)
				}
				wg.Wait()
				enc.Encode(event{Ev: "indep", N: len(members), R: r, P: p, Members: members, Pl: [][]int{}, Draws: 8 * (draws/4 + 1), AllDiag: allDiag})
			}
		}
		alloc.Stop()
	}
}
