// Command conc exercises index.Hnsw under concurrency (property C13).
//
//	conc forced <trace.ndjson>                       gate-forced schedules (the TLC counterexamples of spec/HnswConc and
//	                                                 their single-writer counterparts), through the verif yield points
//	conc stress <trace.ndjson> <seed> <writers> <readers> <ops>   free-running stress with call-interval stamps
package main

import (
	"bufio"
	"context"
	"encoding/json"
	"fmt"
	"math/rand"
	"os"
	"sort"
	"strconv"
	"sync"
	"sync/atomic"
	"time"

	"github.com/marekgalovic/anndb/index"
	amath "github.com/marekgalovic/anndb/math"
	uuid "github.com/satori/go.uuid"
	"verifharness/internal/hx"
)

type event map[string]interface{}

var u = hx.GolombUniverse("euclidean", 7, 3)
var keys = []string{"a"}

func quiesce(idx *index.Hnsw, name string) event {
	st, _ := hx.Project(idx, u, keys)
	qs := []int{}
	for q := 1; q <= len(u.Vecs); q++ {
		qs = append(qs, q)
	}
	return event{"ev": "quiesce", "name": name, "st": st, "sr": hx.Probe(idx, u, keys, qs, []int{1, 3})}
}

// ---------------------------------------------------------------- forced schedules

type parker struct {
	mu     sync.Mutex
	parkAt map[string]chan struct{} // "point:id" -> release channel
	at     chan string
}

func (p *parker) install() {
	p.at = make(chan string, 16)
	index.VerifYield = func(point string, id uuid.UUID) {
		k := fmt.Sprintf("%s:%d", point, hx.IdOf(id))
		p.mu.Lock()
		c := p.parkAt[k]
		p.mu.Unlock()
		if c != nil {
			p.at <- k
			<-c
		}
	}
}
func (p *parker) arm(k string) chan struct{} {
	c := make(chan struct{})
	p.mu.Lock()
	if p.parkAt == nil {
		p.parkAt = map[string]chan struct{}{}
	}
	p.parkAt[k] = c
	p.mu.Unlock()
	return c
}
func (p *parker) wait(k string) bool {
	for {
		select {
		case got := <-p.at:
			if got == k {
				return true
			}
			// a stale token of an earlier scenario (a goroutine that parked twice): ignore
		case <-time.After(2 * time.Second):
			return false
		}
	}
}

func safely(f func() error) (res string) {
	defer func() {
		if r := recover(); r != nil {
			res = fmt.Sprint("panic: ", r)
		}
	}()
	return hx.ErrClass(errString(f()))
}
func errString(e error) string {
	if e == nil {
		return ""
	}
	return e.Error()
}

func newIndex() *index.Hnsw {
	return hx.IndexCfg{Metric: "euclidean", Algo: "simple", M: 2, MMax: 2, MMax0: 4}.New(u)
}
func ins(idx *index.Hnsw, id, pt int) func() error {
	return func() error {
		return idx.Insert(hx.Uid(id), append(amath.Vector{}, u.Vecs[pt-1]...), nil, 0)
	}
}
func rem(idx *index.Hnsw, id int) func() error { return func() error { return idx.Remove(hx.Uid(id)) } }

func forced(out string) {
	f, _ := os.Create(out)
	defer f.Close()
	enc := json.NewEncoder(f)
	p := &parker{}
	p.install()
	run := func(name string, writers int, setup func(*index.Hnsw), body func(idx *index.Hnsw) []string) {
		idx := newIndex()
		setup(idx)
		p.mu.Lock()
		p.parkAt = nil
		p.mu.Unlock()
		res := body(idx)
		q := quiesce(idx, name)
		q["writers"], q["res"], q["forced"] = writers, res, 1
		for _, r := range res {
			if len(r) > 5 && r[:5] == "panic" {
				q["panic"] = r
			}
		}
		if _, ok := q["panic"]; !ok {
			q["panic"] = ""
		}
		enc.Encode(q)
	}
	three := func(idx *index.Hnsw) {
		ins(idx, 1, 1)()
		ins(idx, 2, 2)()
		ins(idx, 3, 5)()
	}
	// (1) two writers: Remove(entry point) chooses its neighbour 2, is parked before the CAS; Remove(2) completes
	run("rem(ep)||rem(neighbour)", 2, three, func(idx *index.Hnsw) []string {
		c := p.arm("remove.handover:1")
		r1 := make(chan string, 1)
		go func() { r1 <- safely(rem(idx, 1)) }()
		ok := p.wait("remove.handover:1")
		r2 := safely(rem(idx, 2))
		close(c)
		return []string{<-r1, r2, fmt.Sprint("parked=", ok)}
	})
	// (2) two writers: Remove(last vertex) has decided on a nil hand-over; Insert saw a non-nil entry point and stored
	run("rem(last)||ins", 2, func(idx *index.Hnsw) { ins(idx, 1, 1)() }, func(idx *index.Hnsw) []string {
		c1 := p.arm("remove.handover:1")
		r1 := make(chan string, 1)
		go func() { r1 <- safely(rem(idx, 1)) }()
		ok1 := p.wait("remove.handover:1")
		c2 := p.arm("insert.stored:4")
		r2 := make(chan string, 1)
		go func() { r2 <- safely(ins(idx, 4, 4)) }()
		ok2 := p.wait("insert.stored:4")
		close(c1)
		a := <-r1
		close(c2)
		return []string{a, <-r2, fmt.Sprint("parked=", ok1, ok2)}
	})
	// (3) two writers: both first inserts see an empty index
	run("ins(first)||ins(first)", 2, func(idx *index.Hnsw) {}, func(idx *index.Hnsw) []string {
		c1 := p.arm("insert.first.stored:1")
		c2 := p.arm("insert.first.stored:2")
		r1, r2 := make(chan string, 1), make(chan string, 1)
		go func() { r1 <- safely(ins(idx, 1, 1)) }()
		ok1 := p.wait("insert.first.stored:1")
		go func() { r2 <- safely(ins(idx, 2, 3)) }()
		ok2 := p.wait("insert.first.stored:2")
		close(c1)
		a := <-r1
		close(c2)
		return []string{a, <-r2, fmt.Sprint("parked=", ok1, ok2)}
	})
	// (4) single writer, parked at each of its yield points while a reader searches
	for _, pt := range []string{"remove.unstored:1", "remove.handover:1"} {
		pt := pt
		run("writer rem(ep) parked at "+pt+" || search", 1, three, func(idx *index.Hnsw) []string {
			c := p.arm(pt)
			r1 := make(chan string, 1)
			go func() { r1 <- safely(rem(idx, 1)) }()
			ok := p.wait(pt)
			sr := hx.ProbeOne(idx, u, keys, 1, 3)
			close(c)
			return []string{<-r1, "search:" + hx.J(sr.Res) + sr.Err, fmt.Sprint("parked=", ok)}
		})
	}
	for _, pt := range []string{"insert.stored:4", "insert.linked:4"} {
		pt := pt
		run("writer ins parked at "+pt+" || search", 1, three, func(idx *index.Hnsw) []string {
			c := p.arm(pt)
			r1 := make(chan string, 1)
			go func() { r1 <- safely(ins(idx, 4, 4)) }()
			ok := p.wait(pt)
			sr := hx.ProbeOne(idx, u, keys, 4, 3)
			close(c)
			return []string{<-r1, "search:" + hx.J(sr.Res) + sr.Err, fmt.Sprint("parked=", ok)}
		})
	}
	index.VerifYield = nil
}

// ---------------------------------------------------------------- stress

type opRec struct {
	S, E int64
	Kind string
	Id   int
	Pt   int
	Res  string
}

func stress(out string, seed int64, writers, readers, nops int) {
	f, _ := os.Create(out)
	defer f.Close()
	bw := bufio.NewWriterSize(f, 1<<20)
	defer bw.Flush()
	enc := json.NewEncoder(bw)
	idx := newIndex()
	var clock int64
	tick := func() int64 { return atomic.AddInt64(&clock, 1) }
	nids := 6
	var mu sync.Mutex
	ops := map[int][]opRec{}
	type srec struct {
		S, E int64
		Q, K int
		Res  [][]interface{}
		Err  string
	}
	var searches []srec
	var wg sync.WaitGroup
	stop := int32(0)
	for w := 0; w < writers; w++ {
		wg.Add(1)
		go func(w int) {
			defer wg.Done()
			rng := rand.New(rand.NewSource(seed*100 + int64(w)))
			for i := 0; i < nops; i++ {
				id := 1 + rng.Intn(nids)
				pt := 1 + rng.Intn(len(u.Vecs))
				r := opRec{Id: id, Pt: pt}
				r.S = tick()
				if rng.Intn(5) < 3 {
					r.Kind = "insert"
					r.Res = safely(func() error {
						return idx.Insert(hx.Uid(id), append(amath.Vector{}, u.Vecs[pt-1]...), nil, rng.Intn(2))
					})
				} else {
					r.Kind = "remove"
					r.Res = safely(rem(idx, id))
				}
				r.E = tick()
				mu.Lock()
				ops[id] = append(ops[id], r)
				mu.Unlock()
			}
		}(w)
	}
	var rg sync.WaitGroup
	for r := 0; r < readers; r++ {
		rg.Add(1)
		go func(r int) {
			defer rg.Done()
			rng := rand.New(rand.NewSource(seed*1000 + int64(r)))
			for atomic.LoadInt32(&stop) == 0 {
				q := 1 + rng.Intn(len(u.Vecs))
				k := 1 + rng.Intn(4)
				s := srec{Q: q, K: k}
				s.S = tick()
				func() {
					defer func() {
						if x := recover(); x != nil {
							s.Err = fmt.Sprint("panic: ", x)
						}
					}()
					res, err := idx.Search(context.Background(), u.Vecs[q-1], uint(k))
					if err != nil {
						s.Err = err.Error()
					}
					for _, it := range res {
						s.Res = append(s.Res, []interface{}{hx.IdOf(it.Id), u.RankOf(it.Score)})
					}
				}()
				s.E = tick()
				mu.Lock()
				if len(searches) < 4000 {
					searches = append(searches, s)
				}
				mu.Unlock()
				_ = idx.Len()
				idx.Get(hx.Uid(1 + rng.Intn(nids)))
			}
		}(r)
	}
	wg.Wait()
	atomic.StoreInt32(&stop, 1)
	rg.Wait()
	// per id: the call history (what a linearization must explain) and the final presence
	st, _ := hx.Project(idx, u, keys)
	present := map[int]int{}
	for _, li := range st.Live {
		present[li.Id] = li.Pt
	}
	for id := 1; id <= nids; id++ {
		h := ops[id]
		sort.Slice(h, func(i, j int) bool { return h[i].S < h[j].S })
		hist := [][]interface{}{}
		for _, o := range h {
			hist = append(hist, []interface{}{o.S, o.E, o.Kind, o.Res, o.Pt})
		}
		enc.Encode(event{"ev": "idhistory", "id": id, "ops": hist, "present": present[id], "writers": writers})
	}
	// each search with the call intervals of the ids it returned
	for _, s := range searches {
		rel := map[string][][]interface{}{}
		res := s.Res
		if res == nil {
			res = [][]interface{}{}
		}
		for _, it := range res {
			id := it[0].(int)
			hist := [][]interface{}{}
			for _, o := range ops[id] {
				hist = append(hist, []interface{}{o.S, o.E, o.Kind, o.Res, o.Pt})
			}
			rel[strconv.Itoa(id)] = hist
		}
		enc.Encode(event{"ev": "search", "s": s.S, "e": s.E, "q": s.Q, "k": s.K, "res": res, "err": s.Err, "ops": rel, "writers": writers})
	}
	q := quiesce(idx, fmt.Sprintf("stress w=%d r=%d", writers, readers))
	q["writers"], q["res"], q["forced"], q["panic"] = writers, []string{}, 0, ""
	for _, h := range ops {
		for _, o := range h {
			if len(o.Res) > 5 && o.Res[:5] == "panic" {
				q["panic"] = o.Res
			}
		}
	}
	enc.Encode(q)
}

func main() {
	switch os.Args[1] {
	case "forced":
		forced(os.Args[2])
	case "stress":
		seed, _ := strconv.ParseInt(os.Args[3], 10, 64)
		w, _ := strconv.Atoi(os.Args[4])
		r, _ := strconv.Atoi(os.Args[5])
		n, _ := strconv.Atoi(os.Args[6])
		stress(os.Args[2], seed, w, r, n)
	}
}
