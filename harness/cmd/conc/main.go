// Command conc exercises index.Hnsw under concurrency (property C13).
//
//	conc forced <trace.ndjson>                       gate-forced schedules (the TLC counterexamples of spec/HnswConc and
//	                                                 their single-writer counterparts), through the verif yield points
//	conc stress <trace.ndjson> <seed> <writers> <readers> <ops>   free-running stress with call-interval stamps
package main

import (
	"bufio"
	"context"
	"encoding/json"
	"fmt"
	"math/rand"
	"os"
	"sort"
	"strconv"
	"sync"
	"sync/atomic"
	"time"

	"github.com/marekgalovic/anndb/index"
	amath "github.com/marekgalovic/anndb/math"
	uuid "github.com/satori/go.uuid"
	"verifharness/internal/hx"
)

type event map[string]interface{}

var u = hx.GolombUniverse("euclidean", 7, 3)
var keys = []string{"a"}

func quiesce(idx *index.Hnsw, name string) event {
	st, _ := hx.Project(idx, u, keys)
	qs := []int{}
	for q := 1; q <= len(u.Vecs); q++ {
		qs = append(qs, q)
	}
	return event{"ev": "quiesce", "name": name, "st": st, "sr": hx.Probe(idx, u, keys, qs, []int{1, 3})}
}

// ---------------------------------------------------------------- forced schedules

type parker struct {
	mu     sync.Mutex
	parkAt map[string]chan struct{} // "point:id" -> release channel
	at     chan string
}

func (p *parker) install() {
	p.at = make(chan string, 16)
	index.VerifYield = func(point string, id uuid.UUID) {
		k := fmt.Sprintf("%s:%d", point, hx.IdOf(id))
		p.mu.Lock()
		c := p.parkAt[k]
		if c != nil {
			delete(p.parkAt, k) // the first goroutine that arrives is parked, later ones pass
		}
		p.mu.Unlock()
		if c != nil {
			select {
			case p.at <- k:
			default: // nobody is waiting for this token any more (the point was released and is passed again)
			}
			<-c
		}
	}
}
func (p *parker) arm(k string) chan struct{} {
	c := make(chan struct{})
	p.mu.Lock()
	if p.parkAt == nil {
		p.parkAt = map[string]chan struct{}{}
	}
	p.parkAt[k] = c
	p.mu.Unlock()
	return c
}
func (p *parker) wait(k string) bool {
	for {
		select {
		case got := <-p.at:
			if got == k {
				return true
			}
			// a stale token of an earlier scenario (a goroutine that parked twice): ignore
		case <-time.After(2 * time.Second):
			return false
		}
	}
}

func safely(f func() error) (res string) {
	defer func() {
		if r := recover(); r != nil {
			res = fmt.Sprint("panic: ", r)
		}
	}()
	return hx.ErrClass(errString(f()))
}
func errString(e error) string {
	if e == nil {
		return ""
	}
	return e.Error()
}

func newIndex() *index.Hnsw {
	return hx.IndexCfg{Metric: "euclidean", Algo: "simple", M: 2, MMax: 2, MMax0: 4}.New(u)
}
func ins(idx *index.Hnsw, id, pt int) func() error {
	return func() error {
		return idx.Insert(hx.Uid(id), append(amath.Vector{}, u.Vecs[pt-1]...), nil, 0)
	}
}
func rem(idx *index.Hnsw, id int) func() error { return func() error { return idx.Remove(hx.Uid(id)) } }

func forced(out string) {
	f, _ := os.Create(out)
	defer f.Close()
	enc := json.NewEncoder(f)
	p := &parker{}
	p.install()
	run := func(name string, writers int, setup func(*index.Hnsw), body func(idx *index.Hnsw) []string) {
		idx := newIndex()
		setup(idx)
		p.mu.Lock()
		p.parkAt = nil
		p.mu.Unlock()
		res := body(idx)
		q := quiesce(idx, name)
		q["writers"], q["res"], q["forced"] = writers, res, 1
		for _, r := range res {
			if len(r) > 5 && r[:5] == "panic" {
				q["panic"] = r
			}
		}
		if _, ok := q["panic"]; !ok {
			q["panic"] = ""
		}
		enc.Encode(q)
	}
	three := func(idx *index.Hnsw) {
		ins(idx, 1, 1)()
		ins(idx, 2, 2)()
		ins(idx, 3, 5)()
	}
	// (1) two writers: Remove(entry point) chooses its neighbour 2, is parked before the CAS; Remove(2) completes
	run("rem(ep)||rem(neighbour)", 2, three, func(idx *index.Hnsw) []string {
		c := p.arm("remove.handover:1")
		r1 := make(chan string, 1)
		go func() { r1 <- safely(rem(idx, 1)) }()
		ok := p.wait("remove.handover:1")
		r2 := safely(rem(idx, 2))
		close(c)
		return []string{<-r1, r2, fmt.Sprint("parked=", ok)}
	})
	// (2) two writers: Remove(last vertex) has decided on a nil hand-over; Insert saw a non-nil entry point and stored
	run("rem(last)||ins", 2, func(idx *index.Hnsw) { ins(idx, 1, 1)() }, func(idx *index.Hnsw) []string {
		c1 := p.arm("remove.handover:1")
		r1 := make(chan string, 1)
		go func() { r1 <- safely(rem(idx, 1)) }()
		ok1 := p.wait("remove.handover:1")
		c2 := p.arm("insert.stored:4")
		r2 := make(chan string, 1)
		go func() { r2 <- safely(ins(idx, 4, 4)) }()
		ok2 := p.wait("insert.stored:4")
		close(c1)
		a := <-r1
		close(c2)
		return []string{a, <-r2, fmt.Sprint("parked=", ok1, ok2)}
	})
	// (3) two writers: both first inserts see an empty index
	run("ins(first)||ins(first)", 2, func(idx *index.Hnsw) {}, func(idx *index.Hnsw) []string {
		c1 := p.arm("insert.first.stored:1")
		c2 := p.arm("insert.first.stored:2")
		r1, r2 := make(chan string, 1), make(chan string, 1)
		go func() { r1 <- safely(ins(idx, 1, 1)) }()
		ok1 := p.wait("insert.first.stored:1")
		go func() { r2 <- safely(ins(idx, 2, 3)) }()
		ok2 := p.wait("insert.first.stored:2")
		close(c1)
		a := <-r1
		close(c2)
		return []string{a, <-r2, fmt.Sprint("parked=", ok1, ok2)}
	})
	// (4) single writer, parked at each of its yield points while a reader searches
	for _, pt := range []string{"remove.unstored:1", "remove.handover:1"} {
		pt := pt
		run("writer rem(ep) parked at "+pt+" || search", 1, three, func(idx *index.Hnsw) []string {
			c := p.arm(pt)
			r1 := make(chan string, 1)
			go func() { r1 <- safely(rem(idx, 1)) }()
			ok := p.wait(pt)
			sr := hx.ProbeOne(idx, u, keys, 1, 3)
			close(c)
			return []string{<-r1, "search:" + hx.J(sr.Res) + sr.Err, fmt.Sprint("parked=", ok)}
		})
	}
	for _, pt := range []string{"insert.stored:4", "insert.linked:4"} {
		pt := pt
		run("writer ins parked at "+pt+" || search", 1, three, func(idx *index.Hnsw) []string {
			c := p.arm(pt)
			r1 := make(chan string, 1)
			go func() { r1 <- safely(ins(idx, 4, 4)) }()
			ok := p.wait(pt)
			sr := hx.ProbeOne(idx, u, keys, 4, 3)
			close(c)
			return []string{<-r1, "search:" + hx.J(sr.Res) + sr.Err, fmt.Sprint("parked=", ok)}
		})
	}
	// (5) two writers: Remove(entry point) has taken the vertex out of the map and is parked before it hands the entry
	// point over.  Meanwhile the id is inserted again (elsewhere) and removed again - both calls succeed, so the first
	// removal has taken effect before them - and THEN a search runs: the first incarnation was not live at any instant
	// of that search, whatever the linearization
	{
		idx := newIndex()
		ins(idx, 1, 1)()
		ins(idx, 2, 2)()
		ins(idx, 3, 5)()
		p.mu.Lock()
		p.parkAt = nil
		p.mu.Unlock()
		for len(p.at) > 0 {
			<-p.at
		}
		c := p.arm("remove.unstored:1")
		r1 := make(chan string, 1)
		go func() { r1 <- safely(rem(idx, 1)) }()
		ok := p.wait("remove.unstored:1")
		ra := safely(ins(idx, 1, 6))
		rb := safely(rem(idx, 1))
		sr := hx.ProbeOne(idx, u, keys, 1, 3)
		close(c)
		rw := <-r1
		ops := map[string][][]interface{}{"1": {{1, 2, "insert", "ok", 1}, {10, 100, "remove", rw, 0}, {20, 21, "insert", ra, 6}, {30, 31, "remove", rb, 0}},
			"2": {{3, 4, "insert", "ok", 2}}, "3": {{5, 6, "insert", "ok", 5}}}
		rel := map[string][][]interface{}{}
		for _, it := range sr.Res {
			k := fmt.Sprint(it[0])
			rel[k] = ops[k]
		}
		enc.Encode(event{"ev": "search", "name": "rem(ep) parked at remove.unstored || ins(same id), rem(same id); search", "s": 40, "e": 41, "q": 1, "k": 3,
			"res": sr.Res, "err": sr.Err, "ops": rel, "writers": 2, "parked": ok})
	}
	enumeratePairs(enc, p)
	index.VerifYield = nil
}

// ---------------------------------------------------------------- enumerated two-operation schedules
//
// One writer W is parked at each of its yield points; a second operation O runs to completion meanwhile (if it
// blocks on something W holds, W is released and both must finish); then W resumes.  For every (setup, W, point, O)
// the same two operations are also run one after the other, in both orders, on fresh indexes: the concurrent run's
// outcomes must be those of one of the two orders, and an item that an exact-match search finds after BOTH orders
// must be found after the concurrent run.  (spec/HnswConc: every interleaving of two threads cut at the yield
// points is a state the model reaches; HnswConcTrace "pair" events.)

type pairOp struct {
	name   string
	id, pt int
	kind   string   // ins | rem | search | get | len
	points []string // yield points of this operation when it is the parked writer
}

func (o pairOp) run(idx *index.Hnsw) string {
	switch o.kind {
	case "ins":
		return safely(ins(idx, o.id, o.pt))
	case "rem":
		return safely(rem(idx, o.id))
	case "get":
		return safely(func() error { idx.Get(hx.Uid(o.id)); return nil })
	case "len":
		return safely(func() error { idx.Len(); idx.BytesSize(); return nil })
	}
	res := "ok"
	for q := 1; q <= len(u.Vecs); q++ {
		for _, k := range []int{1, 3} {
			if sr := hx.ProbeOne(idx, u, keys, q, k); sr.Err != "" {
				res = sr.Err
			}
		}
	}
	return res
}

// found: ids an exact-match search (query = the item's own point, k = 1..n) brings back
func found(idx *index.Hnsw, live []hx.LiveItem) map[int]bool {
	out := map[int]bool{}
	for _, it := range live {
		sr := hx.ProbeOne(idx, u, keys, it.Pt, len(live))
		for _, r := range sr.Res {
			if id, ok := r[0].(int); ok && id == it.Id {
				out[it.Id] = true
			}
		}
	}
	return out
}

func enumeratePairs(enc *json.Encoder, p *parker) {
	type setup struct {
		name string
		ids  [][2]int // id, point
	}
	setups := []setup{
		{"empty", nil},
		{"one", [][2]int{{1, 1}}},
		{"two", [][2]int{{1, 1}, {2, 2}}},
		{"three", [][2]int{{1, 1}, {2, 2}, {3, 5}}},
		{"four", [][2]int{{1, 3}, {2, 1}, {3, 6}, {6, 2}}},
	}
	build := func(su setup) *index.Hnsw {
		idx := newIndex()
		for _, x := range su.ids {
			ins(idx, x[0], x[1])()
		}
		return idx
	}
	writers := []pairOp{
		{"ins(4)", 4, 4, "ins", []string{"insert.first.stored:4", "insert.stored:4", "insert.epLoaded:4", "insert.linked:4"}},
		{"rem(1)", 1, 0, "rem", []string{"remove.unstored:1", "remove.handover:1", "remove.handedOver:1"}},
		{"rem(2)", 2, 0, "rem", []string{"remove.unstored:2", "remove.handover:2", "remove.handedOver:2"}},
		{"search", 0, 0, "search", []string{"search.epLoaded:-1"}},
	}
	others := []pairOp{
		{"search", 0, 0, "search", nil},
		{"ins(5)", 5, 7, "ins", nil},
		{"ins(4)", 4, 4, "ins", nil},
		{"rem(1)", 1, 0, "rem", nil},
		{"rem(2)", 2, 0, "rem", nil},
		{"rem(3)", 3, 0, "rem", nil},
		{"get(1)", 1, 0, "get", nil},
		{"len", 0, 0, "len", nil},
	}
	for _, su := range setups {
		for _, w := range writers {
			for _, pt := range w.points {
				for _, o := range others {
					// the two sequential orders, on fresh indexes
					type seqT struct {
						rw, ro string
						fnd    map[int]bool
					}
					var seqs []seqT
					for order := 0; order < 2; order++ {
						idx := build(su)
						var rw, ro string
						if order == 0 {
							rw = w.run(idx)
							ro = o.run(idx)
						} else {
							ro = o.run(idx)
							rw = w.run(idx)
						}
						st, _ := hx.Project(idx, u, keys)
						seqs = append(seqs, seqT{rw, ro, found(idx, st.Live)})
					}
					// the concurrent run
					idx := build(su)
					p.mu.Lock()
					p.parkAt = nil
					p.mu.Unlock()
					for len(p.at) > 0 {
						<-p.at
					}
					c := p.arm(pt)
					rwc := make(chan string, 1)
					go func() { rwc <- w.run(idx) }()
					var rw, ro string
					parked, wdone := false, false
					select {
					case got := <-p.at:
						parked = got == pt
					case rw = <-rwc:
						wdone = true // the writer never passes this point in this setup
					case <-time.After(2 * time.Second):
					}
					roc := make(chan string, 1)
					go func() { roc <- o.run(idx) }()
					hung := 0
					blocked := false
					select {
					case ro = <-roc:
					case <-time.After(300 * time.Millisecond):
						blocked = true // O waits for something the parked writer holds: allowed, as long as both finish
					}
					close(c)
					p.mu.Lock()
					p.parkAt = nil
					p.mu.Unlock()
					if !wdone {
						select {
						case rw = <-rwc:
						case <-time.After(5 * time.Second):
							rw, hung = "hang", 1
						}
					}
					if blocked {
						select {
						case ro = <-roc:
						case <-time.After(5 * time.Second):
							ro, hung = "hang", 1
						}
					}
					name := fmt.Sprintf("%s: %s parked at %s || %s", su.name, w.name, pt, o.name)
					if !parked {
						// the writer never reaches this point in this setup (e.g. remove.handover of a vertex that is
						// not the entry point): the operations simply ran one after the other
						name += " (point not reached)"
					}
					if hung == 1 {
						// locks may be held for good: nothing more can be asked of this index
						enc.Encode(event{"ev": "pair", "name": name, "panic": "", "hung": 1, "resw": rw, "reso": ro, "lost": []int{},
							"seq": [][]string{}, "st": hx.State{Live: []hx.LiveItem{}, Ep: []int{}}, "sr": []hx.SearchRes{}, "skip": 1})
						continue
					}
					q := quiesce(idx, name)
					q["ev"] = "pair"
					q["hung"], q["resw"], q["reso"], q["skip"] = 0, rw, ro, 0
					pan := ""
					for _, r := range []string{rw, ro} {
						if len(r) > 5 && r[:5] == "panic" {
							pan = r
						}
					}
					q["panic"] = pan
					st, _ := hx.Project(idx, u, keys)
					fc := map[int]bool{}
					if pan == "" {
						fc = found(idx, st.Live)
					}
					lost := []int{}
					for _, it := range st.Live {
						if seqs[0].fnd[it.Id] && seqs[1].fnd[it.Id] && !fc[it.Id] {
							lost = append(lost, it.Id)
						}
					}
					q["lost"] = lost
					sq := [][]string{}
					for _, x := range seqs {
						rwx, rox := x.rw, x.ro
						if o.kind == "search" || o.kind == "get" || o.kind == "len" {
							rox = ro // reads have no outcome to linearize
						}
						sq = append(sq, []string{rwx, rox})
					}
					q["seq"] = sq
					enc.Encode(q)
				}
			}
		}
	}
}

func init() { _ = sort.Ints }

func unusedForcedTail() {
}

// ---------------------------------------------------------------- stress

type opRec struct {
	S, E int64
	Kind string
	Id   int
	Pt   int
	Res  string
}

func stress(out string, seed int64, writers, readers, nops int) {
	f, _ := os.Create(out)
	defer f.Close()
	bw := bufio.NewWriterSize(f, 1<<20)
	defer bw.Flush()
	enc := json.NewEncoder(bw)
	idx := newIndex()
	var clock int64
	tick := func() int64 { return atomic.AddInt64(&clock, 1) }
	nids := 6
	var mu sync.Mutex
	ops := map[int][]opRec{}
	type srec struct {
		S, E int64
		Q, K int
		Res  [][]interface{}
		Err  string
	}
	var searches []srec
	var wg sync.WaitGroup
	stop := int32(0)
	for w := 0; w < writers; w++ {
		wg.Add(1)
		go func(w int) {
			defer wg.Done()
			rng := rand.New(rand.NewSource(seed*100 + int64(w)))
			for i := 0; i < nops; i++ {
				id := 1 + rng.Intn(nids)
				pt := 1 + rng.Intn(len(u.Vecs))
				r := opRec{Id: id, Pt: pt}
				r.S = tick()
				if rng.Intn(5) < 3 {
					r.Kind = "insert"
					r.Res = safely(func() error {
						return idx.Insert(hx.Uid(id), append(amath.Vector{}, u.Vecs[pt-1]...), nil, rng.Intn(2))
					})
				} else {
					r.Kind = "remove"
					r.Res = safely(rem(idx, id))
				}
				r.E = tick()
				mu.Lock()
				ops[id] = append(ops[id], r)
				mu.Unlock()
			}
		}(w)
	}
	var rg sync.WaitGroup
	for r := 0; r < readers; r++ {
		rg.Add(1)
		go func(r int) {
			defer rg.Done()
			rng := rand.New(rand.NewSource(seed*1000 + int64(r)))
			for atomic.LoadInt32(&stop) == 0 {
				q := 1 + rng.Intn(len(u.Vecs))
				k := 1 + rng.Intn(4)
				s := srec{Q: q, K: k}
				s.S = tick()
				func() {
					defer func() {
						if x := recover(); x != nil {
							s.Err = fmt.Sprint("panic: ", x)
						}
					}()
					res, err := idx.Search(context.Background(), u.Vecs[q-1], uint(k))
					if err != nil {
						s.Err = err.Error()
					}
					for _, it := range res {
						s.Res = append(s.Res, []interface{}{hx.IdOf(it.Id), u.RankOf(it.Score)})
					}
				}()
				s.E = tick()
				mu.Lock()
				if len(searches) < 4000 {
					searches = append(searches, s)
				}
				mu.Unlock()
				_ = idx.Len()
				idx.Get(hx.Uid(1 + rng.Intn(nids)))
			}
		}(r)
	}
	wg.Wait()
	atomic.StoreInt32(&stop, 1)
	rg.Wait()
	// per id: the call history (what a linearization must explain) and the final presence
	st, _ := hx.Project(idx, u, keys)
	present := map[int]int{}
	for _, li := range st.Live {
		present[li.Id] = li.Pt
	}
	for id := 1; id <= nids; id++ {
		h := ops[id]
		sort.Slice(h, func(i, j int) bool { return h[i].S < h[j].S })
		hist := [][]interface{}{}
		for _, o := range h {
			hist = append(hist, []interface{}{o.S, o.E, o.Kind, o.Res, o.Pt})
		}
		enc.Encode(event{"ev": "idhistory", "id": id, "ops": hist, "present": present[id], "writers": writers})
	}
	// each search with the call intervals of the ids it returned
	for _, s := range searches {
		rel := map[string][][]interface{}{}
		res := s.Res
		if res == nil {
			res = [][]interface{}{}
		}
		for _, it := range res {
			id := it[0].(int)
			hist := [][]interface{}{}
			for _, o := range ops[id] {
				hist = append(hist, []interface{}{o.S, o.E, o.Kind, o.Res, o.Pt})
			}
			rel[strconv.Itoa(id)] = hist
		}
		enc.Encode(event{"ev": "search", "s": s.S, "e": s.E, "q": s.Q, "k": s.K, "res": res, "err": s.Err, "ops": rel, "writers": writers})
	}
	q := quiesce(idx, fmt.Sprintf("stress w=%d r=%d", writers, readers))
	q["writers"], q["res"], q["forced"], q["panic"] = writers, []string{}, 0, ""
	for _, h := range ops {
		for _, o := range h {
			if len(o.Res) > 5 && o.Res[:5] == "panic" {
				q["panic"] = o.Res
			}
		}
	}
	enc.Encode(q)
}

func main() {
	switch os.Args[1] {
	case "forced":
		forced(os.Args[2])
	case "stress":
		seed, _ := strconv.ParseInt(os.Args[3], 10, 64)
		w, _ := strconv.Atoi(os.Args[4])
		r, _ := strconv.Atoi(os.Args[5])
		n, _ := strconv.Atoi(os.Args[6])
		stress(os.Args[2], seed, w, r, n)
	}
}
