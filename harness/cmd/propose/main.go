// Command propose drives the real write path (Dataset.Insert/Update/Remove and the
// batch forms -> partition.proposeAndWaitForCommit -> a real single-replica raft
// group on Badger) for property C11, with a gate between raft.Propose and the
// caller's select, and scripted remote owners for the proxy path.
//
//	propose run <trace.ndjson> <seed> <rounds>
package main

import (
	"bufio"
	"context"
	"encoding/json"
	"errors"
	"fmt"
	"math/rand"
	"os"
	"sort"
	"strconv"
	"strings"
	"sync"
	"time"

	badger "github.com/dgraph-io/badger/v2"
	"github.com/marekgalovic/anndb/cluster"
	"github.com/marekgalovic/anndb/index"
	amath "github.com/marekgalovic/anndb/math"
	pb "github.com/marekgalovic/anndb/protobuf"
	"github.com/marekgalovic/anndb/storage"
	"github.com/marekgalovic/anndb/storage/raft"
	"github.com/marekgalovic/anndb/utils"
	uuid "github.com/satori/go.uuid"
	_ "verifharness/internal/hx"
	"verifharness/internal/sim"
)

type event struct {
	Ev      string            `json:"ev"`
	Hid     int               `json:"hid"`
	Kind    string            `json:"kind"`
	Path    string            `json:"path"`  // local | remote-ok | remote-err | noaddr | down | baddim
	Order   string            `json:"order"` // caller-first | apply-first
	Id      int               `json:"id"`
	Ret     string            `json:"ret"` // ok | exists | notfound | dim | err | timeout
	Err     string            `json:"err"`
	Before  int               `json:"before"`  // item present in the owner before the call (local paths)
	After   int               `json:"after"`   // ... after the call
	Remote  int               `json:"remote"`  // number of writes the scripted owner recorded for this id
	Applied int               `json:"applied"` // entries applied by the local partition during the call
	Ms      int               `json:"ms"`
	Rets    []string          `json:"rets"`   // conc: per caller
	Same    int               `json:"same"`   // conc: all callers use the same id
	Expect  map[string]string `json:"expect"` // batch: id -> class
	Got     map[string]string `json:"got"`
}

const (
	pLocal  = 0 // partition 0: on this node, real raft
	pRemote = 1 // partition 1: scripted node 2
	pNoAddr = 2 // partition 2: node 7, which has no address
)

type world struct {
	conn *cluster.Conn
	ds   *storage.Dataset
	node *sim.Node
	ids  map[int][]uuid.UUID // partition -> pool of ids routed to it
	next map[int]int
}

func classify(err error) string {
	if err == nil {
		return "ok"
	}
	s := err.Error()
	switch {
	case strings.Contains(s, index.ItemAlreadyExistsError.Error()):
		return "exists"
	case strings.Contains(s, index.ItemNotFoundError.Error()):
		return "notfound"
	case strings.Contains(s, storage.DimensionMissmatchErr.Error()):
		return "dim"
	case strings.HasPrefix(s, "HANG"):
		return "hang"
	case strings.Contains(s, "deadline exceeded"):
		return "timeout"
	}
	return "err"
}

func newWorld() *world {
	db, err := badger.Open(badger.DefaultOptions("").WithInMemory(true).WithLogger(nil))
	if err != nil {
		panic(err)
	}
	conn, _ := cluster.NewConn(1, "127.0.0.1:1", "")
	tr := raft.NewTransport(1, "127.0.0.1:1", conn)
	n := sim.NewNode(2)
	conn.AddNode(2, n.Addr)
	meta := pb.Dataset{Id: uuid.NewV4().Bytes(), Dimension: 3, Space: pb.Space_Euclidean, ReplicationFactor: 1, PartitionCount: 3}
	for i, nid := range []uint64{1, 2, 7} {
		var p uuid.UUID
		p[0], p[15] = 0x20, byte(i+1)
		meta.Partitions = append(meta.Partitions, &pb.Partition{Id: p.Bytes(), NodeIds: []uint64{nid}})
	}
	ds, err := storage.NewVerifDataset(meta, db, tr, conn)
	if err != nil {
		panic(err)
	}
	if err := ds.VerifLoadRaft(pLocal, []uint64{1}); err != nil {
		panic(err)
	}
	w := &world{conn: conn, ds: ds, node: n, ids: map[int][]uuid.UUID{}, next: map[int]int{}}
	for i := 1; len(w.ids[0]) < 4000 || len(w.ids[1]) < 4000 || len(w.ids[2]) < 4000; i++ {
		var u uuid.UUID
		u[0] = 0x40
		u[1], u[2], u[3] = byte(i>>16), byte(i>>8), byte(i)
		u[12], u[13] = byte(i>>8), byte(i)
		u[15] = byte(i % 2) // scripted batch rule: odd last byte fails on the remote owner
		p := int(utils.UuidMod(u, 3))
		w.ids[p] = append(w.ids[p], u)
	}
	// wait for the single-replica group to elect itself
	deadline := time.Now().Add(20 * time.Second)
	for {
		ctx, cancel := context.WithTimeout(context.Background(), 300*time.Millisecond)
		err := ds.Insert(ctx, w.fresh(pLocal), vec(1), nil)
		cancel()
		if err == nil {
			break
		}
		if time.Now().After(deadline) {
			panic("local raft group never became writable: " + err.Error())
		}
	}
	return w
}

func vec(x float32) amath.Vector { return amath.Vector{x, 0, 0} }

func (w *world) fresh(p int) uuid.UUID {
	u := w.ids[p][w.next[p]]
	w.next[p]++
	return u
}

func (w *world) present(id uuid.UUID) int {
	if _, err := w.ds.VerifPartitionIndex(pLocal).Get(id); err == nil {
		return 1
	}
	return 0
}

// gates: every caller that reaches "propose.done" takes a ticket and blocks on it
type gates struct {
	mu      sync.Mutex
	tickets []chan struct{}
	arrived chan int
	on      bool
}

func (g *gates) install() {
	g.arrived = make(chan int, 64)
	storage.VerifGate = func(p string, i int) {
		if p != "propose.done" {
			return
		}
		g.mu.Lock()
		if !g.on {
			g.mu.Unlock()
			return
		}
		c := make(chan struct{})
		g.tickets = append(g.tickets, c)
		n := len(g.tickets) - 1
		g.mu.Unlock()
		g.arrived <- n
		<-c
	}
}

func (g *gates) arm(on bool) {
	g.mu.Lock()
	g.on = on
	g.tickets = nil
	g.mu.Unlock()
}

func (g *gates) release(n int) {
	g.mu.Lock()
	c := g.tickets[n]
	g.mu.Unlock()
	close(c)
}

func (w *world) call(kind string, id uuid.UUID, dim int, timeout time.Duration) error {
	ctx, cancel := context.WithTimeout(context.Background(), timeout)
	defer cancel()
	v := make(amath.Vector, dim)
	v[0] = 2
	switch kind {
	case "insert":
		return w.ds.Insert(ctx, id, v, index.Metadata{"k": "v"})
	case "update":
		return w.ds.Update(ctx, id, v, index.Metadata{"k": "w"})
	}
	return w.ds.Remove(ctx, id)
}

func (w *world) callNoDeadline(kind string, id uuid.UUID, dim int) error {
	ctx, cancel := context.WithCancel(context.Background())
	defer cancel()
	v := make(amath.Vector, dim)
	v[0] = 2
	switch kind {
	case "insert":
		return w.ds.Insert(ctx, id, v, index.Metadata{"k": "v"})
	case "update":
		return w.ds.Update(ctx, id, v, index.Metadata{"k": "w"})
	}
	return w.ds.Remove(ctx, id)
}

type encoder struct{ e *json.Encoder }

// Encode fills the optional fields: TLC's JSON reader does not accept null
func (x encoder) Encode(ev event) {
	if ev.Rets == nil {
		ev.Rets = []string{}
	}
	if ev.Expect == nil {
		ev.Expect = map[string]string{}
	}
	if ev.Got == nil {
		ev.Got = map[string]string{}
	}
	x.e.Encode(ev)
}

func main() {
	out := os.Args[2]
	seed, _ := strconv.ParseInt(os.Args[3], 10, 64)
	rounds, _ := strconv.Atoi(os.Args[4])
	rng := rand.New(rand.NewSource(seed))
	w := newWorld()
	g := &gates{}
	g.install()
	f, _ := os.Create(out)
	defer f.Close()
	bw := bufio.NewWriter(f)
	defer bw.Flush()
	jenc := json.NewEncoder(bw)
	enc := encoder{jenc}
	hid := 0
	idnum := func(u uuid.UUID) int { return int(u[1])<<16 | int(u[2])<<8 | int(u[3]) }

	single := func(kind, path, order string, id uuid.UUID) {
		hid++
		ev := event{Ev: "write", Hid: hid, Kind: kind, Path: path, Order: order, Id: idnum(id)}
		dim := 3
		if path == "baddim" {
			dim = 2
		}
		switch path {
		case "remote-ok":
			w.node.Reset("ok", false)
		case "remote-err":
			w.node.Reset("err", false)
		default:
			w.node.Reset("ok", false)
		}
		ev.Before = w.present(id)
		len0 := w.ds.VerifPartitionIndex(pLocal).Len()
		g.arm(order == "apply-first" && path == "local")
		t0 := time.Now()
		done := make(chan error, 1)
		if path == "down" {
			// the owner's address is known, nothing listens there (the process is gone); the caller has set no time
			// limit (handler contexts and the CLI do not): the call still has to come back, with an error
			w.conn.AddNode(2, "127.0.0.1:1")
			go func() { done <- w.callNoDeadline(kind, id, dim) }()
			select {
			case err := <-done:
				done <- err
			case <-time.After(4 * time.Second):
				done <- errors.New("HANG: no answer within 4 s")
			}
			w.conn.AddNode(2, w.node.Addr)
		} else {
			go func() { done <- w.call(kind, id, dim, 8*time.Second) }()
		}
		if order == "apply-first" && path == "local" {
			select {
			case n := <-g.arrived:
				// the caller sits between Propose and its select: let the apply loop win
				dl := time.Now().Add(120 * time.Millisecond)
				for time.Now().Before(dl) {
					changed := w.present(id) != ev.Before || w.ds.VerifPartitionIndex(pLocal).Len() != len0
					if changed {
						break
					}
					time.Sleep(2 * time.Millisecond)
				}
				time.Sleep(20 * time.Millisecond) // also covers entries that change nothing (exists / notfound)
				g.release(n)
			case err := <-done:
				done <- err
			}
		}
		err := <-done
		g.arm(false)
		ev.Ms = int(time.Since(t0) / time.Millisecond)
		ev.Ret = classify(err)
		if err != nil {
			ev.Err = err.Error()
		}
		ev.After = w.present(id)
		_, writes := w.node.Snapshot()
		for _, x := range writes {
			if strings.HasSuffix(x, id.String()) {
				ev.Remote++
			}
		}
		enc.Encode(ev)
	}

	// a caller that gives up although its proposal is applied: it sits between Propose and its select, the apply
	// loop delivers the outcome, then the caller's context is cancelled and it is released - its select finds both
	// the outcome and the cancellation ready.  Whatever it returns, the NEXT caller must get its own outcome
	abandon := func(id uuid.UUID) {
		hid++
		ev := event{Ev: "write", Hid: hid, Kind: "insert", Path: "local", Order: "abandoned", Id: idnum(id)}
		w.node.Reset("ok", false)
		ev.Before = w.present(id)
		g.arm(true)
		ctx, cancel := context.WithCancel(context.Background())
		done := make(chan error, 1)
		t0 := time.Now()
		go func() {
			v := make(amath.Vector, 3)
			v[0] = 2
			done <- w.ds.Insert(ctx, id, v, index.Metadata{"k": "v"})
		}()
		select {
		case n := <-g.arrived:
			dl := time.Now().Add(200 * time.Millisecond)
			for time.Now().Before(dl) && w.present(id) == ev.Before {
				time.Sleep(2 * time.Millisecond)
			}
			time.Sleep(20 * time.Millisecond)
			cancel()
			g.release(n)
		case err := <-done:
			done <- err
		}
		err := <-done
		cancel()
		g.arm(false)
		ev.Ms = int(time.Since(t0) / time.Millisecond)
		ev.Ret = classify(err)
		if err != nil {
			ev.Err = err.Error()
		}
		ev.After = w.present(id)
		enc.Encode(ev)
	}

	for r := 0; r < rounds; r++ {
		for i := 0; i < 4; i++ {
			a := w.fresh(pLocal)
			abandon(a)
			single("insert", "local", "caller-first", a) // exists (the abandoned proposal was applied), never the other caller's outcome
			single("remove", "local", "caller-first", a) // ok
			b := w.fresh(pLocal)
			abandon(b)
			single("update", "local", "caller-first", w.fresh(pLocal)) // notfound
		}
		for _, order := range []string{"caller-first", "apply-first"} {
			a := w.fresh(pLocal)
			single("insert", "local", order, a) // ok
			single("insert", "local", order, a) // exists
			single("update", "local", order, a) // ok
			single("remove", "local", order, a) // ok
			single("remove", "local", order, a) // notfound
			single("update", "local", order, a) // notfound
		}
		for _, kind := range []string{"insert", "update", "remove"} {
			single(kind, "remote-ok", "caller-first", w.fresh(pRemote))
			single(kind, "remote-err", "caller-first", w.fresh(pRemote))
			single(kind, "noaddr", "caller-first", w.fresh(pNoAddr))
			single(kind, "down", "caller-first", w.fresh(pRemote))
		}
		single("insert", "baddim", "caller-first", w.fresh(pLocal))
		single("update", "baddim", "caller-first", w.fresh(pRemote))

		// concurrent callers, gated, released in a random order after the apply loop has run
		for _, same := range []bool{true, false} {
			hid++
			n := 2 + rng.Intn(2)
			ev := event{Ev: "conc", Hid: hid, Kind: "insert", Rets: make([]string, n)}
			if same {
				ev.Same = 1
			}
			ids := make([]uuid.UUID, n)
			shared := w.fresh(pLocal)
			for i := range ids {
				ids[i] = shared
				if !same {
					ids[i] = w.fresh(pLocal)
				}
			}
			gated := rng.Intn(3) != 0
			g.arm(gated)
			var wg sync.WaitGroup
			for i := 0; i < n; i++ {
				wg.Add(1)
				go func(i int) {
					defer wg.Done()
					ev.Rets[i] = classify(w.call("insert", ids[i], 3, 8*time.Second))
				}(i)
			}
			if gated {
				var tickets []int
				for len(tickets) < n {
					select {
					case t := <-g.arrived:
						tickets = append(tickets, t)
					case <-time.After(2 * time.Second):
						tickets = append(tickets, -1)
					}
				}
				time.Sleep(30 * time.Millisecond)
				rng.Shuffle(len(tickets), func(a, b int) { tickets[a], tickets[b] = tickets[b], tickets[a] })
				for _, t := range tickets {
					if t >= 0 {
						g.release(t)
					}
				}
			}
			wg.Wait()
			g.arm(false)
			sort.Strings(ev.Rets)
			enc.Encode(ev)
		}

		// a batch mixing partitions and item kinds
		for _, kind := range []string{"binsert", "bupdate", "bremove"} {
			hid++
			ev := event{Ev: "batch", Hid: hid, Kind: kind, Expect: map[string]string{}, Got: map[string]string{}}
			w.node.Reset("ok", false)
			var items []*pb.BatchItem
			add := func(id uuid.UUID, dim int, expect string) {
				v := make([]float32, dim)
				items = append(items, &pb.BatchItem{Id: id.Bytes(), Value: v, Metadata: map[string]string{"k": "b"}})
				if expect != "ok" {
					ev.Expect[fmt.Sprint(idnum(id))] = expect
				}
			}
			present := w.fresh(pLocal)
			w.call("insert", present, 3, 8*time.Second)
			absent := w.fresh(pLocal)
			switch kind {
			case "binsert":
				add(present, 3, "exists")
				add(absent, 3, "ok")
			default:
				add(present, 3, "ok")
				add(absent, 3, "notfound")
			}
			if kind != "bremove" {
				add(w.fresh(pLocal), 5, "dim")
				add(w.fresh(pRemote), 1, "dim")
			}
			for k := 0; k < 3; k++ {
				id := w.fresh(pRemote)
				if id[15]%2 == 1 {
					add(id, 3, "err")
				} else {
					add(id, 3, "ok")
				}
			}
			add(w.fresh(pNoAddr), 3, "err")
			rng.Shuffle(len(items), func(a, b int) { items[a], items[b] = items[b], items[a] })
			ctx, cancel := context.WithTimeout(context.Background(), 8*time.Second)
			var errs map[uuid.UUID]error
			var err error
			switch kind {
			case "binsert":
				errs, err = w.ds.BatchInsert(ctx, items)
			case "bupdate":
				errs, err = w.ds.BatchUpdate(ctx, items)
			default:
				errs, err = w.ds.BatchRemove(ctx, items)
			}
			cancel()
			if err != nil {
				ev.Ret, ev.Err = "err", err.Error()
			} else {
				ev.Ret = "ok"
				for id, e := range errs {
					ev.Got[fmt.Sprint(idnum(id))] = classify(e)
				}
			}
			enc.Encode(ev)
		}
	}
	// A write is on its way - it has passed every check and is about to propose - while the partition's raft group is
	// unloaded (the dataset is deleted, or the replica moves away).  Either the unload waits for the write, or the
	// write fails; the handler goroutine must not die (a panic there takes the server process down).
	for round := 0; round < 3; round++ {
		for _, kind := range []string{"insert", "remove", "update"} {
			hid++
			id := w.fresh(pLocal)
			ev := event{Ev: "write", Hid: hid, Kind: kind, Path: "local-unload", Order: "caller-first", Id: idnum(id), Before: w.present(id)}
			parked := make(chan struct{}, 1)
			release := make(chan struct{})
			storage.VerifGate = func(p string, i int) {
				if p == "propose.before" {
					select {
					case parked <- struct{}{}:
						<-release
					default:
					}
				}
			}
			done := make(chan string, 1)
			go func() {
				defer func() {
					if r := recover(); r != nil {
						done <- "panic"
						ev.Err = fmt.Sprint(r)
					}
				}()
				done <- classify(w.call(kind, id, 3, 3*time.Second))
			}()
			gotThere := false
			select {
			case <-parked:
				gotThere = true
			case <-time.After(2 * time.Second):
			}
			unl := make(chan error, 1)
			go func() { unl <- w.ds.VerifUnloadRaft(pLocal) }()
			unloaded := false
			select {
			case <-unl:
				unloaded = true
				ev.Order = "unload-first"
			case <-time.After(150 * time.Millisecond):
			}
			close(release)
			ev.Ret = <-done
			if !unloaded {
				select {
				case <-unl:
				case <-time.After(8 * time.Second):
					ev.Ret = "hang"
				}
			}
			if !gotThere {
				ev.Order = "not-parked"
			}
			ev.After = w.present(id)
			g.install()
			enc.Encode(ev)
			// the replica comes back (a fresh group: unloading deletes its log)
			if err := w.ds.VerifLoadRaft(pLocal, []uint64{1}); err != nil {
				panic("reload failed: " + err.Error())
			}
			deadline := time.Now().Add(20 * time.Second)
			for {
				ctx, cancel := context.WithTimeout(context.Background(), 300*time.Millisecond)
				err := w.ds.Insert(ctx, w.fresh(pLocal), vec(1), nil)
				cancel()
				if err == nil {
					break
				}
				if time.Now().After(deadline) {
					panic("local raft group did not come back after the unload: " + err.Error())
				}
			}
		}
	}
	// The group loses its quorum (an unreachable voter is added): proposals are accepted by the leader but
	// cannot be committed.  A write must then fail (the 5 s proposal time-out), never be acknowledged.
	if g := w.ds.VerifRaft(pLocal); g != nil {
		g.ProposeJoin(2, "")
		time.Sleep(400 * time.Millisecond)
		for _, kind := range []string{"insert", "remove"} {
			hid++
			id := w.fresh(pLocal)
			ev := event{Ev: "write", Hid: hid, Kind: kind, Path: "local-noquorum", Order: "caller-first", Id: idnum(id), Before: w.present(id)}
			t0 := time.Now()
			err := w.call(kind, id, 3, 9*time.Second)
			ev.Ms = int(time.Since(t0) / time.Millisecond)
			ev.Ret = classify(err)
			if err != nil {
				ev.Err = err.Error()
			}
			ev.After = w.present(id)
			enc.Encode(ev)
		}
	}
}
