// Command api fires request classes at a REAL single-node anndb server process
// (cmd/anndbnode) over loopback gRPC (property C12): for every class - a valid dataset
// exists - send the request, check that the process is still alive and answers, then
// kill -9 the server, restart it on the same data directory (replaying whatever the
// request left in the logs) and probe it again.
//
//	api <anndbnode> <workdir> <trace.ndjson> <classes.json>     classes.json: ["insert.nan", ...] (subset to run)
//	api list                                                     prints every class name
package main

import (
	"bufio"
	"context"
	"encoding/json"
	"fmt"
	"io"
	"math"
	"os"
	"os/exec"
	"strings"
	"sync"
	"syscall"
	"time"
	"verifharness/internal/hx"

	pb "github.com/marekgalovic/anndb/protobuf"
	"google.golang.org/grpc"
)

type env struct {
	conn    *grpc.ClientConn
	ds      []byte   // id of the valid dataset (dim 3, 2 partitions, replication 1)
	parts   [][]byte // its partition ids
	present []byte   // id of an item that exists (with metadata)
}

type class struct {
	name  string
	valid bool // a well-formed request that must succeed
	fn    func(e *env, ctx context.Context) error
}

func id16(b byte) []byte { u := make([]byte, 16); u[0] = 0x60; u[15] = b; return u }
func vec(n int, x float32) []float32 {
	v := make([]float32, n)
	for i := range v {
		v[i] = x + float32(i)
	}
	return v
}
func rep(n int) string { return strings.Repeat("k", n) }

// atOnce runs n copies of a request at the same time; the class's outcome is the first copy's
func atOnce(n int, f func() error) error {
	errs := make([]error, n)
	var wg sync.WaitGroup
	start := make(chan struct{})
	for i := 0; i < n; i++ {
		wg.Add(1)
		go func(i int) {
			defer wg.Done()
			<-start
			errs[i] = f()
		}(i)
	}
	close(start)
	wg.Wait()
	return errs[0]
}

func drainSearch(st pb.Search_SearchClient, err error) error {
	if err != nil {
		return err
	}
	for {
		_, err := st.Recv()
		if err == io.EOF {
			return nil
		}
		if err != nil {
			return err
		}
	}
}
func drainParts(st pb.Search_SearchPartitionsClient, err error) error {
	if err != nil {
		return err
	}
	for {
		_, err := st.Recv()
		if err == io.EOF {
			return nil
		}
		if err != nil {
			return err
		}
	}
}

// createAndUse: a creation request with an odd field; if the server accepts it the dataset is also used
// (two inserts, a search), since a half-valid dataset only hurts when something touches it
func createAndUse(e *env, ctx context.Context, dsm pb.DatasetManagerClient, dm pb.DataManagerClient, sr pb.SearchClient, space pb.Space) error {
	d, err := dsm.Create(ctx, &pb.Dataset{Dimension: 3, Space: space, PartitionCount: 1, ReplicationFactor: 1})
	if err != nil {
		return err
	}
	for try := 0; try < 20; try++ {
		c2, cancel := context.WithTimeout(context.Background(), 2*time.Second)
		_, err = dm.Insert(c2, &pb.InsertRequest{DatasetId: d.GetId(), Id: id16(70), Value: vec(3, 1)})
		cancel()
		if err == nil || strings.Contains(err.Error(), "exists") {
			break
		}
		time.Sleep(200 * time.Millisecond)
	}
	c2, cancel := context.WithTimeout(context.Background(), 2*time.Second)
	defer cancel()
	dm.Insert(c2, &pb.InsertRequest{DatasetId: d.GetId(), Id: id16(71), Value: vec(3, 2)})
	drainSearch(sr.Search(c2, &pb.SearchRequest{DatasetId: d.GetId(), Query: vec(3, 1), K: 2}))
	return nil
}

func classes() []class {
	dm := func(e *env) pb.DataManagerClient { return pb.NewDataManagerClient(e.conn) }
	dsm := func(e *env) pb.DatasetManagerClient { return pb.NewDatasetManagerClient(e.conn) }
	sr := func(e *env) pb.SearchClient { return pb.NewSearchClient(e.conn) }
	ins := func(id []byte, v []float32, m map[string]string) func(e *env, ctx context.Context) error {
		return func(e *env, ctx context.Context) error {
			_, err := dm(e).Insert(ctx, &pb.InsertRequest{DatasetId: e.ds, Id: id, Value: v, Metadata: m})
			return err
		}
	}
	many := map[string]string{}
	for i := 0; i < 70000; i++ {
		many[fmt.Sprintf("k%05d", i)] = "v"
	}
	batch := func(n int, mut func(i int, it *pb.BatchItem)) []*pb.BatchItem {
		out := make([]*pb.BatchItem, n)
		for i := range out {
			u := make([]byte, 16)
			u[0], u[14], u[15] = 0x61, byte(i>>8), byte(i)
			out[i] = &pb.BatchItem{Id: u, Value: vec(3, float32(i))}
			if mut != nil {
				mut(i, out[i])
			}
		}
		return out
	}
	return []class{
		// ---------------- DatasetManager
		{"create.ok", true, func(e *env, ctx context.Context) error {
			_, err := dsm(e).Create(ctx, &pb.Dataset{Dimension: 4, Space: pb.Space_Cosine, PartitionCount: 1, ReplicationFactor: 1})
			return err
		}},
		// ... and the id of a dataset to be created (chosen by the server): malformed, or well-formed
		{"create.withid.short", false, func(e *env, ctx context.Context) error {
			_, err := dsm(e).Create(ctx, &pb.Dataset{Id: []byte{1, 2, 3, 4, 5}, Dimension: 3, Space: pb.Space_Euclidean, PartitionCount: 1, ReplicationFactor: 1})
			return err
		}},
		{"create.withid.long", false, func(e *env, ctx context.Context) error {
			_, err := dsm(e).Create(ctx, &pb.Dataset{Id: make([]byte, 40), Dimension: 3, Space: pb.Space_Euclidean, PartitionCount: 1, ReplicationFactor: 1})
			return err
		}},
		{"create.withid.existing", false, func(e *env, ctx context.Context) error {
			_, err := dsm(e).Create(ctx, &pb.Dataset{Id: e.ds, Dimension: 3, Space: pb.Space_Euclidean, PartitionCount: 1, ReplicationFactor: 1})
			return err
		}},
		{"create.zerodim", false, func(e *env, ctx context.Context) error {
			_, err := dsm(e).Create(ctx, &pb.Dataset{Dimension: 0, PartitionCount: 1, ReplicationFactor: 1})
			return err
		}},
		{"create.zeropartitions", false, func(e *env, ctx context.Context) error {
			_, err := dsm(e).Create(ctx, &pb.Dataset{Dimension: 3, PartitionCount: 0, ReplicationFactor: 1})
			return err
		}},
		{"create.zeroreplication", false, func(e *env, ctx context.Context) error {
			_, err := dsm(e).Create(ctx, &pb.Dataset{Dimension: 3, PartitionCount: 2, ReplicationFactor: 0})
			return err
		}},
		{"create.badspace", false, func(e *env, ctx context.Context) error {
			_, err := dsm(e).Create(ctx, &pb.Dataset{Dimension: 3, Space: pb.Space(77), PartitionCount: 1, ReplicationFactor: 1})
			return err
		}},
		{"create.negspace", false, func(e *env, ctx context.Context) error {
			return createAndUse(e, ctx, dsm(e), dm(e), sr(e), pb.Space(-1))
		}},
		{"create.minspace", false, func(e *env, ctx context.Context) error {
			return createAndUse(e, ctx, dsm(e), dm(e), sr(e), pb.Space(-128))
		}},
		{"create.space3", false, func(e *env, ctx context.Context) error {
			return createAndUse(e, ctx, dsm(e), dm(e), sr(e), pb.Space(3))
		}},
		{"create.hugespace", false, func(e *env, ctx context.Context) error {
			return createAndUse(e, ctx, dsm(e), dm(e), sr(e), pb.Space(1<<30))
		}},
		{"get.unknown", false, func(e *env, ctx context.Context) error {
			_, err := dsm(e).Get(ctx, &pb.GetDatasetRequest{DatasetId: id16(9)})
			return err
		}},
		{"get.shortid", false, func(e *env, ctx context.Context) error {
			_, err := dsm(e).Get(ctx, &pb.GetDatasetRequest{DatasetId: []byte{1, 2, 3}, WithSize: true})
			return err
		}},
		{"getsize.ok", true, func(e *env, ctx context.Context) error {
			_, err := dsm(e).GetDatasetSize(ctx, &pb.GetDatasetRequest{DatasetId: e.ds})
			return err
		}},
		// ---------------- the same request twice at once ("in any order" includes "at the same time"): the second
		// copy is accepted while the first is still in flight, both reach the log, and the second is applied to a
		// state the first has already changed
		{"delete.same.concurrent", false, func(e *env, ctx context.Context) error {
			d, err := dsm(e).Create(ctx, &pb.Dataset{Dimension: 3, Space: pb.Space_Euclidean, PartitionCount: 2, ReplicationFactor: 1})
			if err != nil {
				return err
			}
			return atOnce(3, func() error {
				c2, cancel := context.WithTimeout(context.Background(), 4*time.Second)
				defer cancel()
				_, err := dsm(e).Delete(c2, &pb.UUIDRequest{Id: d.GetId()})
				return err
			})
		}},
		{"insert.same.concurrent", false, func(e *env, ctx context.Context) error {
			return atOnce(3, func() error {
				c2, cancel := context.WithTimeout(context.Background(), 4*time.Second)
				defer cancel()
				_, err := dm(e).Insert(c2, &pb.InsertRequest{DatasetId: e.ds, Id: id16(77), Value: vec(3, 7), Metadata: map[string]string{"a": "b"}})
				return err
			})
		}},
		{"remove.same.concurrent", false, func(e *env, ctx context.Context) error {
			if _, err := dm(e).Insert(ctx, &pb.InsertRequest{DatasetId: e.ds, Id: id16(78), Value: vec(3, 8)}); err != nil {
				return err
			}
			return atOnce(3, func() error {
				c2, cancel := context.WithTimeout(context.Background(), 4*time.Second)
				defer cancel()
				_, err := dm(e).Remove(c2, &pb.RemoveRequest{DatasetId: e.ds, Id: id16(78)})
				return err
			})
		}},
		{"update+remove.concurrent", false, func(e *env, ctx context.Context) error {
			if _, err := dm(e).Insert(ctx, &pb.InsertRequest{DatasetId: e.ds, Id: id16(79), Value: vec(3, 9), Metadata: map[string]string{"a": "b"}}); err != nil {
				return err
			}
			k := 0
			var mu sync.Mutex
			return atOnce(4, func() error {
				mu.Lock()
				k++
				mine := k
				mu.Unlock()
				c2, cancel := context.WithTimeout(context.Background(), 4*time.Second)
				defer cancel()
				if mine%2 == 0 {
					_, err := dm(e).Remove(c2, &pb.RemoveRequest{DatasetId: e.ds, Id: id16(79)})
					return err
				}
				_, err := dm(e).Update(c2, &pb.UpdateRequest{DatasetId: e.ds, Id: id16(79), Value: vec(3, 4)})
				return err
			})
		}},
		// a cosine dataset holding vectors of one direction and different lengths: their distances are zero up to
		// rounding, on either side of zero - whatever consumes the distances (priority queues) has to cope
		{"cosine.parallel", true, func(e *env, ctx context.Context) error {
			d, err := dsm(e).Create(ctx, &pb.Dataset{Dimension: 3, Space: pb.Space_Cosine, PartitionCount: 1, ReplicationFactor: 1})
			if err != nil {
				return err
			}
			base := []float32{0.3, -1.7, 2.9}
			var last error
			for k, c := range []float32{1, 3, 0.3, 7, 1.7, 11, 0.9, 13, 2.3, 5, 0.7, 19, 1.1, 0.11} {
				v := []float32{base[0] * c, base[1] * c, base[2] * c}
				for try := 0; try < 20; try++ {
					c2, cancel := context.WithTimeout(context.Background(), 2*time.Second)
					_, last = dm(e).Insert(c2, &pb.InsertRequest{DatasetId: d.GetId(), Id: id16(byte(100 + k)), Value: v})
					cancel()
					if last == nil || strings.Contains(last.Error(), "exists") {
						last = nil
						break
					}
					time.Sleep(200 * time.Millisecond)
				}
				if last != nil {
					return last
				}
			}
			for _, c := range []float32{1.3, 17, 0.03} {
				c2, cancel := context.WithTimeout(context.Background(), 2*time.Second)
				err := drainSearch(sr(e).Search(c2, &pb.SearchRequest{DatasetId: d.GetId(), Query: []float32{base[0] * c, base[1] * c, base[2] * c}, K: 5}))
				cancel()
				if err != nil {
					return err
				}
			}
			return nil
		}},
		// non-finite numbers against a partition that holds a few hundred items (several levels, linked vertices on
		// the upper ones): whatever the comparisons with NaN do there, the apply loop and the search must come back
		{"nan.populated", true, func(e *env, ctx context.Context) error {
			d, err := dsm(e).Create(ctx, &pb.Dataset{Dimension: 3, Space: pb.Space_Euclidean, PartitionCount: 1, ReplicationFactor: 1})
			if err != nil {
				return err
			}
			var last error
			for k := 0; k < 300; k++ {
				id := id16(byte(k))
				id[14] = byte(k >> 8)
				for try := 0; try < 20; try++ {
					c2, cancel := context.WithTimeout(context.Background(), 2*time.Second)
					_, last = dm(e).Insert(c2, &pb.InsertRequest{DatasetId: d.GetId(), Id: id, Value: []float32{float32(k%17) + 0.25, float32(k%5) - 1.5, float32(k) * 0.01}})
					cancel()
					if last == nil || strings.Contains(last.Error(), "exists") {
						last = nil
						break
					}
					time.Sleep(200 * time.Millisecond)
				}
				if last != nil {
					return last
				}
			}
			nan := float32(math.NaN())
			c2, cancel := context.WithTimeout(context.Background(), 4*time.Second)
			id := id16(7)
			id[13] = 9
			_, e1 := dm(e).Insert(c2, &pb.InsertRequest{DatasetId: d.GetId(), Id: id, Value: []float32{nan, 1, 2}})
			cancel()
			c3, cancel3 := context.WithTimeout(context.Background(), 4*time.Second)
			e2 := drainSearch(sr(e).Search(c3, &pb.SearchRequest{DatasetId: d.GetId(), Query: []float32{1, nan, 2}, K: 5}))
			cancel3()
			// afterwards the dataset still serves ordinary requests
			c4, cancel4 := context.WithTimeout(context.Background(), 4*time.Second)
			defer cancel4()
			id2 := id16(8)
			id2[13] = 9
			if _, err := dm(e).Insert(c4, &pb.InsertRequest{DatasetId: d.GetId(), Id: id2, Value: []float32{1, 1, 1}}); err != nil {
				return fmt.Errorf("after the NaN requests (%v / %v) an ordinary insert fails: %v", e1, e2, err)
			}
			if err := drainSearch(sr(e).Search(c4, &pb.SearchRequest{DatasetId: d.GetId(), Query: []float32{1, 1, 1}, K: 5})); err != nil {
				return fmt.Errorf("after the NaN requests an ordinary search fails: %v", err)
			}
			return nil
		}},
		// writes that are on their way while their dataset is deleted (its partitions unload their raft groups)
		{"write.racing.delete", false, func(e *env, ctx context.Context) error {
			for round := 0; round < 6; round++ {
				d, err := dsm(e).Create(ctx, &pb.Dataset{Dimension: 3, Space: pb.Space_Euclidean, PartitionCount: 2, ReplicationFactor: 1})
				if err != nil {
					return err
				}
				stop := make(chan struct{})
				var wg sync.WaitGroup
				for w := 0; w < 8; w++ {
					wg.Add(1)
					go func(w int) {
						defer wg.Done()
						for k := 0; ; k++ {
							select {
							case <-stop:
								return
							default:
							}
							id := id16(byte(k))
							id[13], id[14] = byte(w), byte(k>>8)
							c2, cancel := context.WithTimeout(context.Background(), 500*time.Millisecond)
							switch k % 3 {
							case 0:
								dm(e).Insert(c2, &pb.InsertRequest{DatasetId: d.GetId(), Id: id, Value: vec(3, float32(k))})
							case 1:
								dm(e).Remove(c2, &pb.RemoveRequest{DatasetId: d.GetId(), Id: id})
							default:
								dm(e).BatchInsert(c2, &pb.BatchRequest{DatasetId: d.GetId(), Items: []*pb.BatchItem{{Id: id, Value: vec(3, 1)}}})
							}
							cancel()
						}
					}(w)
				}
				time.Sleep(time.Duration(150+50*round) * time.Millisecond)
				c3, cancel := context.WithTimeout(context.Background(), 4*time.Second)
				dsm(e).Delete(c3, &pb.UUIDRequest{Id: d.GetId()})
				cancel()
				time.Sleep(100 * time.Millisecond)
				close(stop)
				wg.Wait()
			}
			return nil
		}},
		// a creation request that already carries partitions (a descriptor obtained from Get / List and sent back to
		// make a similar dataset): placement is the allocator's business - every partition of the new dataset has
		// min(R, N) member nodes, none of what the client filled in survives (C16)
		{"create.withpartitions", true, func(e *env, ctx context.Context) error {
			old, err := dsm(e).Get(ctx, &pb.GetDatasetRequest{DatasetId: e.ds})
			if err != nil {
				return err
			}
			members := map[uint64]bool{}
			for _, p := range old.GetPartitions() {
				for _, n := range p.GetNodeIds() {
					members[n] = true
				}
			}
			req := &pb.Dataset{Dimension: 3, Space: pb.Space_Euclidean, PartitionCount: 3, ReplicationFactor: 1}
			for k := 0; k < 3; k++ {
				req.Partitions = append(req.Partitions, &pb.Partition{Id: id16(byte(200 + k)), NodeIds: []uint64{77, 78}})
			}
			d, err := dsm(e).Create(ctx, req)
			if err != nil {
				return err
			}
			if len(d.GetPartitions()) != 3 {
				return fmt.Errorf("the new dataset has %d partitions, 3 were asked for", len(d.GetPartitions()))
			}
			for _, p := range d.GetPartitions() {
				if len(p.GetNodeIds()) != 1 || !members[p.GetNodeIds()[0]] {
					return fmt.Errorf("partition placed on %v: want one member node of %v", p.GetNodeIds(), members)
				}
				if len(p.GetId()) == 16 && p.GetId()[0] == 0x60 && p.GetId()[15] >= 200 {
					return fmt.Errorf("the new dataset uses a partition id the client filled in")
				}
			}
			// and it is usable
			c2, cancel := context.WithTimeout(context.Background(), 4*time.Second)
			defer cancel()
			var last error
			for try := 0; try < 15; try++ {
				if _, last = dm(e).Insert(c2, &pb.InsertRequest{DatasetId: d.GetId(), Id: id16(91), Value: vec(3, 1)}); last == nil || strings.Contains(last.Error(), "exists") {
					return nil
				}
				time.Sleep(200 * time.Millisecond)
			}
			return fmt.Errorf("the new dataset does not take writes: %v", last)
		}},
		{"delete.unknown", false, func(e *env, ctx context.Context) error {
			_, err := dsm(e).Delete(ctx, &pb.UUIDRequest{Id: id16(9)})
			return err
		}},
		{"delete.emptyid", false, func(e *env, ctx context.Context) error {
			_, err := dsm(e).Delete(ctx, &pb.UUIDRequest{})
			return err
		}},
		// ---------------- DataManager, single
		{"insert.ok", true, ins(id16(1), vec(3, 1), map[string]string{"a": "b"})},
		{"insert.nometa", true, ins(id16(2), vec(3, 2), nil)},
		{"insert.shortid", false, ins([]byte{1, 2}, vec(3, 1), nil)},
		{"insert.longid", false, ins(make([]byte, 17), vec(3, 1), nil)},
		{"insert.emptyid", false, ins(nil, vec(3, 1), nil)},
		{"insert.dimshort", false, ins(id16(3), vec(2, 1), nil)},
		{"insert.dimlong", false, ins(id16(3), vec(7, 1), nil)},
		{"insert.emptyvector", false, ins(id16(3), nil, nil)},
		{"insert.nan", false, ins(id16(4), []float32{float32(math.NaN()), 1, 2}, nil)},
		{"insert.inf", false, ins(id16(5), []float32{float32(math.Inf(1)), float32(math.Inf(-1)), 0}, nil)},
		{"insert.key256", false, ins(id16(6), vec(3, 6), map[string]string{rep(256): "v"})},
		{"insert.val64k", false, ins(id16(7), vec(3, 7), map[string]string{"k": rep(65536)})},
		{"insert.manykeys", false, ins(id16(8), vec(3, 8), many)},
		{"insert.unknowndataset", false, func(e *env, ctx context.Context) error {
			_, err := dm(e).Insert(ctx, &pb.InsertRequest{DatasetId: id16(9), Id: id16(1), Value: vec(3, 1)})
			return err
		}},
		{"insert.shortdataset", false, func(e *env, ctx context.Context) error {
			_, err := dm(e).Insert(ctx, &pb.InsertRequest{DatasetId: []byte{7}, Id: id16(1), Value: vec(3, 1)})
			return err
		}},
		{"update.ok.nometa", true, func(e *env, ctx context.Context) error {
			_, err := dm(e).Update(ctx, &pb.UpdateRequest{DatasetId: e.ds, Id: e.present, Value: vec(3, 5)})
			return err
		}},
		{"update.absent", false, func(e *env, ctx context.Context) error {
			_, err := dm(e).Update(ctx, &pb.UpdateRequest{DatasetId: e.ds, Id: id16(99), Value: vec(3, 5)})
			return err
		}},
		{"update.dim", false, func(e *env, ctx context.Context) error {
			_, err := dm(e).Update(ctx, &pb.UpdateRequest{DatasetId: e.ds, Id: e.present, Value: vec(1, 5)})
			return err
		}},
		{"remove.absent", false, func(e *env, ctx context.Context) error {
			_, err := dm(e).Remove(ctx, &pb.RemoveRequest{DatasetId: e.ds, Id: id16(99)})
			return err
		}},
		{"remove.shortid", false, func(e *env, ctx context.Context) error {
			_, err := dm(e).Remove(ctx, &pb.RemoveRequest{DatasetId: e.ds, Id: []byte{5}})
			return err
		}},
		// ---------------- DataManager, batch
		{"binsert.ok", true, func(e *env, ctx context.Context) error {
			_, err := dm(e).BatchInsert(ctx, &pb.BatchRequest{DatasetId: e.ds, Items: batch(5, nil)})
			return err
		}},
		{"binsert.empty", true, func(e *env, ctx context.Context) error {
			_, err := dm(e).BatchInsert(ctx, &pb.BatchRequest{DatasetId: e.ds})
			return err
		}},
		{"binsert.100", true, func(e *env, ctx context.Context) error {
			_, err := dm(e).BatchInsert(ctx, &pb.BatchRequest{DatasetId: e.ds, Items: batch(100, func(i int, it *pb.BatchItem) { it.Id[1] = 1 })})
			return err
		}},
		{"binsert.101", false, func(e *env, ctx context.Context) error {
			_, err := dm(e).BatchInsert(ctx, &pb.BatchRequest{DatasetId: e.ds, Items: batch(101, func(i int, it *pb.BatchItem) { it.Id[1] = 2 })})
			return err
		}},
		{"binsert.baditemid", false, func(e *env, ctx context.Context) error {
			_, err := dm(e).BatchInsert(ctx, &pb.BatchRequest{DatasetId: e.ds, Items: batch(3, func(i int, it *pb.BatchItem) {
				if i == 1 {
					it.Id = []byte{1, 2, 3}
				}
			})})
			return err
		}},
		{"binsert.itemdim", false, func(e *env, ctx context.Context) error {
			_, err := dm(e).BatchInsert(ctx, &pb.BatchRequest{DatasetId: e.ds, Items: batch(3, func(i int, it *pb.BatchItem) {
				it.Id[1] = 3
				if i == 1 {
					it.Value = vec(9, 1)
				}
			})})
			return err
		}},
		{"binsert.dupids", false, func(e *env, ctx context.Context) error {
			_, err := dm(e).BatchInsert(ctx, &pb.BatchRequest{DatasetId: e.ds, Items: batch(4, func(i int, it *pb.BatchItem) { it.Id[1], it.Id[15] = 4, 7 })})
			return err
		}},
		{"bupdate.baditemid", false, func(e *env, ctx context.Context) error {
			_, err := dm(e).BatchUpdate(ctx, &pb.BatchRequest{DatasetId: e.ds, Items: batch(2, func(i int, it *pb.BatchItem) { it.Id = nil })})
			return err
		}},
		{"bremove.baditemid", false, func(e *env, ctx context.Context) error {
			_, err := dm(e).BatchRemove(ctx, &pb.BatchRequest{DatasetId: e.ds, Items: batch(2, func(i int, it *pb.BatchItem) { it.Id = make([]byte, 40) })})
			return err
		}},
		// ---------------- writes to items that exist (the apply path really runs)
		{"update.present.emptyvector", false, func(e *env, ctx context.Context) error {
			_, err := dm(e).Update(ctx, &pb.UpdateRequest{DatasetId: e.ds, Id: e.present})
			return err
		}},
		{"update.present.nan", false, func(e *env, ctx context.Context) error {
			_, err := dm(e).Update(ctx, &pb.UpdateRequest{DatasetId: e.ds, Id: e.present, Value: []float32{1, float32(math.NaN()), 2}})
			return err
		}},
		{"update.present.meta", true, func(e *env, ctx context.Context) error {
			_, err := dm(e).Update(ctx, &pb.UpdateRequest{DatasetId: e.ds, Id: e.present, Value: vec(3, 4), Metadata: map[string]string{"new": "m", "old": ""}})
			return err
		}},
		{"update.present.key256", false, func(e *env, ctx context.Context) error {
			_, err := dm(e).Update(ctx, &pb.UpdateRequest{DatasetId: e.ds, Id: e.present, Value: vec(3, 4), Metadata: map[string]string{rep(256): "v"}})
			return err
		}},
		{"insert.present", false, ins(id16(50), vec(3, 1), nil)},
		{"remove.present", true, func(e *env, ctx context.Context) error {
			_, err := dm(e).Remove(ctx, &pb.RemoveRequest{DatasetId: e.ds, Id: e.present})
			return err
		}},
		{"remove.all", true, func(e *env, ctx context.Context) error {
			for i := 50; i < 56; i++ {
				if _, err := dm(e).Remove(ctx, &pb.RemoveRequest{DatasetId: e.ds, Id: id16(byte(i))}); err != nil {
					return err
				}
			}
			return nil
		}},
		{"bupdate.present.ok", true, func(e *env, ctx context.Context) error {
			_, err := dm(e).BatchUpdate(ctx, &pb.BatchRequest{DatasetId: e.ds, Items: []*pb.BatchItem{{Id: e.present, Value: vec(3, 2)}, {Id: id16(51), Value: vec(3, 3), Metadata: map[string]string{"x": "y"}}}})
			return err
		}},
		{"bupdate.present.dimshort", false, func(e *env, ctx context.Context) error {
			_, err := dm(e).BatchUpdate(ctx, &pb.BatchRequest{DatasetId: e.ds, Items: []*pb.BatchItem{{Id: e.present, Value: vec(1, 2)}, {Id: id16(51), Value: vec(3, 3)}}})
			return err
		}},
		{"bupdate.present.emptyvector", false, func(e *env, ctx context.Context) error {
			_, err := dm(e).BatchUpdate(ctx, &pb.BatchRequest{DatasetId: e.ds, Items: []*pb.BatchItem{{Id: id16(52), Value: vec(3, 3)}, {Id: e.present}, {Id: id16(53)}}})
			return err
		}},
		{"bupdate.present.dimlong", false, func(e *env, ctx context.Context) error {
			_, err := dm(e).BatchUpdate(ctx, &pb.BatchRequest{DatasetId: e.ds, Items: []*pb.BatchItem{{Id: e.present, Value: vec(40, 2)}, {Id: id16(54), Value: vec(40, 2)}}})
			return err
		}},
		{"bupdate.present.nan", false, func(e *env, ctx context.Context) error {
			_, err := dm(e).BatchUpdate(ctx, &pb.BatchRequest{DatasetId: e.ds, Items: []*pb.BatchItem{{Id: e.present, Value: []float32{float32(math.NaN()), 0, 0}}}})
			return err
		}},
		{"bupdate.present.key256", false, func(e *env, ctx context.Context) error {
			_, err := dm(e).BatchUpdate(ctx, &pb.BatchRequest{DatasetId: e.ds, Items: []*pb.BatchItem{{Id: e.present, Value: vec(3, 1), Metadata: map[string]string{rep(256): "v"}}}})
			return err
		}},
		{"bupdate.present.twice", false, func(e *env, ctx context.Context) error {
			_, err := dm(e).BatchUpdate(ctx, &pb.BatchRequest{DatasetId: e.ds, Items: []*pb.BatchItem{{Id: e.present, Value: vec(3, 1)}, {Id: e.present, Value: vec(3, 2)}}})
			return err
		}},
		{"binsert.present", false, func(e *env, ctx context.Context) error {
			_, err := dm(e).BatchInsert(ctx, &pb.BatchRequest{DatasetId: e.ds, Items: []*pb.BatchItem{{Id: e.present, Value: vec(3, 1)}, {Id: id16(60), Value: vec(3, 2)}}})
			return err
		}},
		{"bremove.present", true, func(e *env, ctx context.Context) error {
			_, err := dm(e).BatchRemove(ctx, &pb.BatchRequest{DatasetId: e.ds, Items: []*pb.BatchItem{{Id: e.present}, {Id: id16(51)}, {Id: id16(52)}}})
			return err
		}},
		{"bremove.present.twice", false, func(e *env, ctx context.Context) error {
			_, err := dm(e).BatchRemove(ctx, &pb.BatchRequest{DatasetId: e.ds, Items: []*pb.BatchItem{{Id: e.present}, {Id: e.present}}})
			return err
		}},
		{"pbupdate.present.dim", false, func(e *env, ctx context.Context) error {
			for _, p := range e.parts {
				dm(e).PartitionBatchUpdate(ctx, &pb.PartitionBatchRequest{DatasetId: e.ds, PartitionId: p, Items: []*pb.BatchItem{{Id: e.present, Value: vec(1, 1)}, {Id: id16(51)}}})
			}
			return nil
		}},
		{"pbremove.present", true, func(e *env, ctx context.Context) error {
			for _, p := range e.parts {
				if _, err := dm(e).PartitionBatchRemove(ctx, &pb.PartitionBatchRequest{DatasetId: e.ds, PartitionId: p, Items: []*pb.BatchItem{{Id: e.present}}}); err != nil {
					return err
				}
			}
			return nil
		}},
		// ---------------- partition-level RPCs (normally issued by peers)
		{"pbinsert.foreignpartition", false, func(e *env, ctx context.Context) error {
			_, err := dm(e).PartitionBatchInsert(ctx, &pb.PartitionBatchRequest{DatasetId: e.ds, PartitionId: id16(9), Items: batch(1, nil)})
			return err
		}},
		{"pbinsert.itemdim", false, func(e *env, ctx context.Context) error {
			_, err := dm(e).PartitionBatchInsert(ctx, &pb.PartitionBatchRequest{DatasetId: e.ds, PartitionId: e.parts[0], Items: batch(2, func(i int, it *pb.BatchItem) {
				it.Id[1] = 5
				it.Value = vec(1, 1)
			})})
			return err
		}},
		// fields a client has no business filling in: the item's level in the index (drawn by the owner) ...
		{"pbinsert.level.negative", false, func(e *env, ctx context.Context) error {
			_, err := dm(e).PartitionBatchInsert(ctx, &pb.PartitionBatchRequest{DatasetId: e.ds, PartitionId: e.parts[0], Items: batch(2, func(i int, it *pb.BatchItem) {
				it.Id[1] = 6
				it.Level = -3
			})})
			return err
		}},
		{"pbinsert.level.huge", false, func(e *env, ctx context.Context) error {
			_, err := dm(e).PartitionBatchInsert(ctx, &pb.PartitionBatchRequest{DatasetId: e.ds, PartitionId: e.parts[0], Items: batch(2, func(i int, it *pb.BatchItem) {
				it.Id[1] = 7
				it.Level = 1 << 28
			})})
			return err
		}},
		{"binsert.level.negative", false, func(e *env, ctx context.Context) error {
			_, err := dm(e).BatchInsert(ctx, &pb.BatchRequest{DatasetId: e.ds, Items: batch(3, func(i int, it *pb.BatchItem) {
				it.Id[1] = 8
				it.Level = -2
			})})
			return err
		}},
		{"pbinsert.baditemid", false, func(e *env, ctx context.Context) error {
			_, err := dm(e).PartitionBatchInsert(ctx, &pb.PartitionBatchRequest{DatasetId: e.ds, PartitionId: e.parts[0], Items: batch(2, func(i int, it *pb.BatchItem) { it.Id = []byte{9} })})
			return err
		}},
		{"pbupdate.baditemid", false, func(e *env, ctx context.Context) error {
			_, err := dm(e).PartitionBatchUpdate(ctx, &pb.PartitionBatchRequest{DatasetId: e.ds, PartitionId: e.parts[1], Items: batch(1, func(i int, it *pb.BatchItem) { it.Id = nil })})
			return err
		}},
		{"pbremove.baditemid", false, func(e *env, ctx context.Context) error {
			_, err := dm(e).PartitionBatchRemove(ctx, &pb.PartitionBatchRequest{DatasetId: e.ds, PartitionId: e.parts[1], Items: batch(1, func(i int, it *pb.BatchItem) { it.Id = []byte{1, 2, 3, 4} })})
			return err
		}},
		{"pinfo.foreign", false, func(e *env, ctx context.Context) error {
			_, err := dm(e).PartitionInfo(ctx, &pb.PartitionInfoRequest{DatasetId: e.ds, PartitionId: id16(9)})
			return err
		}},
		{"pinfo.shortid", false, func(e *env, ctx context.Context) error {
			_, err := dm(e).PartitionInfo(ctx, &pb.PartitionInfoRequest{DatasetId: e.ds, PartitionId: []byte{1}})
			return err
		}},
		// ---------------- Search
		{"search.ok", true, func(e *env, ctx context.Context) error {
			return drainSearch(sr(e).Search(ctx, &pb.SearchRequest{DatasetId: e.ds, Query: vec(3, 1), K: 3}))
		}},
		{"search.k0", true, func(e *env, ctx context.Context) error {
			return drainSearch(sr(e).Search(ctx, &pb.SearchRequest{DatasetId: e.ds, Query: vec(3, 1), K: 0}))
		}},
		{"search.khuge", true, func(e *env, ctx context.Context) error {
			return drainSearch(sr(e).Search(ctx, &pb.SearchRequest{DatasetId: e.ds, Query: vec(3, 1), K: 100000}))
		}},
		// k is a uint32 on the wire: the largest one (a client's "give me everything")
		{"search.kmax", true, func(e *env, ctx context.Context) error {
			return drainSearch(sr(e).Search(ctx, &pb.SearchRequest{DatasetId: e.ds, Query: vec(3, 1), K: 4294967295}))
		}},
		{"search.kbig", true, func(e *env, ctx context.Context) error {
			return drainSearch(sr(e).Search(ctx, &pb.SearchRequest{DatasetId: e.ds, Query: vec(3, 1), K: 1 << 30}))
		}},
		{"searchparts.kmax", true, func(e *env, ctx context.Context) error {
			return drainParts(sr(e).SearchPartitions(ctx, &pb.SearchPartitionsRequest{DatasetId: e.ds, PartitionIds: [][]byte{e.parts[0], e.parts[1]}, Query: vec(3, 1), K: 4294967295}))
		}},
		{"search.dim", false, func(e *env, ctx context.Context) error {
			return drainSearch(sr(e).Search(ctx, &pb.SearchRequest{DatasetId: e.ds, Query: vec(5, 1), K: 3}))
		}},
		{"search.emptyquery", false, func(e *env, ctx context.Context) error {
			return drainSearch(sr(e).Search(ctx, &pb.SearchRequest{DatasetId: e.ds, K: 3}))
		}},
		{"search.nan", false, func(e *env, ctx context.Context) error {
			return drainSearch(sr(e).Search(ctx, &pb.SearchRequest{DatasetId: e.ds, Query: []float32{float32(math.NaN()), 0, 0}, K: 3}))
		}},
		{"search.unknowndataset", false, func(e *env, ctx context.Context) error {
			return drainSearch(sr(e).Search(ctx, &pb.SearchRequest{DatasetId: id16(9), Query: vec(3, 1), K: 3}))
		}},
		{"searchparts.unknowndataset", false, func(e *env, ctx context.Context) error {
			return drainParts(sr(e).SearchPartitions(ctx, &pb.SearchPartitionsRequest{DatasetId: id16(9), PartitionIds: [][]byte{e.parts[0]}, Query: vec(3, 1), K: 3}))
		}},
		{"searchparts.foreign", false, func(e *env, ctx context.Context) error {
			return drainParts(sr(e).SearchPartitions(ctx, &pb.SearchPartitionsRequest{DatasetId: e.ds, PartitionIds: [][]byte{id16(9)}, Query: vec(3, 1), K: 3}))
		}},
		{"searchparts.dim", false, func(e *env, ctx context.Context) error {
			return drainParts(sr(e).SearchPartitions(ctx, &pb.SearchPartitionsRequest{DatasetId: e.ds, PartitionIds: [][]byte{e.parts[0], e.parts[1]}, Query: vec(11, 1), K: 3}))
		}},
		{"searchparts.emptyquery", false, func(e *env, ctx context.Context) error {
			return drainParts(sr(e).SearchPartitions(ctx, &pb.SearchPartitionsRequest{DatasetId: e.ds, PartitionIds: [][]byte{e.parts[0]}, K: 3}))
		}},
		{"searchparts.shortpartitionid", false, func(e *env, ctx context.Context) error {
			return drainParts(sr(e).SearchPartitions(ctx, &pb.SearchPartitionsRequest{DatasetId: e.ds, PartitionIds: [][]byte{{1, 2}}, Query: vec(3, 1), K: 3}))
		}},
	}
}

type server struct {
	bin, dir, port string
	cmd            *exec.Cmd
	died           chan string
	out            []string
	fatal          string
	mu             sync.Mutex
}

func (s *server) start() (bool, string) {
	s.cmd = exec.Command(s.bin, "-port", s.port, "-data-dir", s.dir, "-node-id", "1")
	so, _ := s.cmd.StdoutPipe()
	se, _ := s.cmd.StderrPipe()
	ready := make(chan struct{}, 1)
	s.died = make(chan string, 1)
	s.cmd.Start()
	rd := func(r io.Reader) {
		sc := bufio.NewScanner(r)
		sc.Buffer(make([]byte, 1<<16), 1<<22)
		for sc.Scan() {
			l := sc.Text()
			s.mu.Lock()
			if s.fatal == "" && (strings.HasPrefix(l, "panic:") || strings.HasPrefix(l, "fatal error")) {
				s.fatal = l // the runtime's goroutine dump that follows may be longer than what is kept
			}
			if os.Getenv("VERIF_NODE_STDERR") != "" {
				fmt.Fprintln(os.Stderr, l)
			}
			s.out = append(s.out, l)
			if len(s.out) > 300 {
				s.out = s.out[len(s.out)-300:]
			}
			s.mu.Unlock()
			if strings.HasPrefix(l, "READY") {
				select {
				case ready <- struct{}{}:
				default:
				}
			}
		}
	}
	go rd(so)
	go rd(se)
	cmd := s.cmd
	go func() { s.died <- fmt.Sprint(cmd.Wait()) }()
	select {
	case <-ready:
		return true, ""
	case d := <-s.died:
		s.died <- d
		return false, d + " | " + s.why()
	case <-time.After(20 * time.Second):
		s.cmd.Process.Kill()
		return false, "not ready after 20 s | " + s.why()
	}
}

func (s *server) why() string {
	s.mu.Lock()
	defer s.mu.Unlock()
	if s.fatal != "" {
		if len(s.fatal) > 200 {
			return s.fatal[:200]
		}
		return s.fatal
	}
	for i := len(s.out) - 1; i >= 0; i-- {
		l := s.out[i]
		if strings.HasPrefix(l, "panic:") || strings.Contains(l, "level=fatal") || strings.HasPrefix(l, "fatal error") || strings.HasPrefix(l, "RUN-ERROR") || strings.Contains(l, "SIGSEGV") || strings.Contains(l, "unexpected fault") {
			if len(l) > 200 {
				l = l[:200]
			}
			return l
		}
	}
	return ""
}

func (s *server) dead() (bool, string) {
	select {
	case d := <-s.died:
		s.died <- d
		return true, d + " | " + s.why()
	default:
		return false, ""
	}
}

func (s *server) kill() {
	s.cmd.Process.Signal(syscall.SIGKILL)
	select {
	case <-s.died:
	case <-time.After(3 * time.Second):
	}
}

func freePort() string { return hx.FreePort() }

// probe: a valid insert + search on the valid dataset must work (retried while the partitions elect)
func probe(e *env, n byte) string {
	var last error
	dl := time.Now().Add(12 * time.Second)
	for time.Now().Before(dl) {
		ctx, cancel := context.WithTimeout(context.Background(), 2*time.Second)
		u := make([]byte, 16)
		u[0], u[1], u[15] = 0x62, n, byte(time.Now().UnixNano())
		_, err := pb.NewDataManagerClient(e.conn).Insert(ctx, &pb.InsertRequest{DatasetId: e.ds, Id: u, Value: vec(3, 3)})
		if err == nil {
			err = drainSearch(pb.NewSearchClient(e.conn).Search(ctx, &pb.SearchRequest{DatasetId: e.ds, Query: vec(3, 3), K: 2}))
		}
		cancel()
		if err == nil {
			return ""
		}
		last = err
		time.Sleep(300 * time.Millisecond)
	}
	return last.Error()
}

func main() {
	defer hx.ReleasePorts()
	if os.Args[1] == "list" {
		for _, c := range classes() {
			fmt.Println(c.name)
		}
		return
	}
	bin, work := os.Args[1], os.Args[2]
	f, _ := os.Create(os.Args[3])
	defer f.Close()
	enc := json.NewEncoder(f)
	var want []string
	json.Unmarshal([]byte(os.Args[4]), &want)
	all := map[string]class{}
	for _, c := range classes() {
		all[c.name] = c
	}
	for ci, name := range want {
		c, ok := all[name]
		if !ok {
			continue
		}
		ev := map[string]interface{}{"ev": "class", "class": name, "valid": 0, "outcome": "", "err": "", "alive": 1, "why": "",
			"probe": "", "restart": 1, "restartwhy": "", "replayprobe": "", "setup": ""}
		if c.valid {
			ev["valid"] = 1
		}
		// requests that address something that is not there: a search over it must fail loudly, an empty
		// success would silently drop a partition's contribution from somebody's result
		ev["musterr"] = 0
		for _, n := range []string{"search.unknowndataset", "searchparts.unknowndataset", "searchparts.foreign", "searchparts.shortpartitionid",
			"search.dim", "searchparts.dim", "search.emptyquery", "searchparts.emptyquery"} {
			if n == name {
				ev["musterr"] = 1
			}
		}
		s := &server{bin: bin, dir: fmt.Sprintf("%s/c%d", work, ci), port: freePort()}
		os.MkdirAll(s.dir, 0755)
		if ok, why := s.start(); !ok {
			ev["setup"] = "server did not start: " + why
			enc.Encode(ev)
			continue
		}
		conn, _ := grpc.Dial("127.0.0.1:"+s.port, grpc.WithInsecure(), grpc.WithDefaultCallOptions(grpc.MaxCallRecvMsgSize(64<<20), grpc.MaxCallSendMsgSize(64<<20)))
		e := &env{conn: conn}
		// setup: a valid dataset with one item
		func() {
			// the single-node zero group needs an election time-out before it accepts proposals
			var err error
			for try := 0; try < 12; try++ {
				ctx, cancel := context.WithTimeout(context.Background(), 3*time.Second)
				var d *pb.Dataset
				d, err = pb.NewDatasetManagerClient(conn).Create(ctx, &pb.Dataset{Dimension: 3, Space: pb.Space_Euclidean, PartitionCount: 2, ReplicationFactor: 1})
				cancel()
				if err == nil {
					e.ds = d.GetId()
					for _, p := range d.GetPartitions() {
						e.parts = append(e.parts, p.GetId())
					}
					return
				}
				time.Sleep(400 * time.Millisecond)
			}
			ev["setup"] = "create: " + err.Error()
		}()
		if ev["setup"] == "" {
			if w := probe(e, 0); w != "" {
				ev["setup"] = "probe: " + w
			}
			e.present = id16(50)
			ctx, cancel := context.WithTimeout(context.Background(), 5*time.Second)
			_, err := pb.NewDataManagerClient(conn).Insert(ctx, &pb.InsertRequest{DatasetId: e.ds, Id: e.present, Value: vec(3, 9), Metadata: map[string]string{"old": "meta"}})
			cancel()
			if err != nil {
				ev["setup"] = "insert: " + err.Error()
			}
			// more items, so that both partitions hold several vertices
			for i := 51; i < 56 && ev["setup"] == ""; i++ {
				ctx, cancel := context.WithTimeout(context.Background(), 5*time.Second)
				_, err := pb.NewDataManagerClient(conn).Insert(ctx, &pb.InsertRequest{DatasetId: e.ds, Id: id16(byte(i)), Value: vec(3, float32(i-45))})
				cancel()
				if err != nil {
					ev["setup"] = "insert: " + err.Error()
				}
			}
		}
		if ev["setup"] != "" {
			s.kill()
			enc.Encode(ev)
			continue
		}
		// the request under test
		done := make(chan error, 1)
		go func() {
			ctx, cancel := context.WithTimeout(context.Background(), 10*time.Second)
			defer cancel()
			done <- c.fn(e, ctx)
		}()
		select {
		case err := <-done:
			if err == nil {
				ev["outcome"] = "ok"
			} else {
				ev["outcome"], ev["err"] = "err", err.Error()
				if len(err.Error()) > 200 {
					ev["err"] = err.Error()[:200]
				}
			}
		case <-time.After(12 * time.Second):
			ev["outcome"] = "hang"
		}
		time.Sleep(150 * time.Millisecond)
		if d, why := s.dead(); d {
			ev["alive"], ev["why"] = 0, why
		} else {
			ev["probe"] = probe(e, 1)
			if d, why := s.dead(); d {
				ev["alive"], ev["why"] = 0, why
			}
		}
		// kill -9, restart on the same directory: whatever the request left in the logs is replayed
		s.kill()
		conn.Close()
		s2 := &server{bin: bin, dir: s.dir, port: s.port}
		if ok, why := s2.start(); !ok {
			ev["restart"], ev["restartwhy"] = 0, why
		} else {
			conn2, _ := grpc.Dial("127.0.0.1:"+s2.port, grpc.WithInsecure())
			e.conn = conn2
			ev["replayprobe"] = probe(e, 2)
			if d, why := s2.dead(); d {
				ev["restart"], ev["restartwhy"] = 0, "died after restart: "+why
			}
			conn2.Close()
			s2.kill()
		}
		os.RemoveAll(s.dir)
		enc.Encode(ev)
	}
}
