// Command cat binds spec/Catalogue.tla to the real storage.DatasetManager (C14):
// the catalogue state machine is driven by logs of create / delete / add-node /
// remove-node entries, on three managers of one node id each:
//
//	A applies the whole log (the reference: Catalogue!Ref),
//	B applies a prefix, is then handed A's snapshot taken at a later index (a lagging
//	  follower caught up by snapshot) and applies the rest,
//	C starts from that snapshot only (a new member / a restart).
//
// On B the raft store of a replica this node hosts before the snapshot arrives and keeps hosting is still there
// afterwards (restoring a catalogue snapshot into a known dataset does not tear down the replicas that stay).
// After every log all three must describe the same catalogue: the same datasets, the same
// partitions in the same order, and for every partition the same replica set without
// duplicates (Catalogue!Agree, SnapOK).
//
//	cat <trace.ndjson> <seed> <logs>
package main

import (
	"bufio"
	"context"
	"encoding/json"
	"fmt"
	"math/rand"
	"os"
	"sort"
	"strconv"
	"strings"
	"time"

	badger "github.com/dgraph-io/badger/v2"
	"github.com/golang/protobuf/proto"
	"github.com/marekgalovic/anndb/cluster"
	pb "github.com/marekgalovic/anndb/protobuf"
	"github.com/marekgalovic/anndb/storage"
	"github.com/marekgalovic/anndb/storage/raft"
	"github.com/marekgalovic/anndb/storage/wal"
	"github.com/marekgalovic/anndb/utils"
	uuid "github.com/satori/go.uuid"
	_ "verifharness/internal/hx"
)

type group struct {
	process, restore raft.ProcessFn
	snapshot         raft.SnapshotFn
}

func (g *group) RegisterProcessFn(fn raft.ProcessFn) error         { g.process = fn; return nil }
func (g *group) RegisterProcessSnapshotFn(fn raft.ProcessFn) error { g.restore = fn; return nil }
func (g *group) RegisterSnapshotFn(fn raft.SnapshotFn) error       { g.snapshot = fn; return nil }
func (g *group) LeaderId() uint64                                  { return 1 }
func (g *group) Propose(ctx context.Context, data []byte) error    { return nil } // the allocator's own proposals are not part of the scripted log

type mgr struct {
	g     *group
	dm    *storage.DatasetManager
	alloc *storage.Allocator
	db    *badger.DB
}

func newMgr(self uint64, db *badger.DB) *mgr {
	conn, _ := cluster.NewConn(self, "127.0.0.1:1", "")
	tr := raft.NewTransport(self, "127.0.0.1:1", conn)
	alloc := storage.NewAllocator(conn)
	g := &group{}
	dm, err := storage.NewDatasetManager(g, db, tr, conn, alloc)
	if err != nil {
		panic(err)
	}
	return &mgr{g: g, dm: dm, alloc: alloc, db: db}
}

// close: the datasets are deleted through the log (their raft groups are unloaded by the allocator), then the
// allocator stops; the database is shared by the managers of one role and stays open
func (m *mgr) close(ids []uuid.UUID, entry func(pb.DatasetManagerChangeType, []byte) []byte) {
	for _, id := range ids {
		m.g.process(entry(pb.DatasetManagerChangeType_DatasetManagerDeleteDataset, id.Bytes()))
	}
	time.Sleep(time.Millisecond)
	m.alloc.Stop()
}

type part struct {
	Id     string `json:"id"`
	Nodes  []int  `json:"nodes"`  // as the dataset descriptor (Meta) lists them: what List / Get / the catalogue snapshot say
	PNodes []int  `json:"pnodes"` // as the partition object itself holds them: what routing and raft loading go by
	Route  string `json:"route"`  // where a write for an id this partition owns goes: "local" | "forward" (C10: the owner's replicas, as listed)
}
type dsv struct {
	// Size: what asking for the dataset's size does on this node: "ok" (every partition counted here) | "remote" (a
	// partition that is not hosted here had to be looked up: the other nodes have no address in this harness, the call
	// fails) | "" not probed
	Size  string `json:"size"`
	Id    string `json:"id"`
	Dim   int    `json:"dim"`
	Space int    `json:"space"`
	Repl  int    `json:"repl"`
	Parts []part `json:"parts"`
}

func (m *mgr) view(ids []uuid.UUID, probe bool) []dsv {
	out := []dsv{}
	for _, id := range ids {
		ds, err := m.dm.Get(id)
		if err != nil {
			continue
		}
		v := dsv{Id: id.String()[:8], Dim: int(ds.Meta().GetDimension()), Space: int(ds.Meta().GetSpace()), Repl: int(ds.Meta().GetReplicationFactor()), Parts: []part{}}
		for _, p := range ds.Meta().GetPartitions() {
			pid, _ := uuid.FromBytes(p.GetId())
			ns := []int{}
			for _, n := range p.GetNodeIds() {
				ns = append(ns, int(n))
			}
			pns := []int{}
			for _, n := range ds.VerifPartitionNodes(len(v.Parts)) {
				pns = append(pns, int(n))
			}
			rt := ""
			if probe {
				rt = routeOf(ds, len(v.Parts), len(ds.Meta().GetPartitions()), int(ds.Meta().GetDimension()))
			}
			v.Parts = append(v.Parts, part{pid.String()[:8], ns, pns, rt})
		}
		if probe {
			empty := false
			for i := range v.Parts {
				empty = empty || len(ds.VerifPartitionNodes(i)) == 0
			}
			if empty {
				v.Size = "none"
			} else {
				ctx, cancel := context.WithTimeout(context.Background(), 200*time.Millisecond)
				_, _, err := ds.SizeInfo(ctx)
				cancel()
				v.Size = "ok"
				if err != nil {
					v.Size = "remote"
				}
			}
		}
		out = append(out, v)
	}
	sort.Slice(out, func(i, j int) bool { return out[i].Id < out[j].Id })
	return out
}

// routeOf: a write for an id that partition pi owns, issued on this node: it is applied here ("local": whatever the
// local raft group then says) or sent to one of the partition's replicas ("forward": the other nodes have no address
// in this harness, which is what the call then fails with)
func routeOf(ds *storage.Dataset, pi, np, dim int) string {
	for i := 0; i < np; i++ {
		if len(ds.VerifPartitionNodes(i)) == 0 {
			return "none" // a partition without any replica (the random logs remove nodes freely): nowhere to route to
		}
	}
	var id uuid.UUID
	for k := 0; k < 100000; k++ {
		id[0], id[8], id[9], id[15] = byte(k), byte(k>>8), byte(k>>16), 0x70
		if int(utils.UuidMod(id, uint64(np))) == pi {
			break
		}
		if k == 99999 {
			return "none"
		}
	}
	ctx, cancel := context.WithTimeout(context.Background(), 30*time.Millisecond)
	defer cancel()
	err := ds.Remove(ctx, id) // an id nobody inserted: nothing changes wherever it is applied
	if err != nil && strings.Contains(err.Error(), cluster.NodeAddressNotFoundError.Error()) {
		return "forward"
	}
	if os.Getenv("VERIF_ROUTE_DEBUG") != "" {
		os.Stderr.WriteString(fmt.Sprintf("route pi=%d np=%d nodes=%v err=%v\n", pi, np, ds.VerifPartitionNodes(pi), err))
	}
	return "local"
}

func main() {
	f, _ := os.Create(os.Args[1])
	defer f.Close()
	bw := bufio.NewWriter(f)
	defer bw.Flush()
	enc := json.NewEncoder(bw)
	seed, _ := strconv.ParseInt(os.Args[2], 10, 64)
	nlogs, _ := strconv.Atoi(os.Args[3])
	rng := rand.New(rand.NewSource(seed))
	entry := func(t pb.DatasetManagerChangeType, data []byte) []byte {
		b, _ := proto.Marshal(&pb.DatasetManagerChange{Type: t, NotificationId: uuid.NewV4().Bytes(), Data: data})
		return b
	}
	var dbs []*badger.DB
	for i := 0; i < 3; i++ {
		db, _ := badger.Open(badger.DefaultOptions("").WithInMemory(true).WithLogger(nil))
		dbs = append(dbs, db)
	}
	for hid := 1; hid <= nlogs; hid++ {
		// ---- a log
		type dsInfo struct {
			id    uuid.UUID
			parts []uuid.UUID
			nodes []map[uint64]bool // replica set per partition, as the entries so far imply
			alive bool
		}
		var dss []*dsInfo
		var log [][]byte
		var desc []string
		// per entry: the dataset it deletes, or the partition it removes node 1 (this node) from
		type touch struct {
			ds   *dsInfo
			part int // -1: the dataset is deleted
		}
		var touches []*touch
		n := 3 + rng.Intn(8)
		for len(log) < n {
			x := rng.Intn(10)
			switch {
			case x < 3 || len(dss) == 0:
				d := &dsInfo{id: uuid.NewV4(), alive: true}
				np := 1 + rng.Intn(3)
				meta := &pb.Dataset{Id: d.id.Bytes(), Dimension: uint32(2 + rng.Intn(3)), Space: pb.Space(rng.Intn(3)), PartitionCount: uint32(np), ReplicationFactor: 3}
				for i := 0; i < np; i++ {
					pid := uuid.NewV4()
					d.parts = append(d.parts, pid)
					perm := rng.Perm(4)[:1+rng.Intn(3)]
					ns := []uint64{}
					for _, k := range perm {
						ns = append(ns, uint64(k+1))
					}
					meta.Partitions = append(meta.Partitions, &pb.Partition{Id: pid.Bytes(), NodeIds: ns})
					set := map[uint64]bool{}
					for _, x := range ns {
						set[x] = true
					}
					d.nodes = append(d.nodes, set)
				}
				dd, _ := proto.Marshal(meta)
				log = append(log, entry(pb.DatasetManagerChangeType_DatasetManagerCreateDataset, dd))
				dss = append(dss, d)
				desc = append(desc, "create")
				touches = append(touches, nil)
			case x < 4:
				d := dss[rng.Intn(len(dss))]
				log = append(log, entry(pb.DatasetManagerChangeType_DatasetManagerDeleteDataset, d.id.Bytes()))
				d.alive = false
				desc = append(desc, "delete")
				touches = append(touches, &touch{d, -1})
			default:
				d := dss[rng.Intn(len(dss))]
				t := pb.DatasetPartitionNodesChangeType_DatasetPartitionNodesChangeAddNode
				nm := "add"
				if rng.Intn(2) == 0 {
					t, nm = pb.DatasetPartitionNodesChangeType_DatasetPartitionNodesChangeRemoveNode, "remove"
				}
				pi := rng.Intn(len(d.parts))
				node := uint64(1 + rng.Intn(4))
				if nm == "add" && d.nodes[pi][node] {
					continue // the allocator adds a node to a partition that lacks it
				}
				if nm == "add" {
					d.nodes[pi][node] = true
				} else {
					delete(d.nodes[pi], node) // removals are proposed whether or not the node is in the set
				}
				cd, _ := proto.Marshal(&pb.DatasetPartitionNodesChange{Type: t, DatasetId: d.id.Bytes(), PartitionId: d.parts[pi].Bytes(), NodeId: node})
				log = append(log, entry(pb.DatasetManagerChangeType_DatasetManagerUpdatePartitionNodes, cd))
				desc = append(desc, nm)
				if nm == "remove" && node == 1 {
					touches = append(touches, &touch{d, pi})
				} else {
					touches = append(touches, nil)
				}
			}
		}
		var ids []uuid.UUID
		for _, d := range dss {
			ids = append(ids, d.id)
		}
		cut := rng.Intn(len(log) + 1)
		snapAt := cut + rng.Intn(len(log)+1-cut)
		a, b, c := newMgr(1, dbs[0]), newMgr(1, dbs[1]), newMgr(1, dbs[2])
		var snap []byte
		res := "ok"
		// the replicas this node hosts on B when the snapshot arrives and keeps hosting to the end of the log (no entry
		// behind B's prefix deletes the dataset or takes this node out of the partition): their raft stores
		type kept struct {
			Pid    string `json:"pid"`
			Before int    `json:"before"` // last index of the replica's raft log before the snapshot is restored
			After  int    `json:"after"`  // ... at the end
			pid    uuid.UUID
		}
		keeps := []*kept{}
		lastIdx := func(pid uuid.UUID) int {
			li, err := wal.NewBadgerWAL(dbs[1], pid).LastIndex()
			if err != nil {
				return -1
			}
			return int(li)
		}
		finished := make(chan struct{})
		go func() {
			defer close(finished)
			defer func() {
				if r := recover(); r != nil {
					res = "panic"
				}
			}()
			for i, e := range log {
				if i == snapAt {
					snap, _ = a.g.snapshot()
				}
				a.g.process(e)
			}
			if snapAt == len(log) {
				snap, _ = a.g.snapshot()
			}
			for _, e := range log[:cut] {
				b.g.process(e)
			}
			for _, d := range dss {
				ds, err := b.dm.Get(d.id)
				if err != nil {
					continue
				}
			parts:
				for pi, pid := range d.parts {
					hosted := false
					for _, x := range ds.VerifPartitionNodes(pi) {
						hosted = hosted || x == 1
					}
					for i := cut; i < len(log); i++ {
						if t := touches[i]; t != nil && t.ds == d && (t.part == -1 || t.part == pi) {
							continue parts
						}
					}
					if !hosted {
						continue
					}
					// the group has started and stored its first entries
					k := &kept{Pid: pid.String()[:8], pid: pid}
					for dl := time.Now().Add(500 * time.Millisecond); time.Now().Before(dl); time.Sleep(time.Millisecond) {
						if k.Before = lastIdx(pid); k.Before > 0 {
							break
						}
					}
					if k.Before > 0 {
						keeps = append(keeps, k)
					}
				}
			}
			if err := b.g.restore(snap); err != nil {
				res = "restore error: " + err.Error()
			}
			for _, e := range log[snapAt:] {
				b.g.process(e)
			}
			time.Sleep(2 * time.Millisecond)
			for _, k := range keeps {
				k.After = lastIdx(k.pid)
			}
			if err := c.g.restore(snap); err != nil {
				res = "restore error: " + err.Error()
			}
			for _, e := range log[snapAt:] {
				c.g.process(e)
			}
		}()
		select {
		case <-finished:
		case <-time.After(20 * time.Second):
			// the catalogue state machine does not return from applying an entry / restoring a snapshot (the
			// zero group's apply loop would be stuck for good): report it and stop - its locks may be held
			enc.Encode(map[string]interface{}{"ev": "cat", "hid": hid, "log": desc, "cut": cut, "snapat": snapAt,
				"res": "hang: the catalogue state machine did not come back within 20 s", "a": []dsv{}, "b": []dsv{}, "c": []dsv{}, "kept": []int{}})
			bw.Flush()
			f.Sync()
			os.Exit(0)
		}
		time.Sleep(2 * time.Millisecond)
		enc.Encode(map[string]interface{}{"ev": "cat", "hid": hid, "log": desc, "cut": cut, "snapat": snapAt, "res": res, "kept": keeps,
			"a": a.view(ids, false), "b": b.view(ids, true), "c": c.view(ids, false)})
		a.close(ids, entry)
		b.close(ids, entry)
		c.close(ids, entry)
	}
}
