// Command ctrl runs the real control plane of one node - cluster.Conn, storage.Allocator,
// storage.DatasetManager - over a scripted zero group whose single apply goroutine applies
// entries strictly in order, as the real ready loop does (property C18).  Entries are
// membership changes (applied as Conn.AddNode / RemoveNode, which is what the zero group's
// processConfChange does) and the proposals the real code makes (create / delete dataset,
// partition-node changes).  A watchdog decides whether the node finished applying its log;
// a stall is reported with the blocked goroutines' frames as its signature.
//
//	ctrl <trace.ndjson> <scenario-json>
package main

import (
	"context"
	"encoding/json"
	"fmt"
	"os"
	"regexp"
	"runtime"
	"sort"
	"strings"
	"sync"
	"time"

	badger "github.com/dgraph-io/badger/v2"
	"github.com/marekgalovic/anndb/cluster"
	amath "github.com/marekgalovic/anndb/math"
	pb "github.com/marekgalovic/anndb/protobuf"
	"github.com/marekgalovic/anndb/storage"
	"github.com/golang/protobuf/proto"
	"github.com/coreos/etcd/raft/raftpb"
	"github.com/marekgalovic/anndb/storage/raft"
	"github.com/marekgalovic/anndb/storage/wal"
	uuid "github.com/satori/go.uuid"
	_ "verifharness/internal/hx"
)

// Scenario: a list of steps; "conf+N" / "conf-N" = membership entry, "create:R" = Create a dataset with
// replication factor R (1 partition) through the real DatasetManager.Create, "delete" = delete the oldest
// dataset, "burst" marks that all following entries are queued BEFORE the apply goroutine is released
// (what a restart replays).  Entries proposed by OTHER nodes arrive through the same log: "fcreate:N" = a
// dataset whose single partition is hosted on node N only, "pnode-N" / "pnode+N" = node N is removed from /
// added to the replica set of the last such partition; "rcreate:R:n1,n2" = a dataset with replication factor R whose
// partition has the replicas n1,n2 (a replayed catalogue: the peers are announced afterwards); "rcreate!:..." = the same with a
// stored raft snapshot that does not load (the partition's group fails to start); "rdelete" = that dataset is deleted; "fwrite" = a client write without a deadline to that dataset (what a partition leader's allocator proposes when it
// hears that a node left, or finds the partition under-replicated).
type Scenario struct {
	Name  string   `json:"name"`
	Steps []string `json:"steps"`
}

type entry struct {
	conf string // "+2" | "-2" | ""
	data []byte
}

type group struct {
	mu      sync.Mutex
	queue   []entry
	wake    chan struct{}
	process raft.ProcessFn
	conn    *cluster.Conn
	held    bool
	applied int
}

func (g *group) RegisterProcessFn(fn raft.ProcessFn) error         { g.process = fn; return nil }
func (g *group) RegisterProcessSnapshotFn(fn raft.ProcessFn) error { return nil }
func (g *group) RegisterSnapshotFn(fn raft.SnapshotFn) error       { return nil }
func (g *group) LeaderId() uint64                                  { return 1 }
func (g *group) Propose(ctx context.Context, data []byte) error {
	g.push(entry{data: data})
	return nil
}
func (g *group) push(e entry) {
	g.mu.Lock()
	g.queue = append(g.queue, e)
	g.mu.Unlock()
	select {
	case g.wake <- struct{}{}:
	default:
	}
}
func (g *group) hold(h bool) {
	g.mu.Lock()
	g.held = h
	g.mu.Unlock()
	if !h {
		select {
		case g.wake <- struct{}{}:
		default:
		}
	}
}
func (g *group) pending() int {
	g.mu.Lock()
	defer g.mu.Unlock()
	return len(g.queue)
}

// the zero group's apply goroutine
func (g *group) run() {
	for range g.wake {
		for {
			g.mu.Lock()
			if g.held || len(g.queue) == 0 {
				g.mu.Unlock()
				break
			}
			e := g.queue[0]
			g.mu.Unlock()
			if e.conf != "" {
				var id uint64
				fmt.Sscanf(e.conf[1:], "%d", &id)
				if e.conf[0] == '+' {
					g.conn.AddNode(id, "127.0.0.1:1")
				} else {
					g.conn.RemoveNode(id)
				}
			} else {
				g.process(e.data)
			}
			g.mu.Lock()
			g.queue = g.queue[1:]
			g.applied++
			g.mu.Unlock()
		}
	}
}

var frameRe = regexp.MustCompile(`github.com/marekgalovic/anndb/(storage|cluster|storage/raft)\.\(\*?(\w+)\)\.(\w+)`)

// stallSignature: for every goroutine blocked inside anndb code, its wait reason and the chain of anndb
// methods it is in (innermost first, at most 3)
func stallSignature() string {
	buf := make([]byte, 1<<20)
	n := runtime.Stack(buf, true)
	var sigs []string
	for _, g := range strings.Split(string(buf[:n]), "\n\n") {
		lines := strings.Split(g, "\n")
		if len(lines) == 0 || !strings.HasPrefix(lines[0], "goroutine ") {
			continue
		}
		st := lines[0][strings.Index(lines[0], "[")+1:]
		st = strings.Split(strings.TrimSuffix(st, "]:"), ",")[0]
		if !(strings.Contains(st, "semacquire") || strings.Contains(st, "chan send") || strings.Contains(st, "chan receive") || strings.Contains(st, "select") || strings.Contains(st, "sync.")) {
			continue
		}
		var chain []string
		for _, l := range lines[1:] {
			if m := frameRe.FindStringSubmatch(l); m != nil {
				f := m[2] + "." + m[3]
				if len(chain) == 0 || chain[len(chain)-1] != f {
					chain = append(chain, f)
				}
			}
		}
		if len(chain) == 0 {
			continue
		}
		// only the two goroutines the property is about: the zero group's apply goroutine and the
		// allocator loop (other blocked goroutines are victims of the cycle, not part of it)
		if !strings.Contains(g, "main.(*group).run") && !strings.Contains(g, "(*Allocator).run") && !strings.Contains(g, "(*Allocator).runNodeChanges") {
			continue
		}
		if (chain[0] == "Allocator.run" || chain[0] == "Allocator.runNodeChanges") && len(chain) == 1 {
			continue // the idle loops
		}
		if strings.HasPrefix(chain[0], "RaftGroup.") || strings.HasPrefix(chain[0], "RaftTransport.") {
			continue // partition raft groups ticking
		}
		if len(chain) > 3 {
			chain = chain[:3]
		}
		sigs = append(sigs, st+"@"+strings.Join(chain, "<"))
	}
	sort.Strings(sigs)
	return strings.Join(sigs, " & ")
}

var watchGate chan struct{}

// runningGroups: raft groups whose ready loop runs in this process
func runningGroups() int {
	buf := make([]byte, 1<<20)
	n := runtime.Stack(buf, true)
	return strings.Count(string(buf[:n]), "anndb/storage/raft.(*RaftGroup).run(")
}

// waitingProposers: goroutines that wait inside DatasetManager for the outcome of a proposed catalogue change
func waitingProposers() int {
	buf := make([]byte, 1<<20)
	n := runtime.Stack(buf, true)
	c := 0
	for _, g := range strings.Split(string(buf[:n]), "\n\n") {
		lines := strings.Split(g, "\n")
		if len(lines) < 3 || !strings.HasPrefix(lines[0], "goroutine ") || !(strings.Contains(lines[0], "select") || strings.Contains(lines[0], "chan receive")) {
			continue
		}
		// innermost frame that is not the runtime's: the select in propose...AndWaitForCommit
		for _, l := range lines[1:] {
			if strings.HasPrefix(l, "\t") || strings.HasPrefix(l, "runtime.") {
				continue
			}
			if strings.Contains(l, "anndb/storage.(*DatasetManager).") && strings.Contains(l, "AndWaitForCommit") {
				c++
			}
			break
		}
	}
	return c
}

func main() {
	f, _ := os.Create(os.Args[1])
	defer f.Close()
	enc := json.NewEncoder(f)
	var sc Scenario
	if err := json.Unmarshal([]byte(os.Args[2]), &sc); err != nil {
		panic(err)
	}
	db, _ := badger.Open(badger.DefaultOptions("").WithInMemory(true).WithLogger(nil))
	conn, _ := cluster.NewConn(1, "127.0.0.1:1", "")
	tr := raft.NewTransport(1, "127.0.0.1:1", conn)
	alloc := storage.NewAllocator(conn)
	g := &group{wake: make(chan struct{}, 1), conn: conn}
	dm, err := storage.NewDatasetManager(g, db, tr, conn, alloc)
	if err != nil {
		panic(err)
	}
	go g.run()
	var created []uuid.UUID
	var fds, fpart uuid.UUID
	var mu sync.Mutex
	nsteps := 0
	var wg sync.WaitGroup
	for _, st := range sc.Steps {
		switch {
		case st == "dialers":
			// other goroutines of the node (searches, proxied writes, raft messages) keep dialling peers - also peers
			// they hold no connection for, because a removal has just dropped it - while membership changes apply
			for k := 0; k < 4; k++ {
				go func(k int) {
					for {
						for id := uint64(2); id <= 5; id++ {
							conn.Dial(id)
						}
						if k%2 == 0 {
							time.Sleep(50 * time.Microsecond)
						}
					}
				}(k)
			}
		case st == "readers":
			// other goroutines of the node keep READING the address book (placement of new datasets, the allocator's
			// "may I change this partition", searches choosing replicas) while membership changes apply
			for k := 0; k < 4; k++ {
				go func(k int) {
					for {
						conn.NodeIds()
						conn.Nodes()
						if k%2 == 0 {
							time.Sleep(20 * time.Microsecond)
						}
					}
				}(k)
			}
		case st == "burst":
			g.hold(true)
		case strings.HasPrefix(st, "conf"):
			g.push(entry{conf: st[4:]})
			nsteps++
		case strings.HasPrefix(st, "create:"):
			var r int
			fmt.Sscanf(st, "create:%d", &r)
			nsteps++
			wg.Add(1)
			go func() {
				defer wg.Done()
				ctx, cancel := context.WithTimeout(context.Background(), 4*time.Second)
				defer cancel()
				ds, err := dm.Create(ctx, &pb.Dataset{Dimension: 2, Space: pb.Space_Euclidean, PartitionCount: 1, ReplicationFactor: uint32(r)})
				if err == nil {
					id, _ := uuid.FromBytes(ds.Meta().GetId())
					mu.Lock()
					created = append(created, id)
					mu.Unlock()
				}
			}()
			// proposals are made by the caller's goroutine: wait until it is queued to keep the order of the scenario
			for i := 0; i < 200 && g.pending() < 1 && !g.held; i++ {
				time.Sleep(time.Millisecond)
			}
			time.Sleep(5 * time.Millisecond)
		case strings.HasPrefix(st, "fcreate:"):
			var n uint64
			fmt.Sscanf(st, "fcreate:%d", &n)
			nsteps++
			fds, fpart = uuid.NewV4(), uuid.NewV4()
			dd, _ := proto.Marshal(&pb.Dataset{Id: fds.Bytes(), Dimension: 2, Space: pb.Space_Euclidean, PartitionCount: 1, ReplicationFactor: 1,
				Partitions: []*pb.Partition{{Id: fpart.Bytes(), NodeIds: []uint64{n}}}})
			pd, _ := proto.Marshal(&pb.DatasetManagerChange{Type: pb.DatasetManagerChangeType_DatasetManagerCreateDataset, NotificationId: uuid.NewV4().Bytes(), Data: dd})
			g.push(entry{data: pd})
		case strings.HasPrefix(st, "sleep:"):
			var ms int
			fmt.Sscanf(st, "sleep:%d", &ms)
			time.Sleep(time.Duration(ms) * time.Millisecond)
		case st == "fwrite":
			// a client write WITHOUT a deadline (handler contexts and the CLI set none) to the dataset of the last
			// rcreate; the harness goes on when the call has returned, or after 7 s (the server's own limit is 5 s)
			if ds, err := dm.Get(fds); err == nil {
				ret := make(chan error, 1)
				go func() {
					var id uuid.UUID
					id[0], id[15] = 0x71, 1
					ret <- ds.Insert(context.Background(), id, amath.Vector{1, 2}, nil)
				}()
				t0 := time.Now()
				select {
				case err := <-ret:
					if os.Getenv("VERIF_CTRL_DEBUG") != "" {
						fmt.Fprintln(os.Stderr, "fwrite returned after", time.Since(t0), err, ds.VerifPartitionNodes(0))
					}
				case <-time.After(7 * time.Second):
				}
			}
		case st == "rdelete":
			// the dataset of the last rcreate / fcreate is deleted (an entry proposed by another node)
			nsteps++
			pd, _ := proto.Marshal(&pb.DatasetManagerChange{Type: pb.DatasetManagerChangeType_DatasetManagerDeleteDataset, NotificationId: uuid.NewV4().Bytes(), Data: fds.Bytes()})
			g.push(entry{data: pd})
		case strings.HasPrefix(st, "rcreate:"), strings.HasPrefix(st, "rcreate!:"):
			// what a restart replays: a dataset of the catalogue with replication factor R whose partition already
			// has the listed replicas - the peers are announced to the fresh cluster.Conn only afterwards
			parts := strings.Split(st, ":")
			corrupt := strings.HasPrefix(st, "rcreate!")
			var r uint32
			fmt.Sscanf(parts[1], "%d", &r)
			var ns []uint64
			for _, x := range strings.Split(parts[2], ",") {
				var n uint64
				fmt.Sscanf(x, "%d", &n)
				ns = append(ns, n)
			}
			nsteps++
			fds, fpart = uuid.NewV4(), uuid.NewV4()
			if corrupt {
				// "rcreate!": the replica's raft store holds a snapshot the index cannot load (truncated payload): the
				// group does not start; the allocator goes on without it
				w := wal.NewBadgerWAL(db, fpart)
				w.Save(raftpb.HardState{Term: 1, Commit: 5}, nil, raftpb.Snapshot{Data: []byte{1, 2, 3, 4, 5, 6, 7},
					Metadata: raftpb.SnapshotMetadata{Index: 5, Term: 1, ConfState: raftpb.ConfState{Nodes: ns}}})
			}
			dd, _ := proto.Marshal(&pb.Dataset{Id: fds.Bytes(), Dimension: 2, Space: pb.Space_Euclidean, PartitionCount: 1, ReplicationFactor: r,
				Partitions: []*pb.Partition{{Id: fpart.Bytes(), NodeIds: ns}}})
			pd, _ := proto.Marshal(&pb.DatasetManagerChange{Type: pb.DatasetManagerChangeType_DatasetManagerCreateDataset, NotificationId: uuid.NewV4().Bytes(), Data: dd})
			g.push(entry{data: pd})
		case strings.HasPrefix(st, "pnode"):
			var n uint64
			fmt.Sscanf(st[6:], "%d", &n)
			nsteps++
			t := pb.DatasetPartitionNodesChangeType_DatasetPartitionNodesChangeAddNode
			if st[5] == '-' {
				t = pb.DatasetPartitionNodesChangeType_DatasetPartitionNodesChangeRemoveNode
			}
			cd, _ := proto.Marshal(&pb.DatasetPartitionNodesChange{Type: t, DatasetId: fds.Bytes(), PartitionId: fpart.Bytes(), NodeId: n})
			pd, _ := proto.Marshal(&pb.DatasetManagerChange{Type: pb.DatasetManagerChangeType_DatasetManagerUpdatePartitionNodes, NotificationId: uuid.NewV4().Bytes(), Data: cd})
			g.push(entry{data: pd})
		case st == "delete":
			nsteps++
			mu.Lock()
			var id uuid.UUID
			if len(created) > 0 {
				id = created[0]
				created = created[1:]
			}
			mu.Unlock()
			wg.Add(1)
			go func() {
				defer wg.Done()
				ctx, cancel := context.WithTimeout(context.Background(), 4*time.Second)
				defer cancel()
				dm.Delete(ctx, id)
			}()
			time.Sleep(5 * time.Millisecond)
		case st == "hold-watch":
			// the allocator loop has received a watch update and is about to read the partition's replica set: it is
			// held there until "release-watch" (the apply goroutine goes on meanwhile - what a fast replay does)
			held := make(chan struct{})
			watchGate = held
			storage.VerifGate = func(point string, i int) {
				if point == "allocator.watch" {
					if c := watchGate; c != nil {
						select {
						case <-c:
						case <-time.After(5 * time.Second):
						}
					}
				}
			}
		case st == "release-watch":
			if watchGate != nil {
				close(watchGate)
				watchGate = nil
			}
		case st == "settle":
			dl := time.Now().Add(3 * time.Second)
			for time.Now().Before(dl) && g.pending() > 0 {
				time.Sleep(5 * time.Millisecond)
			}
			time.Sleep(80 * time.Millisecond)
		}
	}
	g.hold(false)
	// watchdog: the log must drain and the callers must return
	done := make(chan struct{})
	go func() { wg.Wait(); close(done) }()
	stalled := ""
	dl := time.Now().Add(6 * time.Second)
	for time.Now().Before(dl) {
		if g.pending() == 0 {
			select {
			case <-done:
				dl = time.Now()
			default:
			}
		}
		time.Sleep(10 * time.Millisecond)
	}
	if g.pending() > 0 {
		stalled = stallSignature()
		if stalled == "" {
			stalled = "log not drained, no blocked anndb goroutine identified"
		}
	}
	// after draining, the node must still apply a further entry (it "keeps serving")
	serving := 1
	if stalled == "" {
		before := g.applied
		g.push(entry{conf: "+9"})
		time.Sleep(300 * time.Millisecond)
		g.mu.Lock()
		if g.applied == before {
			serving = 0
		}
		g.mu.Unlock()
		if serving == 0 {
			stalled = stallSignature()
		}
	}
	// a proposer of a catalogue change is answered once its entry has been applied: with the log drained and nothing
	// being applied any more, nobody still waits in DatasetManager for the outcome of a proposal (the allocator's
	// node-change worker proposes with a context that ends at shutdown only: an entry applied without its
	// notification blocks it, and every later membership change, for good).  Waiting inside a PARTITION's raft group
	// (no leader: its other replicas do not exist here) is something else and not judged.
	stale := 0
	if stalled == "" && serving == 1 {
		last, since := -1, time.Now()
		for dl := time.Now().Add(6 * time.Second); time.Now().Before(dl); time.Sleep(50 * time.Millisecond) {
			g.mu.Lock()
			a, pend := g.applied, len(g.queue)
			g.mu.Unlock()
			if a != last || pend != 0 {
				last, since = a, time.Now()
				continue
			}
			if waitingProposers() == 0 {
				break
			}
			if time.Since(since) > 3*time.Second {
				stale = 1
				break
			}
		}
	}
	// every raft group that runs belongs to a partition of a dataset of the catalogue that has it loaded: a group
	// that outlives its dataset, or a second one for the same partition, is a leak (it keeps ticking, campaigning
	// and writing the partition's log store)
	extra := 0
	if stalled == "" {
		for dl := time.Now().Add(3 * time.Second); ; time.Sleep(20 * time.Millisecond) {
			loaded := 0
			if lst, err := dm.List(context.Background(), false); err == nil {
				for _, m := range lst {
					id, _ := uuid.FromBytes(m.GetId())
					if ds, err := dm.Get(id); err == nil {
						for i := range m.GetPartitions() {
							if ds.VerifRaft(i) != nil {
								loaded++
							}
						}
					}
				}
			}
			extra = runningGroups() - loaded
			if extra <= 0 || time.Now().After(dl) {
				break
			}
		}
		if extra < 0 {
			extra = 0
		}
	}
	st := 0
	if stalled != "" {
		st = 1
	}
	enc.Encode(map[string]interface{}{"ev": "ctrl", "name": sc.Name, "steps": sc.Steps, "entries": nsteps, "applied": g.applied,
		"pending": g.pending(), "stalled": st, "signature": stalled, "serving": serving, "stale": stale, "extragroups": extra})
	f.Sync()
	os.Exit(0)
}
