// Command raftsim runs ONE scenario on a simulated cluster of real anndb nodes in
// one process (properties C05, C03): per node a Badger database, a cluster.Conn, a
// real RaftTransport behind a real gRPC server, and a real Dataset whose single
// partition is replicated on all nodes by a real RaftGroup.  A fault proxy in front
// of every node's transport drops / duplicates / delays messages and isolates
// crashed or partitioned nodes.  A crash is runtime.Goexit() of the ready-loop
// goroutine at a chosen boundary of a chosen cycle; a restart builds fresh objects
// on the same database, the way the server does (loadRaft with the partition's
// node ids).  Every boundary of every ready cycle is logged through the verif hooks.
//
//	raftsim <scenario.json> <trace.ndjson>
package main

import (
	"bytes"
	"context"
	"crypto/sha1"
	"encoding/json"
	"fmt"
	"io/ioutil"
	"math/rand"
	"net"
	"os"
	"runtime"
	"sort"
	"sync"
	"sync/atomic"
	"time"

	etcdRaft "github.com/coreos/etcd/raft"
	"github.com/coreos/etcd/raft/raftpb"
	badger "github.com/dgraph-io/badger/v2"
	"github.com/golang/protobuf/proto"
	"github.com/marekgalovic/anndb/cluster"
	"github.com/marekgalovic/anndb/index"
	"github.com/marekgalovic/anndb/index/space"
	amath "github.com/marekgalovic/anndb/math"
	pb "github.com/marekgalovic/anndb/protobuf"
	"github.com/marekgalovic/anndb/storage"
	"github.com/marekgalovic/anndb/storage/raft"
	"github.com/marekgalovic/anndb/storage/wal"
	uuid "github.com/satori/go.uuid"
	log "github.com/sirupsen/logrus"
	"google.golang.org/grpc"
	"verifharness/internal/hx"
)

type Scenario struct {
	N        int     `json:"n"`
	Seed     int64   `json:"seed"`
	Ops      int     `json:"ops"`      // client writes before the crash window closes
	OpsAfter int     `json:"opsafter"` // client writes after the restart
	Drop     float64 `json:"drop"`
	Dup      float64 `json:"dup"`
	Delay    float64 `json:"delay"`
	// crash plan: node index (1..N, 0 = none; -1 = the leader; -2 = a follower), the k-th ready cycle of
	// that node counted from the start of the client phase, and the boundary inside the cycle
	CrashNode    int    `json:"crashnode"`
	CrashCycle   int    `json:"crashcycle"`
	CrashPoint   string `json:"crashpoint"`   // ready|send1|presave|saved|snapinstalled|applied|send2|preadvance|advanced|snapshot
	Crash2       int    `json:"crash2"`       // a second node crashed (idle) together with the first: minority of 5
	RestartPeers string `json:"restartpeers"` // "all": loadRaft(partition node ids) as the allocator does | "none": loadRaft(nil)
	SnapAfter    bool   `json:"snapafter"`    // after the restart and two more writes every node is asked for a local snapshot again
	SlowSnapMs   int    `json:"slowsnapms"`   // serializing the index for a snapshot takes this long (0 = as fast as it is)
	SnapshotAt   int    `json:"snapshotat"`   // request a local snapshot on every node after this many client writes (0 = never)
	Partition    int    `json:"partition"`    // isolate this node (1..N) during the fault window (0 = none)
	Follower     bool   `json:"follower"`     // issue client writes through a follower's Dataset as well
	DropSnap     int    `json:"dropsnap"`     // lose this many snapshot messages (MsgSnap), also outside the fault window
	// force a leader to step down in the middle of the client phase: "vote" = an isolated follower with an
	// up-to-date log campaigns and its vote request reaches the leader first once the partition heals;
	// "app" = the isolated leader gets the new leader's delayed first append before any heartbeat
	StepDown string `json:"stepdown"`
	// "stepdown": the crash plan fires in the ready cycle in which the crash node stops being leader
	CrashWhen string `json:"crashwhen"`
	// membership of the group changes: only the first Initial nodes bootstrap the group (0 = all), the others
	// join later.  Conf = "lagging": a follower is away while nodes 4.. join and the others compact their logs,
	// catches up through a snapshot, snapshots locally, dies and restarts
	Initial int    `json:"initial"`
	Conf    string `json:"conf"`
}

type event map[string]interface{}

var (
	traceMu  sync.Mutex
	traceEnc *json.Encoder
	seq      int
)

var traceClosed bool

var (
	prevSnapMu sync.Mutex
	prevSnap   = map[int]int{}
)

func emit(e event) {
	traceMu.Lock()
	if traceClosed {
		traceMu.Unlock()
		return
	}
	if e["ev"] == "end" {
		traceClosed = true // the ready loops keep running until the process exits
	}
	seq++
	e["seq"] = seq
	traceEnc.Encode(e)
	traceMu.Unlock()
}

type node struct {
	idx       int
	id        uint64
	db        *badger.DB
	addr      string
	srv       *grpc.Server
	mu        sync.Mutex
	tr        *raft.RaftTransport
	conn      *cluster.Conn
	ds        *storage.Dataset
	up        bool
	cycles    int32 // ready cycles since the client phase began
	wasLeader bool  // role after the last soft-state change (ready loop goroutine only)
	sdCycle   int32 // the cycle in which the node stopped being leader
}

type shim struct {
	pb.UnimplementedRaftTransportServer
	n *node
	w *world
}

type world struct {
	sc         Scenario
	nodes      []*node
	rng        *rand.Rand
	rngMu      sync.Mutex
	faults     int32 // 1 while the fault window is open
	counting   int32
	meta       pb.Dataset
	crashed    chan *node
	crashArmed int32
	snapDrops  int32
	part       int32 // node isolated right now by a step-down scenario
	holdApp    int32 // appends to this node are delayed (not lost) while it is isolated
	holdNext   int32
	holdTurn   int32
	pid        uuid.UUID
	hbBlock    int32 // heartbeats to this node are lost until a delayed append or a vote request got through
	// conf = "snapapp": a lagging follower is handed the snapshot AND the appends behind it before its ready loop
	// looks again (one Ready with a snapshot and committed entries)
	choreo     int32 // 0 off | 1 detain the follower's next heartbeat response | 2 park its loop, let the next one through | 3 wait for the snapshot | 4 wait for the append | 5 done | 9 missed
	choreoNode int32
	parked     int32 // 1: the follower's ready loop waits at "advanced"
	detained   func()
}

func (s *shim) Receive(ctx context.Context, req *pb.RaftMessage) (*pb.EmptyMessage, error) {
	n := s.n
	n.mu.Lock()
	tr, up := n.tr, n.up
	n.mu.Unlock()
	if !up || tr == nil {
		return nil, fmt.Errorf("node down")
	}
	var m raftpb.Message
	m.Unmarshal(req.GetMessage())
	w := s.w
	if m.Type == raftpb.MsgSnap && atomic.AddInt32(&w.snapDrops, 1) <= int32(w.sc.DropSnap) {
		emit(event{"ev": "dropsnap", "node": n.idx})
		return nil, fmt.Errorf("snapshot message lost")
	}
	if c := atomic.LoadInt32(&w.choreo); c >= 1 && c <= 4 {
		f := uint64(atomic.LoadInt32(&w.choreoNode))
		switch {
		case c == 1 && m.From == f && m.Type == raftpb.MsgHeartbeatResp:
			// delayed, not lost: it reaches the leader after the snapshot was sent
			w.detained = func() { tr.Receive(context.Background(), req) }
			atomic.StoreInt32(&w.choreo, 2)
			return &pb.EmptyMessage{}, nil
		case c == 2 && m.From == f && m.Type == raftpb.MsgHeartbeatResp:
			atomic.StoreInt32(&w.parked, 1)
			atomic.StoreInt32(&w.choreo, 3)
		case c == 3 && m.To == f && m.Type == raftpb.MsgSnap:
			r, err := tr.Receive(ctx, req)
			atomic.StoreInt32(&w.choreo, 4)
			go func() {
				time.Sleep(15 * time.Millisecond) // the sender reports the snapshot as delivered first
				w.detained()
			}()
			return r, err
		case c == 4 && m.To == f && m.Type == raftpb.MsgApp && len(m.Entries) > 0:
			r, err := tr.Receive(ctx, req)
			time.Sleep(2 * time.Millisecond)
			atomic.StoreInt32(&w.choreo, 5)
			atomic.StoreInt32(&w.parked, 0)
			return r, err
		}
	}
	if p := int(atomic.LoadInt32(&w.part)); p != 0 && (int(m.From) == p || int(m.To) == p) {
		if int(m.To) == p && int(atomic.LoadInt32(&w.holdApp)) == p && m.Type == raftpb.MsgApp {
			// delayed, not lost: delivered in arrival order once the partition heals
			ticket := atomic.AddInt32(&w.holdNext, 1)
			for i := 0; i < 10000 && (atomic.LoadInt32(&w.part) != 0 || atomic.LoadInt32(&w.holdTurn)+1 != ticket); i++ {
				time.Sleep(time.Millisecond)
			}
			r, err := tr.Receive(context.Background(), req)
			time.Sleep(2 * time.Millisecond)
			atomic.StoreInt32(&w.holdTurn, ticket)
			atomic.CompareAndSwapInt32(&w.hbBlock, int32(p), 0)
			return r, err
		}
		return nil, fmt.Errorf("partitioned")
	}
	if b := int(atomic.LoadInt32(&w.hbBlock)); b != 0 && int(m.To) == b {
		if m.Type == raftpb.MsgHeartbeat {
			return nil, fmt.Errorf("heartbeat lost")
		}
		if m.Type == raftpb.MsgVote {
			defer atomic.CompareAndSwapInt32(&w.hbBlock, int32(b), 0)
		}
	}
	if atomic.LoadInt32(&w.faults) == 1 {
		if w.sc.Partition != 0 && (int(m.From) == w.sc.Partition || int(m.To) == w.sc.Partition) {
			return nil, fmt.Errorf("partitioned")
		}
		w.rngMu.Lock()
		x, y, z := w.rng.Float64(), w.rng.Float64(), w.rng.Float64()
		w.rngMu.Unlock()
		if x < w.sc.Drop {
			return nil, fmt.Errorf("dropped")
		}
		if z < w.sc.Delay {
			time.Sleep(time.Duration(1+int(z*1000)%7) * time.Millisecond)
		}
		if y < w.sc.Dup {
			tr.Receive(ctx, req)
		}
	}
	return tr.Receive(ctx, req)
}

func nodeList(ids []uint64) []int {
	out := []int{}
	for _, i := range ids {
		out = append(out, int(i))
	}
	sort.Ints(out)
	return out
}

func digest(b []byte) string {
	h := sha1.Sum(b)
	return fmt.Sprintf("%x", h[:4])
}

func ents(es []raftpb.Entry) [][]interface{} {
	out := [][]interface{}{}
	for _, e := range es {
		out = append(out, []interface{}{int(e.Index), int(e.Term), digest(e.Data), int(e.Type)})
	}
	return out
}

// decode renders the change an entry carries as [kind, id, val]
func decode(e *raftpb.Entry) []interface{} {
	if e.Type != raftpb.EntryNormal {
		var cc raftpb.ConfChange
		if err := cc.Unmarshal(e.Data); err == nil {
			k := 1
			if cc.Type == raftpb.ConfChangeRemoveNode {
				k = 2
			}
			return []interface{}{"conf", int(cc.NodeID), k}
		}
		return []interface{}{"conf", 0, 0}
	}
	if len(e.Data) == 0 {
		return []interface{}{"empty", 0, 0}
	}
	var c pb.PartitionChange
	if err := proto.Unmarshal(e.Data, &c); err != nil {
		return []interface{}{"undecodable", 0, 0}
	}
	num := func(b []byte) int {
		if len(b) != 16 {
			return -1
		}
		return int(b[14])<<8 | int(b[15])
	}
	val := func(v []float32) int {
		if len(v) == 0 {
			return 0
		}
		return int(v[0])
	}
	switch c.Type {
	case pb.PartitionChangeType_PartitionChangeInsertValue:
		return []interface{}{"insert", num(c.Id), val(c.Value)}
	case pb.PartitionChangeType_PartitionChangeUpdateValue:
		return []interface{}{"update", num(c.Id), val(c.Value)}
	case pb.PartitionChangeType_PartitionChangeDeleteValue:
		return []interface{}{"remove", num(c.Id), 0}
	case pb.PartitionChangeType_PartitionChangeBatchInsertValue:
		if len(c.BatchItems) > 0 {
			return []interface{}{"binsert", num(c.BatchItems[0].Id), val(c.BatchItems[0].Value)}
		}
	}
	return []interface{}{"other", 0, 0}
}

func (w *world) nodeById(id uint64) *node {
	for _, n := range w.nodes {
		if n.id == id {
			return n
		}
	}
	return nil
}

func (w *world) installHooks() {
	raft.VerifStart = func(id uint64, nodeIds []uint64, st wal.WAL) {
		fi, _ := st.FirstIndex()
		li, _ := st.LastIndex()
		hs, _, _ := st.InitialState()
		sn, _ := st.Snapshot()
		mode := "restart"
		if len(nodeIds) > 0 {
			mode = "start"
		}
		emit(event{"ev": "start", "node": int(id), "mode": mode, "first": int(fi), "last": int(li), "hsterm": int(hs.Term),
			"hsvote": int(hs.Vote), "hscommit": int(hs.Commit), "snapidx": int(sn.Metadata.Index), "peers": len(nodeIds),
			"snapnodes": nodeList(sn.Metadata.ConfState.Nodes)})
	}
	raft.VerifHook = func(g *raft.RaftGroup, point string, rd *etcdRaft.Ready, entry *raftpb.Entry, err error) {
		n := w.nodeById(g.VerifNodeId())
		if n == nil {
			return
		}
		switch point {
		case "ready":
			if atomic.LoadInt32(&w.counting) == 1 {
				atomic.AddInt32(&n.cycles, 1)
			}
			if rd.SoftState != nil {
				now := rd.SoftState.RaftState == etcdRaft.StateLeader
				if n.wasLeader && !now {
					atomic.StoreInt32(&n.sdCycle, atomic.LoadInt32(&n.cycles))
					emit(event{"ev": "stepdown", "node": n.idx, "cycle": int(atomic.LoadInt32(&n.cycles)), "nmsgs": len(rd.Messages), "nents": len(rd.Entries)})
				}
				n.wasLeader = now
			}
			quiet := len(rd.Entries) == 0 && len(rd.CommittedEntries) == 0 && etcdRaft.IsEmptySnap(rd.Snapshot) && etcdRaft.IsEmptyHardState(rd.HardState)
			if !quiet {
				emit(event{"ev": "ready", "node": n.idx, "term": int(rd.HardState.Term), "vote": int(rd.HardState.Vote), "commit": int(rd.HardState.Commit),
					"ents": ents(rd.Entries), "snapidx": int(rd.Snapshot.Metadata.Index), "committed": ents(rd.CommittedEntries), "nmsgs": len(rd.Messages)})
			}
		case "send1", "send2":
			ph := 1
			if point == "send2" {
				ph = 2
			}
			for _, m := range rd.Messages {
				if m.Type == raftpb.MsgHeartbeat || m.Type == raftpb.MsgHeartbeatResp {
					continue // carry no attestation; thousands per second under pumped ticks
				}
				rej := 0
				if m.Reject {
					rej = 1
				}
				emit(event{"ev": "send", "node": n.idx, "phase": ph, "type": m.Type.String(), "to": int(m.To), "term": int(m.Term),
					"index": int(m.Index), "logterm": int(m.LogTerm), "commit": int(m.Commit), "reject": rej, "nents": len(m.Entries)})
			}
		case "saved":
			if !etcdRaft.IsEmptySnap(rd.Snapshot) {
				prevSnapMu.Lock()
				prevSnap[n.idx] = int(rd.Snapshot.Metadata.Index)
				prevSnapMu.Unlock()
			}
			if len(rd.Entries) == 0 && etcdRaft.IsEmptySnap(rd.Snapshot) && etcdRaft.IsEmptyHardState(rd.HardState) {
				break
			}
			emit(event{"ev": "saved", "node": n.idx, "term": int(rd.HardState.Term), "vote": int(rd.HardState.Vote), "commit": int(rd.HardState.Commit),
				"ents": ents(rd.Entries), "snapidx": int(rd.Snapshot.Metadata.Index), "snapterm": int(rd.Snapshot.Metadata.Term)})
		case "snapinstalled":
			emit(event{"ev": "snapinstalled", "node": n.idx, "idx": int(rd.Snapshot.Metadata.Index)})
		case "applied":
			emit(event{"ev": "applied", "node": n.idx, "idx": int(entry.Index), "term": int(entry.Term), "digest": digest(entry.Data), "type": int(entry.Type),
				"chg": decode(entry)})
		case "snapshot":
			es := ""
			if err != nil {
				es = err.Error()
			}
			// what the local snapshot says about the group's membership (read back from the node's store)
			sn, _ := wal.NewBadgerWAL(n.db, w.pid).Snapshot()
			// prev: the index of the snapshot this node's store held at the previous observation (a call that
			// finds too few new entries leaves it as it is)
			prevSnapMu.Lock()
			prev := prevSnap[n.idx]
			prevSnap[n.idx] = int(sn.Metadata.Index)
			prevSnapMu.Unlock()
			emit(event{"ev": "snapshot", "node": n.idx, "err": es, "snapidx": int(sn.Metadata.Index), "prev": prev, "snapnodes": nodeList(sn.Metadata.ConfState.Nodes)})
		}
		if point == "advanced" && int32(n.id) == atomic.LoadInt32(&w.choreoNode) {
			for i := 0; i < 3000 && atomic.LoadInt32(&w.parked) == 1; i++ {
				time.Sleep(time.Millisecond)
			}
		}
		// crash plan
		due := int(atomic.LoadInt32(&n.cycles)) >= w.sc.CrashCycle
		if w.sc.CrashWhen == "stepdown" {
			due = atomic.LoadInt32(&n.sdCycle) > 0 && atomic.LoadInt32(&n.sdCycle) == atomic.LoadInt32(&n.cycles)
		}
		if atomic.LoadInt32(&w.crashArmed) == 1 && n.idx == w.sc.CrashNode && point == w.sc.CrashPoint && due {
			if atomic.CompareAndSwapInt32(&w.crashArmed, 1, 0) {
				n.mu.Lock()
				n.up = false
				n.mu.Unlock()
				emit(event{"ev": "crash", "node": n.idx, "point": point, "cycle": int(atomic.LoadInt32(&n.cycles))})
				w.crashed <- n
				runtime.Goexit()
			}
		}
	}
}

func (w *world) boot(n *node, peers []uint64) error {
	conn, err := cluster.NewConn(n.id, n.addr, "")
	if err != nil {
		return err
	}
	tr := raft.NewTransport(n.id, n.addr, conn)
	for _, o := range w.nodes {
		conn.AddNode(o.id, o.addr)
	}
	meta := w.meta
	if peers == nil {
		// a node that is added to the partition later: its catalogue lists the replicas so far, and applying the
		// entry "add this node" (partition.addNode) is what loads the group
		var others []uint64
		for _, id := range w.meta.Partitions[0].NodeIds {
			if id != n.id {
				others = append(others, id)
			}
		}
		meta.Partitions = []*pb.Partition{{Id: w.meta.Partitions[0].Id, NodeIds: others}}
	}
	ds, err := storage.NewVerifDataset(meta, n.db, tr, conn)
	if err != nil {
		return err
	}
	n.mu.Lock()
	n.conn, n.tr, n.ds = conn, tr, ds
	n.mu.Unlock()
	if peers == nil {
		ds.VerifAddNode(0, n.id)
		if ds.VerifRaft(0) == nil {
			return fmt.Errorf("partition.addNode did not load the raft group")
		}
	} else if err := ds.VerifLoadRaft(0, peers); err != nil {
		return err
	}
	n.mu.Lock()
	n.up = true
	n.mu.Unlock()
	return nil
}

func (w *world) raftOf(n *node) *raft.RaftGroup {
	n.mu.Lock()
	ds, up := n.ds, n.up
	n.mu.Unlock()
	if !up || ds == nil {
		return nil
	}
	return ds.VerifRaft(0)
}

func (w *world) leader() *node {
	for _, n := range w.nodes {
		if g := w.raftOf(n); g != nil {
			st := g.VerifNode().Status()
			if st.RaftState == etcdRaft.StateLeader {
				return n
			}
		}
	}
	return nil
}

func (w *world) waitLeader(d time.Duration) *node {
	dl := time.Now().Add(d)
	for time.Now().Before(dl) {
		if l := w.leader(); l != nil {
			return l
		}
		time.Sleep(3 * time.Millisecond)
	}
	return nil
}

func itemId(k int) uuid.UUID {
	var u uuid.UUID
	u[0], u[14], u[15] = 0x50, byte(k>>8), byte(k)
	return u
}

func dump(ds *storage.Dataset) [][]interface{} { return dumpIndex(ds.VerifPartitionIndex(0)) }

func dumpIndex(ix *index.Hnsw) [][]interface{} {
	st := ix.VerifDump()
	out := [][]interface{}{}
	for _, v := range st.Vertices {
		if v.Stored {
			ks := []string{}
			for k, x := range v.Metadata {
				ks = append(ks, k+"="+x)
			}
			sort.Strings(ks)
			out = append(out, []interface{}{int(v.Id[14])<<8 | int(v.Id[15]), int(v.Vector[0]), fmt.Sprint(ks)})
		}
	}
	sort.Slice(out, func(i, j int) bool { return out[i][0].(int) < out[j][0].(int) })
	return out
}

func main() {
	b, err := ioutil.ReadFile(os.Args[1])
	if err != nil {
		panic(err)
	}
	var sc Scenario
	if err := json.Unmarshal(b, &sc); err != nil {
		panic(err)
	}
	f, _ := os.Create(os.Args[2])
	defer f.Close()
	traceEnc = json.NewEncoder(f)
	log.StandardLogger().ExitFunc = func(code int) {
		emit(event{"ev": "fatal", "node": 0, "msg": "log.Fatal in the ready loop"})
		f.Sync()
		os.Exit(3)
	}
	_ = hx.J
	w := &world{sc: sc, rng: rand.New(rand.NewSource(sc.Seed)), crashed: make(chan *node, 4)}
	var pid uuid.UUID
	pid[0], pid[15] = 0x20, 1
	w.pid = pid
	ids := []uint64{}
	for i := 1; i <= sc.N; i++ {
		ids = append(ids, uint64(i))
	}
	if sc.SlowSnapMs > 0 {
		storage.VerifGate = func(point string, i int) {
			if point == "snapshot.serialize" {
				time.Sleep(time.Duration(sc.SlowSnapMs) * time.Millisecond)
			}
		}
	}
	w.meta = pb.Dataset{Id: uuid.NewV4().Bytes(), Dimension: 2, Space: pb.Space_Euclidean, PartitionCount: 1, ReplicationFactor: uint32(sc.N),
		Partitions: []*pb.Partition{{Id: pid.Bytes(), NodeIds: ids}}}
	w.installHooks()
	for i := 1; i <= sc.N; i++ {
		db, err := badger.Open(badger.DefaultOptions("").WithInMemory(true).WithLogger(nil))
		if err != nil {
			panic(err)
		}
		n := &node{idx: i, id: uint64(i), db: db}
		lis, err := net.Listen("tcp", "127.0.0.1:0")
		if err != nil {
			panic(err)
		}
		n.addr = lis.Addr().String()
		n.srv = grpc.NewServer()
		pb.RegisterRaftTransportServer(n.srv, &shim{n: n, w: w})
		go n.srv.Serve(lis)
		w.nodes = append(w.nodes, n)
	}
	initial := ids
	if sc.Initial > 0 && sc.Initial < sc.N {
		initial = ids[:sc.Initial]
	}
	for _, n := range w.nodes[:len(initial)] {
		if err := w.boot(n, initial); err != nil {
			panic(err)
		}
	}
	// harness-pumped ticks on top of the production ticker
	stopTicks := make(chan struct{})
	go func() {
		for {
			select {
			case <-stopTicks:
				return
			default:
			}
			for _, n := range w.nodes {
				if g := w.raftOf(n); g != nil {
					g.VerifNode().Tick()
				}
			}
			time.Sleep(2 * time.Millisecond)
		}
	}()
	if w.waitLeader(10*time.Second) == nil {
		emit(event{"ev": "end", "converged": 0, "why": "no leader after start"})
		return
	}
	// resolve symbolic crash targets
	if sc.CrashNode < 0 {
		l := w.leader()
		for _, n := range w.nodes {
			if (sc.CrashNode == -1 && n == l) || (sc.CrashNode == -2 && n != l) {
				w.sc.CrashNode = n.idx
				break
			}
		}
	}
	emit(event{"ev": "phase", "name": "client", "crashnode": w.sc.CrashNode})
	atomic.StoreInt32(&w.counting, 1)
	atomic.StoreInt32(&w.faults, 1)
	if w.sc.CrashNode > 0 {
		atomic.StoreInt32(&w.crashArmed, 1)
	}
	opn := 0
	var forceVia *node
	client := func(k int) {
		for i := 0; i < k; i++ {
			opn++
			// pick the node to talk to
			var via *node
			if forceVia != nil {
				via = forceVia
			} else if sc.Follower && opn%2 == 0 {
				for _, n := range w.nodes {
					if w.raftOf(n) != nil && n != w.leader() {
						via = n
						break
					}
				}
			}
			if via == nil {
				via = w.waitLeader(3 * time.Second)
			}
			if via == nil || w.raftOf(via) == nil {
				emit(event{"ev": "submit", "op": opn, "kind": "none", "id": 0, "val": 0})
				emit(event{"ev": "ack", "op": opn, "res": "noleader", "kind": "none", "id": 0, "val": 0, "errs": ""})
				continue
			}
			kind := []string{"insert", "insert", "insert", "update", "remove", "binsert"}[w.rng.Intn(6)]
			id := 1 + w.rng.Intn(6)
			val := opn
			emit(event{"ev": "submit", "op": opn, "kind": kind, "id": id, "val": val, "via": via.idx})
			ctx, cancel := context.WithTimeout(context.Background(), 700*time.Millisecond)
			var err error
			res := ""
			via.mu.Lock()
			ds := via.ds
			via.mu.Unlock()
			func() {
				defer func() {
					if r := recover(); r != nil {
						err = fmt.Errorf("panic: %v", r)
					}
				}()
				switch kind {
				case "insert":
					err = ds.Insert(ctx, itemId(id), amath.Vector{float32(val), 0}, index.Metadata{"v": fmt.Sprint(val)})
				case "update":
					err = ds.Update(ctx, itemId(id), amath.Vector{float32(val), 0}, index.Metadata{"u": fmt.Sprint(val)})
				case "remove":
					err = ds.Remove(ctx, itemId(id))
				case "binsert":
					var errs map[uuid.UUID]error
					errs, err = ds.BatchInsert(ctx, []*pb.BatchItem{{Id: itemId(id).Bytes(), Value: []float32{float32(val), 0}},
						{Id: itemId(id + 10).Bytes(), Value: []float32{float32(val), 0}}})
					if err == nil {
						res = "batch"
						ks := []string{}
						for u, e := range errs {
							ks = append(ks, fmt.Sprintf("%d:%s", int(u[15]), hx.ErrClass(e.Error())))
						}
						sort.Strings(ks)
						res = "batch" + fmt.Sprint(ks)
					}
				}
			}()
			cancel()
			if res == "" {
				if err == nil {
					res = "ok"
				} else {
					res = hx.ErrClass(err.Error())
					if len(res) > 4 && res[:4] == "err:" {
						res = "err"
					}
				}
			}
			errs := ""
			if len(res) > 5 && res[:5] == "batch" {
				errs, res = res[5:], "batch"
			}
			emit(event{"ev": "ack", "op": opn, "res": res, "kind": kind, "id": id, "val": val, "errs": errs})
			if sc.SnapshotAt > 0 && opn == sc.SnapshotAt {
				for _, n := range w.nodes {
					if g := w.raftOf(n); g != nil {
						func() {
							done := make(chan struct{})
							go func() { g.VerifRequestSnapshot(0); close(done) }()
							select {
							case <-done:
							case <-time.After(300 * time.Millisecond):
							}
						}()
					}
				}
			}
		}
	}
	if sc.Conf == "joiner" {
		// a node joins the group later, the way partition.addNode does it: loadRaft(nil) on the new node (empty
		// log, no peers), a membership change proposed by the leader.  The crash plan names the joiner: it dies
		// at a boundary of one of its first ready cycles - when all it has made durable is a term / a vote, or
		// its first entries, or the snapshot it was sent - and restarts with the partition's node list, as the
		// allocator restarts every replica
		client(3)
		for _, n := range w.nodes[len(initial):] {
			if err := w.boot(n, nil); err != nil {
				emit(event{"ev": "fatal", "node": n.idx, "msg": "join boot failed: " + err.Error()})
				continue
			}
			for try := 0; try < 50; try++ {
				if ld := w.waitLeader(2 * time.Second); ld != nil {
					if g := w.raftOf(ld); g != nil {
						go g.ProposeJoin(n.id, "")
					}
				}
				joined := false
				for i := 0; i < 100 && !joined; i++ {
					time.Sleep(2 * time.Millisecond)
					if ld := w.leader(); ld != nil {
						if g := w.raftOf(ld); g != nil {
							_, joined = g.VerifNode().Status().Progress[n.id]
						}
					}
				}
				if joined {
					emit(event{"ev": "joined", "node": n.idx})
					break
				}
			}
			client(1)
		}
	}
	if sc.Conf == "snapapp" {
		client(2)
		snap := func(n *node) {
			if g := w.raftOf(n); g != nil {
				done := make(chan struct{})
				go func() { g.VerifRequestSnapshot(0); close(done) }()
				select {
				case <-done:
				case <-time.After(300 * time.Millisecond):
				}
			}
		}
		if l := w.waitLeader(3 * time.Second); l != nil {
			var away *node
			for _, n := range w.nodes {
				if n != l && w.raftOf(n) != nil {
					away = n
				}
			}
			atomic.StoreInt32(&w.part, int32(away.idx))
			emit(event{"ev": "isolated", "node": away.idx})
			client(4)
			for _, n := range w.nodes {
				if n != away {
					snap(n)
				}
			}
			client(3)
			atomic.StoreInt32(&w.choreoNode, int32(away.id))
			atomic.StoreInt32(&w.choreo, 1)
			atomic.StoreInt32(&w.part, 0)
			for dl := time.Now().Add(3 * time.Second); time.Now().Before(dl) && atomic.LoadInt32(&w.choreo) != 5; {
				time.Sleep(time.Millisecond)
			}
			if !atomic.CompareAndSwapInt32(&w.choreo, 5, 0) {
				emit(event{"ev": "choreo", "reached": int(atomic.LoadInt32(&w.choreo))})
				atomic.StoreInt32(&w.choreo, 9)
			} else {
				emit(event{"ev": "choreo", "reached": 5})
			}
			atomic.StoreInt32(&w.parked, 0)
			client(2)
		}
	}
	if sc.Conf == "lagging" {
		client(3)
		appliedOf := func(n *node) uint64 {
			if g := w.raftOf(n); g != nil {
				return g.VerifNode().Status().Applied
			}
			return 0
		}
		snap := func(n *node) {
			if g := w.raftOf(n); g != nil {
				done := make(chan struct{})
				go func() { g.VerifRequestSnapshot(0); close(done) }()
				select {
				case <-done:
				case <-time.After(300 * time.Millisecond):
				}
			}
		}
		if l := w.waitLeader(3 * time.Second); l != nil {
			var away *node
			for _, n := range w.nodes[:len(initial)] {
				if n != l {
					away = n
				}
			}
			emit(event{"ev": "isolate", "node": away.idx})
			atomic.StoreInt32(&w.part, int32(away.idx))
			// the other nodes join one by one, the way partition.addNode does: loadRaft(nil) on the new node,
			// a membership change proposed by the leader
			for _, n := range w.nodes[len(initial):] {
				if err := w.boot(n, nil); err != nil {
					emit(event{"ev": "fatal", "node": n.idx, "msg": "join boot failed: " + err.Error()})
					continue
				}
				for try := 0; try < 50; try++ {
					if ld := w.waitLeader(2 * time.Second); ld != nil {
						if g := w.raftOf(ld); g != nil {
							go g.ProposeJoin(n.id, "")
						}
					}
					joined := false
					for i := 0; i < 100 && !joined; i++ {
						time.Sleep(2 * time.Millisecond)
						if ld := w.leader(); ld != nil {
							if g := w.raftOf(ld); g != nil {
								_, joined = g.VerifNode().Status().Progress[n.id]
							}
						}
					}
					if joined {
						emit(event{"ev": "joined", "node": n.idx})
						break
					}
				}
				client(1)
			}
			client(2)
			for _, n := range w.nodes {
				if n != away {
					snap(n)
				}
			}
			client(2)
			atomic.StoreInt32(&w.part, 0)
			emit(event{"ev": "heal", "node": away.idx})
			for dl := time.Now().Add(5 * time.Second); time.Now().Before(dl); {
				if ld := w.leader(); ld != nil && appliedOf(away) >= appliedOf(ld) && appliedOf(ld) > 0 {
					break
				}
				time.Sleep(5 * time.Millisecond)
			}
			client(3)
			snap(away)
			client(1)
			// the node dies while idle and restarts from what it stored
			away.mu.Lock()
			away.up = false
			ds := away.ds
			away.ds, away.tr = nil, nil
			away.mu.Unlock()
			emit(event{"ev": "crash", "node": away.idx, "point": "idle", "cycle": 0})
			if ds != nil {
				if g := ds.VerifRaft(0); g != nil {
					g.Stop()
					g.VerifForget()
				}
			}
			client(1)
			emit(event{"ev": "restart", "node": away.idx, "peers": len(ids)})
			if err := w.boot(away, ids); err != nil {
				emit(event{"ev": "fatal", "node": away.idx, "msg": "restart failed: " + err.Error()})
			}
		}
	}
	if sc.StepDown != "" {
		client(2)
		l := w.waitLeader(3 * time.Second)
		termOf := func(n *node) uint64 {
			if g := w.raftOf(n); g != nil {
				return g.VerifNode().Status().Term
			}
			return 0
		}
		if l != nil {
			var other *node
			for _, n := range w.nodes {
				if n != l && w.raftOf(n) != nil {
					other = n
					break
				}
			}
			t0 := termOf(l)
			switch sc.StepDown {
			case "vote":
				// nothing is written while the follower is away: its log stays as good as the leader's
				emit(event{"ev": "isolate", "node": other.idx})
				atomic.StoreInt32(&w.part, int32(other.idx))
				for dl := time.Now().Add(5 * time.Second); time.Now().Before(dl) && termOf(other) <= t0; {
					time.Sleep(time.Millisecond)
				}
				atomic.StoreInt32(&w.hbBlock, int32(other.idx)) // it must not hear from the leader before its request is out
				atomic.StoreInt32(&w.part, 0)
				emit(event{"ev": "heal", "node": other.idx})
				for dl := time.Now().Add(3 * time.Second); time.Now().Before(dl) && termOf(l) <= t0; {
					time.Sleep(time.Millisecond)
				}
				atomic.StoreInt32(&w.hbBlock, 0)
			case "app":
				emit(event{"ev": "isolate", "node": l.idx})
				atomic.StoreInt32(&w.holdApp, int32(l.idx))
				atomic.StoreInt32(&w.part, int32(l.idx))
				var l2 *node
				for dl := time.Now().Add(5 * time.Second); time.Now().Before(dl) && l2 == nil; {
					for _, n := range w.nodes {
						if g := w.raftOf(n); n != l && g != nil {
							if st := g.VerifNode().Status(); st.RaftState == etcdRaft.StateLeader && st.Term > t0 {
								l2 = n
							}
						}
					}
					time.Sleep(time.Millisecond)
				}
				// writes through the isolated old leader are appended to its log and never commit: a suffix
				// that the new leader's first append has to cut off (and that must stay cut off)
				forceVia = l
				client(3)
				forceVia = nil
				if l2 != nil {
					forceVia = l2
					client(1)
					forceVia = nil
				}
				atomic.StoreInt32(&w.hbBlock, int32(l.idx))
				atomic.StoreInt32(&w.part, 0)
				emit(event{"ev": "heal", "node": l.idx})
				for dl := time.Now().Add(3 * time.Second); time.Now().Before(dl) && termOf(l) <= t0; {
					time.Sleep(time.Millisecond)
				}
				atomic.StoreInt32(&w.hbBlock, 0)
				atomic.StoreInt32(&w.holdApp, 0)
			}
			time.Sleep(30 * time.Millisecond)
		}
	}
	client(sc.Ops)
	// crash bookkeeping: stop the dead node's raft objects (another goroutine than the dead ready loop)
	var dead []*node
	select {
	case n := <-w.crashed:
		dead = append(dead, n)
	default:
		if atomic.CompareAndSwapInt32(&w.crashArmed, 1, 0) && w.sc.CrashNode > 0 {
			// the planned boundary was never reached: crash the node while idle instead
			n := w.nodes[w.sc.CrashNode-1]
			n.mu.Lock()
			n.up = false
			n.mu.Unlock()
			emit(event{"ev": "crash", "node": n.idx, "point": "idle", "cycle": int(atomic.LoadInt32(&n.cycles))})
			dead = append(dead, n)
		}
	}
	if len(dead) > 0 && sc.Crash2 > 0 && sc.Crash2 != dead[0].idx {
		n := w.nodes[sc.Crash2-1]
		n.mu.Lock()
		n.up = false
		n.mu.Unlock()
		emit(event{"ev": "crash", "node": n.idx, "point": "idle", "cycle": 0})
		dead = append(dead, n)
	}
	for _, n := range dead {
		n.mu.Lock()
		ds := n.ds
		n.ds, n.tr = nil, nil
		n.mu.Unlock()
		if ds != nil {
			if g := ds.VerifRaft(0); g != nil {
				g.Stop()
				g.VerifForget()
			}
		}
	}
	// the survivors keep serving
	client(sc.OpsAfter)
	atomic.StoreInt32(&w.faults, 0)
	// restart the dead nodes the way the server does
	for _, n := range dead {
		peers := ids
		if sc.RestartPeers == "none" {
			peers = nil
		}
		emit(event{"ev": "restart", "node": n.idx, "peers": len(peers)})
		if err := w.boot(n, peers); err != nil {
			emit(event{"ev": "fatal", "node": n.idx, "msg": "restart failed: " + err.Error()})
		}
	}
	client(2)
	if sc.SnapAfter {
		// a replica that restarted from its stored snapshot snapshots again: what it stores must describe the group
		for _, n := range w.nodes {
			if g := w.raftOf(n); g != nil {
				func() {
					done := make(chan struct{})
					go func() { g.VerifRequestSnapshot(0); close(done) }()
					select {
					case <-done:
					case <-time.After(300 * time.Millisecond):
					}
				}()
			}
		}
		client(1)
	}
	// convergence: every live node applied the same index, and at least everything acknowledged
	conv := 0
	why := ""
	dl := time.Now().Add(15 * time.Second) // ends as soon as the replicas agree: only costs time when they do not
	for time.Now().Before(dl) {
		same := true
		var d0 string
		for i, n := range w.nodes {
			n.mu.Lock()
			ds := n.ds
			n.mu.Unlock()
			if ds == nil {
				continue
			}
			d := fmt.Sprint(dump(ds))
			if i == 0 || d0 == "" {
				d0 = d
			} else if d != d0 {
				same = false
			}
		}
		if same && w.leader() != nil {
			conv = 1
			break
		}
		time.Sleep(20 * time.Millisecond)
	}
	if conv == 0 {
		why = "replica contents still differ 15 s after the faults stopped"
	}
	close(stopTicks)
	if sc.SlowSnapMs > 0 {
		// a serialization that is still under way ends before the stores are read
		time.Sleep(time.Duration(2*sc.SlowSnapMs+50) * time.Millisecond)
	}
	for _, n := range w.nodes {
		n.mu.Lock()
		ds := n.ds
		n.mu.Unlock()
		if ds != nil {
			var st etcdRaft.Status
			if g := ds.VerifRaft(0); g != nil {
				st = g.VerifNode().Status()
			}
			// the snapshot in the node's store, as a restart or a lagging follower would load it
			if sn, err := wal.NewBadgerWAL(n.db, w.pid).Snapshot(); err == nil && sn.Metadata.Index > 0 && len(sn.Data) > 0 {
				ix := index.NewHnsw(2, space.NewEuclidean())
				if err := ix.Load(bytes.NewReader(sn.Data), false); err == nil {
					emit(event{"ev": "snapcontent", "node": n.idx, "idx": int(sn.Metadata.Index), "items": dumpIndex(ix)})
				} else {
					emit(event{"ev": "panic", "node": n.idx, "what": "stored snapshot does not load: " + err.Error()})
				}
			}
			emit(event{"ev": "final", "node": n.idx, "items": dump(ds), "term": int(st.Term), "commit": int(st.Commit), "applied": int(st.Applied)})
		}
	}
	emit(event{"ev": "end", "converged": conv, "why": why})
	f.Sync()
	os.Exit(0)
}
