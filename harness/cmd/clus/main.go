// Command clus drives a cluster of REAL anndb server processes (cmd/anndbnode) on
// loopback ports with on-disk data directories (L2; properties C14, C20, C18 restart):
// joins, dataset create / delete, zero-group snapshots (SIGUSR1), kill -9 and restart.
// It records acknowledged operations and, after each step, every live node's view
// of the catalogue and of the membership.
//
//	clus <anndbnode-binary> <workdir> <trace.ndjson> <scenario>   scenario: basic | snapshot | wiring | leave | lagging
package main

import (
	"bufio"
	"bytes"
	"context"
	"encoding/json"
	"fmt"
	"io"
	"os"
	"os/exec"
	"path/filepath"
	"sort"
	"strings"
	"sync"
	"syscall"
	"time"
	"verifharness/internal/hx"

	pb "github.com/marekgalovic/anndb/protobuf"
	uuid "github.com/satori/go.uuid"
	"google.golang.org/grpc"
)

type event map[string]interface{}

var enc *json.Encoder
var encMu sync.Mutex

func emit(e event) {
	encMu.Lock()
	enc.Encode(e)
	encMu.Unlock()
}

type proc struct {
	id    int
	port  string
	dir   string
	join  string
	cmd   *exec.Cmd
	ready chan string
	died  chan string
	conn  *grpc.ClientConn
	alive bool
	out   *safeBuf
	// the start is a join attempt that may legitimately be refused (reported as such, not as a failed start)
	joinAttempt bool
}

type safeBuf struct {
	mu sync.Mutex
	b  []string
}

func (s *safeBuf) add(l string) {
	s.mu.Lock()
	s.b = append(s.b, l)
	if len(s.b) > 400 {
		s.b = s.b[len(s.b)-400:]
	}
	s.mu.Unlock()
}
func (s *safeBuf) tail() string {
	s.mu.Lock()
	defer s.mu.Unlock()
	for i := len(s.b) - 1; i >= 0; i-- {
		if strings.HasPrefix(s.b[i], "panic:") || strings.Contains(s.b[i], "fatal") || strings.Contains(s.b[i], "level=fatal") || strings.HasPrefix(s.b[i], "RUN-ERROR") || strings.HasPrefix(s.b[i], "JOIN-ERROR") {
			return s.b[i]
		}
	}
	if len(s.b) > 0 {
		return s.b[len(s.b)-1]
	}
	return ""
}

var bin, work string

func freePort() string { return hx.FreePort() }

func (p *proc) start(env ...string) bool {
	args := []string{"-port", p.port, "-data-dir", p.dir, "-node-id", fmt.Sprint(p.id)}
	if p.join != "" {
		args = append(args, "-join", p.join)
	}
	p.cmd = exec.Command(bin, args...)
	p.cmd.Env = append(os.Environ(), env...)
	so, _ := p.cmd.StdoutPipe()
	se, _ := p.cmd.StderrPipe()
	p.ready = make(chan string, 1)
	p.died = make(chan string, 1)
	p.out = &safeBuf{}
	if err := p.cmd.Start(); err != nil {
		panic(err)
	}
	rd := func(r io.Reader) {
		sc := bufio.NewScanner(r)
		sc.Buffer(make([]byte, 1<<16), 1<<22)
		for sc.Scan() {
			l := sc.Text()
			p.out.add(l)
			if d := os.Getenv("VERIF_CLUS_LOG"); d != "" {
				if lf, err := os.OpenFile(filepath.Join(d, fmt.Sprintf("node%d.log", p.id)), os.O_APPEND|os.O_CREATE|os.O_WRONLY, 0644); err == nil {
					lf.WriteString(l + "\n")
					lf.Close()
				}
			}
			if strings.HasPrefix(l, "READY") {
				select {
				case p.ready <- l:
				default:
				}
			}
		}
	}
	go rd(so)
	go rd(se)
	cmd := p.cmd
	go func() {
		err := cmd.Wait()
		p.died <- fmt.Sprint(err)
	}()
	select {
	case <-p.ready:
		p.alive = true
		if p.conn != nil {
			p.conn.Close()
		}
		p.conn, _ = grpc.Dial("127.0.0.1:"+p.port, grpc.WithInsecure())
		if p.joinAttempt {
			emit(event{"ev": "joinattempt", "node": p.id, "addr": ":" + p.port, "ack": 1, "msg": ""})
		} else {
			emit(event{"ev": "started", "node": p.id, "ok": 1, "msg": ""})
		}
		return true
	case d := <-p.died:
		p.alive = false
		if p.joinAttempt {
			emit(event{"ev": "joinattempt", "node": p.id, "addr": ":" + p.port, "ack": 0, "msg": d + " | " + p.out.tail()})
		} else {
			emit(event{"ev": "started", "node": p.id, "ok": 0, "msg": d + " | " + p.out.tail()})
		}
		return false
	case <-time.After(25 * time.Second):
		p.alive = false
		p.cmd.Process.Kill()
		emit(event{"ev": "started", "node": p.id, "ok": 0, "msg": "not ready after 25 s | " + p.out.tail()})
		return false
	}
}

func (p *proc) kill() {
	if p.cmd != nil && p.cmd.Process != nil {
		p.cmd.Process.Signal(syscall.SIGKILL)
		select {
		case <-p.died:
		case <-time.After(3 * time.Second):
		}
	}
	p.alive = false
	emit(event{"ev": "killed", "node": p.id})
}

func (p *proc) checkAlive() bool {
	if !p.alive {
		return false
	}
	select {
	case d := <-p.died:
		p.alive = false
		emit(event{"ev": "died", "node": p.id, "msg": d + " | " + p.out.tail()})
		return false
	default:
		return true
	}
}

type dsView struct {
	Id    string     `json:"id"`
	Dim   int        `json:"dim"`
	Space int        `json:"space"`
	Parts [][]string `json:"parts"` // [partition id, sorted node ids...]
}

func catalogue(p *proc) ([]dsView, error) {
	ctx, cancel := context.WithTimeout(context.Background(), 3*time.Second)
	defer cancel()
	st, err := pb.NewDatasetManagerClient(p.conn).List(ctx, &pb.ListDatasetsRequest{})
	if err != nil {
		return nil, err
	}
	out := []dsView{}
	for {
		d, err := st.Recv()
		if err == io.EOF {
			break
		}
		if err != nil {
			return nil, err
		}
		id, _ := uuid.FromBytes(d.GetId())
		v := dsView{Id: id.String(), Dim: int(d.GetDimension()), Space: int(d.GetSpace()), Parts: [][]string{}}
		for _, pt := range d.GetPartitions() {
			pid, _ := uuid.FromBytes(pt.GetId())
			row := []string{pid.String()}
			ns := []string{}
			for _, n := range pt.GetNodeIds() {
				ns = append(ns, fmt.Sprint(n))
			}
			sort.Strings(ns)
			v.Parts = append(v.Parts, append(row, ns...))
		}
		out = append(out, v)
	}
	sort.Slice(out, func(i, j int) bool { return out[i].Id < out[j].Id })
	return out, nil
}

func members(p *proc) (map[string]string, error) {
	ctx, cancel := context.WithTimeout(context.Background(), 3*time.Second)
	defer cancel()
	st, err := pb.NewNodesManagerClient(p.conn).ListNodes(ctx, &pb.EmptyMessage{})
	if err != nil {
		return nil, err
	}
	out := map[string]string{}
	for {
		n, err := st.Recv()
		if err == io.EOF {
			break
		}
		if err != nil {
			return nil, err
		}
		out[fmt.Sprint(n.GetId())] = n.GetAddress()
	}
	return out, nil
}

func observe(ps []*proc, tag string) {
	type nv struct {
		p      *proc
		c      []dsView
		m      map[string]string
		e1, e2 error
		key    string
	}
	read := func() []nv {
		out := []nv{}
		for _, p := range ps {
			if p.checkAlive() {
				c, e1 := catalogue(p)
				m, e2 := members(p)
				b, _ := json.Marshal([]interface{}{c, m})
				out = append(out, nv{p, c, m, e1, e2, string(b)})
			}
		}
		return out
	}
	// The views that are logged are the ones that were compared: two consecutive rounds in which every live
	// node gave the same answer (replica sets keep changing in the background while the allocators work, so
	// views read at different moments may differ without anything being wrong).  Without agreement within
	// the deadline the last round is logged as it is.
	var last string
	var cur []nv
	dl := time.Now().Add(45 * time.Second)
	for {
		cur = read()
		all := ""
		agree := true
		for i, v := range cur {
			all += v.key
			if i > 0 && v.key != cur[0].key {
				agree = false
			}
		}
		if (all == last && agree) || !time.Now().Before(dl) {
			break
		}
		last = all
		time.Sleep(500 * time.Millisecond)
	}
	for _, v := range cur {
		es := ""
		if v.e1 != nil {
			es += "catalogue: " + v.e1.Error() + " "
		}
		if v.e2 != nil {
			es += "members: " + v.e2.Error()
		}
		c, m := v.c, v.m
		if c == nil {
			c = []dsView{}
		}
		if m == nil {
			m = map[string]string{}
		}
		emit(event{"ev": "view", "node": v.p.id, "after": tag, "datasets": c, "members": m, "err": es})
	}
}

// datasets alternate between the euclidean and the manhattan metric (both are written to and searched with a
// zero query); createDesc creates one with a given dimension and metric (cosine datasets are never searched)
var createSeq int

func nextSpace() pb.Space {
	createSeq++
	if createSeq%2 == 0 {
		return pb.Space_Manhattan
	}
	return pb.Space_Euclidean
}

func createRetry(p *proc, parts, repl, tries int) string {
	for i := 0; i < tries-1; i++ {
		ctx, cancel := context.WithTimeout(context.Background(), 5*time.Second)
		sp := nextSpace()
		d, err := pb.NewDatasetManagerClient(p.conn).Create(ctx, &pb.Dataset{Dimension: 3, Space: sp, PartitionCount: uint32(parts), ReplicationFactor: uint32(repl)})
		cancel()
		if err == nil {
			id, _ := uuid.FromBytes(d.GetId())
			pids := []string{}
			for _, pt := range d.GetPartitions() {
				pid, _ := uuid.FromBytes(pt.GetId())
				pids = append(pids, pid.String())
			}
			emit(event{"ev": "create", "via": p.id, "ok": 1, "id": id.String(), "err": "", "parts": pids, "dim": 3, "space": int(sp)})
			return id.String()
		}
		time.Sleep(700 * time.Millisecond)
	}
	return create(p, parts, repl)
}

func create(p *proc, parts, repl int) string { return createDesc(p, parts, repl, 3, nextSpace()) }

func createDesc(p *proc, parts, repl, dim int, sp pb.Space) string {
	ctx, cancel := context.WithTimeout(context.Background(), 5*time.Second)
	defer cancel()
	d, err := pb.NewDatasetManagerClient(p.conn).Create(ctx, &pb.Dataset{Dimension: uint32(dim), Space: sp, PartitionCount: uint32(parts), ReplicationFactor: uint32(repl)})
	if err != nil {
		emit(event{"ev": "create", "via": p.id, "ok": 0, "id": "", "err": err.Error(), "parts": []string{}, "dim": dim, "space": int(sp)})
		return ""
	}
	id, _ := uuid.FromBytes(d.GetId())
	pids := []string{}
	for _, pt := range d.GetPartitions() {
		pid, _ := uuid.FromBytes(pt.GetId())
		pids = append(pids, pid.String())
	}
	emit(event{"ev": "create", "via": p.id, "ok": 1, "id": id.String(), "err": "", "parts": pids, "dim": dim, "space": int(sp)})
	return id.String()
}

// get reads one dataset descriptor through the DatasetManager.Get RPC (a read: nothing may change)
func get(p *proc, id string) {
	if id == "" {
		return
	}
	u, _ := uuid.FromString(id)
	ctx, cancel := context.WithTimeout(context.Background(), 3*time.Second)
	defer cancel()
	_, err := pb.NewDatasetManagerClient(p.conn).Get(ctx, &pb.GetDatasetRequest{DatasetId: u.Bytes()})
	es := ""
	if err != nil {
		es = err.Error()
	}
	emit(event{"ev": "get", "via": p.id, "id": id, "err": es})
}

func writeItem(ds string, kind string, via *proc, k int) { writeItemN(ds, kind, via, k, 6) }

func writeItemN(ds string, kind string, via *proc, k int, tries int) {
	u, _ := uuid.FromString(ds)
	emit(event{"ev": "wsubmit", "kind": kind, "id": k})
	var err error
	uncertain, allErrs := false, ""
	for try := 0; try < tries; try++ {
		ctx, cancel := context.WithTimeout(context.Background(), 3*time.Second)
		cl := pb.NewDataManagerClient(via.conn)
		switch kind {
		case "insert":
			_, err = cl.Insert(ctx, &pb.InsertRequest{DatasetId: u.Bytes(), Id: wid(k), Value: []float32{float32(k), 1, 0}, Metadata: map[string]string{"k": fmt.Sprint(k)}})
		case "update":
			_, err = cl.Update(ctx, &pb.UpdateRequest{DatasetId: u.Bytes(), Id: wid(k), Value: []float32{float32(k), 1.5, 0}}) // under either metric still between its neighbours, no ties
		case "remove":
			_, err = cl.Remove(ctx, &pb.RemoveRequest{DatasetId: u.Bytes(), Id: wid(k)})
		}
		cancel()
		if err == nil || strings.Contains(err.Error(), "exists") || strings.Contains(err.Error(), "not found") {
			break
		}
		// this attempt may or may not have taken effect: whatever the next one says is no longer definite
		uncertain = true
		allErrs += err.Error()
		time.Sleep(400 * time.Millisecond)
	}
	okv, es, res := 1, "", "ok"
	if err != nil {
		okv, es, res = 0, err.Error(), "err"
		// definite refusals: the item is (not) there, nothing changed
		if strings.Contains(es, "exists") {
			res = "exists"
		} else if strings.Contains(es, "not found") {
			res = "notfound"
		}
		if uncertain {
			res = "err"
		}
	} else if uncertain && kind != "insert" {
		// a remove / update acknowledged after an attempt of unknown fate: the earlier one may have done it
		res = "ok"
	}
	closed := 0
	if strings.Contains(es+allErrs, "connection is closing") {
		closed = 1
	}
	emit(event{"ev": "wack", "kind": kind, "id": k, "ok": okv, "err": es, "res": res, "closed": closed})
}

func findItems(ds string, ps []*proc, tag string) {
	u, _ := uuid.FromString(ds)
	for _, p := range ps {
		if !p.checkAlive() {
			continue
		}
		ids := []int{}
		es, firstErr := "", ""
		for try := 0; try < 15; try++ {
			ids, es = []int{}, ""
			ctx, cancel := context.WithTimeout(context.Background(), 3*time.Second)
			st, err := pb.NewSearchClient(p.conn).Search(ctx, &pb.SearchRequest{DatasetId: u.Bytes(), Query: []float32{0, 0, 0}, K: 200})
			for err == nil {
				var it *pb.SearchResultItem
				it, err = st.Recv()
				if err == nil {
					ids = append(ids, int(it.GetId()[14])<<8|int(it.GetId()[15]))
				}
			}
			cancel()
			if err == io.EOF {
				break
			}
			es = err.Error()
			firstErr += es
			time.Sleep(500 * time.Millisecond)
		}
		sort.Ints(ids)
		// the five nearest items (distance grows with the id): top-k of the union of the partitions
		top, toperr := []int{}, ""
		if es == "" {
			ctx, cancel := context.WithTimeout(context.Background(), 3*time.Second)
			st, err := pb.NewSearchClient(p.conn).Search(ctx, &pb.SearchRequest{DatasetId: u.Bytes(), Query: []float32{0, 0, 0}, K: 5})
			for err == nil {
				var it *pb.SearchResultItem
				it, err = st.Recv()
				if err == nil {
					top = append(top, int(it.GetId()[14])<<8|int(it.GetId()[15]))
				}
			}
			cancel()
			if err != io.EOF {
				// a loud failure (e.g. the replica that was picked is down) is an allowed outcome
				top, toperr = []int{}, err.Error()
			}
		}
		// the dataset's size as this node reports it (sum over the partitions, wherever they live)
		size, serr := -1, ""
		{
			ctx, cancel := context.WithTimeout(context.Background(), 3*time.Second)
			sz, err := pb.NewDatasetManagerClient(p.conn).GetDatasetSize(ctx, &pb.GetDatasetRequest{DatasetId: u.Bytes()})
			cancel()
			if err != nil {
				serr = err.Error()
			} else {
				size = int(sz.GetLen())
			}
		}
		// the same number through the two other ways of asking for it: Get and List with the size option - each
		// either fails or reports the sum over the partitions (never an older or partial number with a success)
		gsize, gerr, lsize, lerr := -1, "", -1, ""
		{
			ctx, cancel := context.WithTimeout(context.Background(), 3*time.Second)
			d, err := pb.NewDatasetManagerClient(p.conn).Get(ctx, &pb.GetDatasetRequest{DatasetId: u.Bytes(), WithSize: true})
			cancel()
			if err != nil {
				gerr = err.Error()
			} else {
				gsize = int(d.GetSize())
			}
			ctx, cancel = context.WithTimeout(context.Background(), 4*time.Second)
			st, err := pb.NewDatasetManagerClient(p.conn).List(ctx, &pb.ListDatasetsRequest{WithSize: true})
			seen := false
			for err == nil {
				var d *pb.Dataset
				d, err = st.Recv()
				if err == nil && bytes.Equal(d.GetId(), u.Bytes()) {
					lsize, seen = int(d.GetSize()), true
				}
			}
			cancel()
			if err != io.EOF {
				lerr, lsize = err.Error(), -1
			} else if !seen {
				lerr = "dataset not listed"
			}
		}
		// "the client connection is closing": the node used a client whose connection it has closed itself
		closed := 0
		if strings.Contains(es+serr+toperr+firstErr, "connection is closing") {
			closed = 1
		}
		emit(event{"ev": "found", "via": p.id, "after": tag, "ids": ids, "err": es, "size": size, "sizeerr": serr, "top": top, "toperr": toperr, "closed": closed,
			"gsize": gsize, "gsizeerr": gerr, "lsize": lsize, "lsizeerr": lerr})
	}
}

// probeForeign sends the partition-level RPCs (normally issued by peers) to nodes that know the partition but
// do not host it: they have to refuse, and stay alive
func probeForeign(ds string, ps []*proc) {
	u, _ := uuid.FromString(ds)
	cat, err := catalogue(ps[0])
	if err != nil {
		return
	}
	for _, d := range cat {
		if d.Id != ds {
			continue
		}
		for _, part := range d.Parts {
			pid, _ := uuid.FromString(part[0])
			for _, p := range ps {
				hosted := false
				for _, n := range part[1:] {
					if n == fmt.Sprint(p.id) {
						hosted = true
					}
				}
				if hosted || !p.checkAlive() {
					continue
				}
				items := []*pb.BatchItem{{Id: wid(1), Value: []float32{1, 1, 0}}, {Id: wid(77), Value: []float32{7, 1, 0}}}
				dm := pb.NewDataManagerClient(p.conn)
				calls := map[string]func(ctx context.Context) error{
					"pbinsert": func(ctx context.Context) error {
						_, err := dm.PartitionBatchInsert(ctx, &pb.PartitionBatchRequest{DatasetId: u.Bytes(), PartitionId: pid.Bytes(), Items: items})
						return err
					},
					"pbupdate": func(ctx context.Context) error {
						_, err := dm.PartitionBatchUpdate(ctx, &pb.PartitionBatchRequest{DatasetId: u.Bytes(), PartitionId: pid.Bytes(), Items: items})
						return err
					},
					"pbremove": func(ctx context.Context) error {
						_, err := dm.PartitionBatchRemove(ctx, &pb.PartitionBatchRequest{DatasetId: u.Bytes(), PartitionId: pid.Bytes(), Items: items})
						return err
					},
					"pinfo": func(ctx context.Context) error {
						_, err := dm.PartitionInfo(ctx, &pb.PartitionInfoRequest{DatasetId: u.Bytes(), PartitionId: pid.Bytes()})
						return err
					},
				}
				for _, name := range []string{"pinfo", "pbinsert", "pbupdate", "pbremove"} {
					ctx, cancel := context.WithTimeout(context.Background(), 3*time.Second)
					err := calls[name](ctx)
					cancel()
					okv, es := 1, ""
					if err != nil {
						okv, es = 0, err.Error()
					}
					emit(event{"ev": "probe", "node": p.id, "rpc": name, "ok": okv, "err": es})
					p.checkAlive()
				}
			}
		}
	}
}

func wid(k int) []byte {
	u := make([]byte, 16)
	u[0], u[14], u[15] = 0x77, byte(k>>8), byte(k)
	return u
}

func del(p *proc, id string) {
	u, _ := uuid.FromString(id)
	ctx, cancel := context.WithTimeout(context.Background(), 5*time.Second)
	defer cancel()
	_, err := pb.NewDatasetManagerClient(p.conn).Delete(ctx, &pb.UUIDRequest{Id: u.Bytes()})
	if err != nil {
		emit(event{"ev": "delete", "via": p.id, "ok": 0, "id": id, "err": err.Error()})
		return
	}
	emit(event{"ev": "delete", "via": p.id, "ok": 1, "id": id, "err": ""})
}

func main() {
	defer hx.ReleasePorts()
	bin, work = os.Args[1], os.Args[2]
	f, _ := os.Create(os.Args[3])
	defer f.Close()
	enc = json.NewEncoder(f)
	scenario := os.Args[4]
	os.MkdirAll(work, 0755)
	mk := func(id int, join string) *proc {
		return &proc{id: id, port: freePort(), dir: filepath.Join(work, fmt.Sprintf("n%d", id)), join: join}
	}
	a := mk(1, "")
	emit(event{"ev": "scenario", "name": scenario})
	var aenv []string
	if scenario == "conf-burst" {
		aenv = []string{"VERIF_APPLY_DELAY_MS=600"} // the bootstrap node (the zero group's leader) applies late
	}
	if !a.start(aenv...) {
		emit(event{"ev": "end"})
		return
	}
	emit(event{"ev": "joined", "node": 1, "addr": ":" + a.port, "ok": 1})
	b := mk(2, "127.0.0.1:"+a.port)
	c := mk(3, "127.0.0.1:"+a.port)
	ps := []*proc{a, b, c}
	for _, p := range []*proc{b, c} {
		ok := p.start()
		okv := 0
		if ok {
			okv = 1
		}
		emit(event{"ev": "joined", "node": p.id, "addr": ":" + p.port, "ok": okv})
	}
	observe(ps, "join")
	d1 := create(a, 2, 2)
	observe(ps, "create")
	d2 := createDesc(b, 1, 3, 5, pb.Space_Cosine)
	observe(ps, "create")
	if d1 != "" {
		del(c, d1)
		observe(ps, "delete")
	}
	_ = d2
	switch scenario {
	case "leave-boot":
		// the bootstrap node (usually the zero group's leader) is removed through another member and stops;
		// the remaining members carry on: catalogue changes, a restart
		ctx, cancel := context.WithTimeout(context.Background(), 5*time.Second)
		_, err := pb.NewNodesManagerClient(b.conn).RemoveNode(ctx, &pb.Node{Id: 1})
		cancel()
		okv, es := 1, ""
		if err != nil {
			okv, es = 0, err.Error()
		}
		emit(event{"ev": "left", "node": 1, "ok": okv, "err": es})
		time.Sleep(3000 * time.Millisecond)
		a.kill()
		observe(ps, "leave")
		// the two remaining members have to elect a leader first: the creation is retried (only the
		// successful attempt, or the last failure, is an event)
		createRetry(b, 1, 2, 8)
		observe(ps, "create")
		c.kill()
		c.join = "127.0.0.1:" + b.port // its old join address is gone with the bootstrap node
		c.start()
		observe(ps, "restart")
		createRetry(c, 2, 2, 8)
		observe(ps, "create")
	case "rejoin":
		// a member is removed, stops, and later joins again under the same id (same directory, same address).
		// A dataset whose partitions are spread over all nodes is written and searched through every node
		// before and after, so that every node has talked to every other one
		dd := create(a, 8, 2)
		observe(ps, "create")
		if dd != "" {
			for k := 1; k <= 12; k++ {
				writeItem(dd, "insert", ps[k%3], k)
			}
			findItems(dd, ps, "writes")
		}
		ctx, cancel := context.WithTimeout(context.Background(), 5*time.Second)
		_, err := pb.NewNodesManagerClient(a.conn).RemoveNode(ctx, &pb.Node{Id: 3})
		cancel()
		okv, es := 1, ""
		if err != nil {
			okv, es = 0, err.Error()
		}
		emit(event{"ev": "left", "node": 3, "ok": okv, "err": es})
		// the leaving node stays up long enough for the partition groups it is in to commit its removal
		// (a group of two cannot do that once it is gone)
		time.Sleep(3500 * time.Millisecond)
		c.kill()
		observe(ps, "leave")
		create(a, 1, 2)
		observe(ps, "create")
		ok := c.start()
		okv = 0
		if ok {
			okv = 1
		}
		emit(event{"ev": "joined", "node": 3, "addr": ":" + c.port, "ok": okv})
		observe(ps, "join")
		create(b, 2, 3)
		observe(ps, "create")
		if dd != "" {
			// the re-joined node is reachable again for proxied writes and fan-out searches
			time.Sleep(1500 * time.Millisecond)
			for k := 13; k <= 18; k++ {
				writeItemN(dd, "insert", ps[k%3], k, 1)
			}
			for i := 0; i < 5; i++ {
				findItems(dd, ps, "rejoined")
			}
		}
		b.kill()
		b.start()
		observe(ps, "restart")
		if dd != "" {
			findItems(dd, ps, "restart-one")
		}
	case "joincrash":
		// the joining process dies inside the hand-shake: after the members have recorded it, before it
		// reports itself ready.  It is started again with the same join list (as a supervisor would)
		d := mk(4, "127.0.0.1:"+a.port)
		d.joinAttempt = true
		done := make(chan bool, 1)
		go func() { done <- d.start("VERIF_JOIN_DELAY_MS=1500") }()
		dl := time.Now().Add(10 * time.Second)
		seen := false
		for time.Now().Before(dl) && !seen {
			if m, err := members(a); err == nil {
				_, seen = m["4"]
			}
			time.Sleep(20 * time.Millisecond)
		}
		emit(event{"ev": "joinseen", "node": 4, "seen": seen})
		if d.cmd != nil && d.cmd.Process != nil {
			d.cmd.Process.Signal(syscall.SIGKILL)
		}
		if <-done {
			// it had already reported ready: an acknowledged join, the node is gone now
			d.alive = false
		}
		observe(ps, "joinattempt")
		d.joinAttempt = false
		ok := d.start()
		okv := 0
		if ok {
			okv = 1
			ps = append(ps, d)
		}
		emit(event{"ev": "joined", "node": 4, "addr": ":" + d.port, "ok": okv})
		observe(ps, "join")
		create(d, 2, 3)
		observe(ps, "create")
		a.kill()
		a.start()
		observe(ps, "restart")
	case "joinfail":
		// the join handshake is lost: every address of the join list is unreachable.  The node either
		// reports the failure (its process ends: no join was acknowledged) or claims READY - then the
		// join counts as acknowledged and every member has to list it
		dead := "127.0.0.1:" + freePort()
		d := mk(4, dead)
		d.joinAttempt = true
		if d.start() {
			ps = append(ps, d)
		}
		observe(ps, "joinattempt")
		// an unreachable address followed by a reachable one: the join goes through
		e := mk(5, dead+",127.0.0.1:"+b.port)
		ok := e.start()
		okv := 0
		if ok {
			okv = 1
			ps = append(ps, e)
		}
		emit(event{"ev": "joined", "node": 5, "addr": ":" + e.port, "ok": okv})
		observe(ps, "join")
		// the node whose first attempt failed retries with a good address (same id, same directory)
		if !d.alive {
			d.join = "127.0.0.1:" + a.port
			d.joinAttempt = false
			ok := d.start()
			okv := 0
			if ok {
				okv = 1
				ps = append(ps, d)
			}
			emit(event{"ev": "joined", "node": 4, "addr": ":" + d.port, "ok": okv})
			observe(ps, "join")
		}
		c.kill()
		c.start()
		observe(ps, "restart")
	case "basic":
		b.kill()
		b.start()
		observe(ps, "restart")
		a.kill()
		a.start()
		observe(ps, "restart")
	case "wiring":
		// restart with the catalogue consumer wired late (the gate sleeps after zeroGroup.Start())
		b.kill()
		b.start("VERIF_SETUP_DELAY_MS=400")
		observe(ps, "restart")
		a.kill()
		a.start("VERIF_SETUP_DELAY_MS=400")
		observe(ps, "restart")
	case "snapshot":
		// descriptors are read on one node before the logs are compacted: reading must not change
		// what is snapshotted (the partition list's order is what routing indexes into)
		d0 := create(b, 5, 1)
		observe(ps, "create")
		get(a, d0)
		get(a, d2)
		for _, p := range ps {
			if p.checkAlive() {
				p.cmd.Process.Signal(syscall.SIGUSR1)
			}
		}
		time.Sleep(1500 * time.Millisecond)
		emit(event{"ev": "snapshotted"})
		d3 := create(a, 1, 2)
		_ = d3
		observe(ps, "create")
		b.kill()
		b.start()
		observe(ps, "restart")
		a.kill()
		a.start()
		observe(ps, "restart")
	case "snapshot-twice":
		// every member compacts its log, a node joins, a dataset is created, every member compacts again: what a member
		// recovers from its SECOND snapshot (restart), and what a follower that was down meanwhile is sent, is the
		// membership and the catalogue of that moment - not of the first snapshot
		snapAll := func() {
			for _, p := range ps {
				if p.checkAlive() {
					p.cmd.Process.Signal(syscall.SIGUSR1)
				}
			}
			time.Sleep(1500 * time.Millisecond)
			emit(event{"ev": "snapshotted"})
		}
		create(a, 2, 2)
		observe(ps, "create")
		snapAll()
		c.kill()
		d := mk(4, "127.0.0.1:"+a.port)
		okd := d.start()
		okv := 0
		if okd {
			okv = 1
			ps = append(ps, d)
		}
		emit(event{"ev": "joined", "node": 4, "addr": ":" + d.port, "ok": okv})
		observe(ps, "join")
		create(b, 1, 2)
		observe(ps, "create")
		snapAll()
		c.start()
		observe(ps, "restart")
		a.kill()
		a.start()
		observe(ps, "restart")
		b.kill()
		b.start()
		observe(ps, "restart")
	case "lagging":
		// a follower is down while the catalogue changes and the others compact their logs: it catches
		// up through a snapshot installed into the catalogue it rebuilt from its own (older) log
		// (the follower already knows some of the datasets the snapshot will contain, others not)
		create(a, 1, 1)
		create(b, 2, 2)
		observe(ps, "create")
		c.kill()
		if d2 != "" {
			del(a, d2)
		}
		d3 := create(a, 1, 2)
		d4 := create(b, 2, 1)
		_, _ = d3, d4
		create(a, 1, 1)
		create(b, 1, 2)
		observe(ps, "create")
		for _, p := range []*proc{a, b} {
			if p.checkAlive() {
				p.cmd.Process.Signal(syscall.SIGUSR1)
			}
		}
		time.Sleep(1500 * time.Millisecond)
		emit(event{"ev": "snapshotted"})
		create(a, 1, 2)
		observe(ps, "create")
		c.start()
		observe(ps, "restart")
	case "dead-leave":
		// a member dies and is then removed (the usual reason for removing one): partitions it shared with one
		// other node have no leader any more; datasets are deleted and created afterwards and every remaining
		// node has to keep applying the catalogue
		for i := 0; i < 5; i++ {
			create(a, 4, 2) // many two-replica partitions: some are on {1,2} with 1 first, some on {2,3} with 3 first
		}
		observe(ps, "create")
		b.kill()
		ctx, cancel := context.WithTimeout(context.Background(), 5*time.Second)
		_, err := pb.NewNodesManagerClient(a.conn).RemoveNode(ctx, &pb.Node{Id: 2})
		cancel()
		okv, es := 1, ""
		if err != nil {
			okv, es = 0, err.Error()
		}
		emit(event{"ev": "left", "node": 2, "ok": okv, "err": es})
		time.Sleep(2000 * time.Millisecond)
		observe(ps, "leave")
		if cat, err := catalogue(a); err == nil {
			for _, d := range cat {
				del(c, d.Id)
			}
		}
		observe(ps, "delete")
		createRetry(a, 2, 2, 4)
		createRetry(c, 1, 1, 4)
		observe(ps, "create")
		c.kill()
		c.start()
		observe(ps, "restart")
	case "lagging-empty":
		// while a follower is down the last dataset is deleted and the logs are compacted: the snapshot it
		// catches up from describes an EMPTY catalogue
		c.kill()
		if d2 != "" {
			del(a, d2)
		}
		observe(ps, "delete")
		for _, p := range []*proc{a, b} {
			if p.checkAlive() {
				p.cmd.Process.Signal(syscall.SIGUSR1)
			}
		}
		time.Sleep(1500 * time.Millisecond)
		emit(event{"ev": "snapshotted"})
		c.start()
		observe(ps, "restart")
		create(c, 1, 2)
		observe(ps, "create")
	case "lagging-leave":
		// a follower is down while a node leaves (the partitions' replica sets change) and the log is compacted
		// (several fully replicated datasets: whichever node is first in a partition's replica set proposes
		// the removal of the leaving node from it)
		for i := 0; i < 4; i++ {
			create(a, 2, 3)
		}
		observe(ps, "create")
		b.kill()
		ctx, cancel := context.WithTimeout(context.Background(), 5*time.Second)
		_, err := pb.NewNodesManagerClient(a.conn).RemoveNode(ctx, &pb.Node{Id: 3})
		cancel()
		okv, es := 1, ""
		if err != nil {
			okv, es = 0, err.Error()
		}
		emit(event{"ev": "left", "node": 3, "ok": okv, "err": es})
		time.Sleep(1500 * time.Millisecond)
		c.kill()
		if a.checkAlive() {
			a.cmd.Process.Signal(syscall.SIGUSR1)
		}
		time.Sleep(1500 * time.Millisecond)
		emit(event{"ev": "snapshotted"})
		b.start()
		observe(ps, "restart")
	case "durable":
		// acknowledged writes on real server processes: every node is killed (-9) after the last
		// acknowledgement and restarted on its directory; then one node only
		ds := create(a, 2, 2)
		observe(ps, "create")
		if ds == "" {
			break
		}
		write := func(kind string, via *proc, k int) { writeItem(ds, kind, via, k) }
		find := func(tag string) { findItems(ds, ps, tag) }
		for k := 1; k <= 24; k++ {
			write("insert", ps[k%3], k)
		}
		write("remove", a, 3)
		write("remove", b, 6)
		write("update", c, 5)
		write("insert", a, 6)
		// refusals have to be as truthful as acknowledgements
		write("insert", b, 4)
		write("remove", c, 99)
		write("update", a, 98)
		write("remove", b, 3)
		find("writes")
		probeForeign(ds, ps)
		find("probes")
		for _, p := range ps {
			p.kill()
		}
		for _, p := range ps {
			p.start()
		}
		observe(ps, "restart")
		find("restart-all")
		for k := 25; k <= 30; k++ {
			write("insert", ps[k%3], k)
		}
		write("remove", c, 9)
		b.kill()
		find("minority-down")
		b.start()
		observe(ps, "restart")
		find("restart-one")
	case "lagging-replicas":
		// a follower is down while a fourth node leaves, the replica sets of existing datasets change and
		// the others compact their logs: the follower learns all of it from a snapshot
		d := mk(4, "127.0.0.1:"+a.port)
		okd := d.start()
		okv := 0
		if okd {
			okv = 1
			ps = append(ps, d)
		}
		emit(event{"ev": "joined", "node": 4, "addr": ":" + d.port, "ok": okv})
		observe(ps, "join")
		for i := 0; i < 6; i++ {
			create(a, 3, 3) // many replica sets: the leaving node is in most of them, at any position
		}
		observe(ps, "create")
		b.kill()
		ctx, cancel := context.WithTimeout(context.Background(), 5*time.Second)
		_, err := pb.NewNodesManagerClient(a.conn).RemoveNode(ctx, &pb.Node{Id: 4})
		cancel()
		okv, es := 1, ""
		if err != nil {
			okv, es = 0, err.Error()
		}
		emit(event{"ev": "left", "node": 4, "ok": okv, "err": es})
		time.Sleep(2500 * time.Millisecond)
		d.kill()
		observe(ps, "leave")
		for _, p := range []*proc{a, c} {
			if p.checkAlive() {
				p.cmd.Process.Signal(syscall.SIGUSR1)
			}
		}
		time.Sleep(1500 * time.Millisecond)
		emit(event{"ev": "snapshotted"})
		create(a, 1, 2)
		observe(ps, "create")
		b.start()
		observe(ps, "restart")
	case "lagging-rejoin":
		// a follower is down while a member is removed and joins again under the same id from ANOTHER address
		// (new process, new directory, new port) and the membership log is compacted: the follower learns the
		// re-join from a snapshot whose address book names an id it already has an (old) address for.
		// Four nodes, so that the zero group keeps a quorum without the follower
		d := mk(4, "127.0.0.1:"+a.port)
		okd := d.start()
		okv := 0
		if okd {
			okv = 1
			ps = append(ps, d)
		}
		emit(event{"ev": "joined", "node": 4, "addr": ":" + d.port, "ok": okv})
		observe(ps, "join")
		b.kill()
		ctx, cancel := context.WithTimeout(context.Background(), 5*time.Second)
		_, err := pb.NewNodesManagerClient(a.conn).RemoveNode(ctx, &pb.Node{Id: 3})
		cancel()
		okv, es := 1, ""
		if err != nil {
			okv, es = 0, err.Error()
		}
		emit(event{"ev": "left", "node": 3, "ok": okv, "err": es})
		time.Sleep(2500 * time.Millisecond)
		c.kill()
		observe(ps, "leave")
		c2 := &proc{id: 3, port: freePort(), dir: filepath.Join(work, "n3b"), join: "127.0.0.1:" + a.port}
		ok := c2.start()
		okv = 0
		if ok {
			okv = 1
			ps[2] = c2
		}
		emit(event{"ev": "joined", "node": 3, "addr": ":" + c2.port, "ok": okv})
		observe(ps, "join")
		create(a, 2, 2)
		observe(ps, "create")
		for _, p := range []*proc{a, c2, d} {
			if p.checkAlive() {
				p.cmd.Process.Signal(syscall.SIGUSR1)
			}
		}
		time.Sleep(1500 * time.Millisecond)
		emit(event{"ev": "snapshotted"})
		b.start()
		observe(ps, "restart")
		dd := create(b, 6, 2)
		observe(ps, "create")
		if dd != "" {
			// the restarted follower has to reach the re-joined node at its new address
			time.Sleep(1500 * time.Millisecond)
			for k := 1; k <= 12; k++ {
				writeItemN(dd, "insert", ps[k%4], k, 1)
			}
			for i := 0; i < 3; i++ {
				findItems(dd, ps, "rejoined")
			}
		}
	case "slow-replica":
		// one replica applies late (a slow disk): writes acknowledged through the others are followed at once by
		// operations on the same id through the slow one.  Raft orders them after the insert; an answer taken
		// from the slow replica's own, lagging copy would be wrong
		c.kill()
		c.start("VERIF_APPLY_DELAY_MS=70")
		observe(ps, "restart")
		ds := createDesc(a, 3, 3, 3, pb.Space_Euclidean)
		observe(ps, "create")
		if ds == "" {
			break
		}
		time.Sleep(1500 * time.Millisecond)
		for k := 1; k <= 12; k++ {
			writeItemN(ds, "insert", ps[k%2], k, 1)
			switch k % 3 {
			case 0:
				writeItemN(ds, "update", c, k, 1)
			case 1:
				writeItemN(ds, "remove", c, k, 1)
			default:
				writeItemN(ds, "update", c, k, 1)
				writeItemN(ds, "remove", ps[k%2], k, 1)
			}
		}
		findItems(ds, ps, "writes")
	case "no-quorum":
		// one partition, two replicas; the node of one replica dies: the partition's group has lost its quorum.  Writes
		// through a surviving node - given more time than the server's own proposal time limit - are not acknowledged
		// (nothing can be committed), whatever error the storage layer ran into
		ctx0, cancel0 := context.WithTimeout(context.Background(), 5*time.Second)
		d, err := pb.NewDatasetManagerClient(a.conn).Create(ctx0, &pb.Dataset{Dimension: 3, Space: pb.Space_Euclidean, PartitionCount: 1, ReplicationFactor: 2})
		cancel0()
		if err != nil || len(d.GetPartitions()) != 1 || len(d.GetPartitions()[0].GetNodeIds()) != 2 {
			emit(event{"ev": "noquorum", "tried": 0, "acked": 0, "rets": []string{}, "why": fmt.Sprint("no dataset: ", err)})
			break
		}
		time.Sleep(1500 * time.Millisecond)
		reps := d.GetPartitions()[0].GetNodeIds()
		byId := map[uint64]*proc{1: a, 2: b, 3: c}
		victim, via := byId[reps[1]], byId[reps[0]]
		// a first write, with both replicas up, succeeds (the group works)
		warm := func(k int) string {
			ctx, cancel := context.WithTimeout(context.Background(), 8*time.Second)
			defer cancel()
			_, err := pb.NewDataManagerClient(via.conn).Insert(ctx, &pb.InsertRequest{DatasetId: d.GetId(), Id: wid(k), Value: []float32{float32(k), 1, 0}})
			if err != nil {
				return err.Error()
			}
			return "ok"
		}
		w0 := warm(1)
		victim.kill()
		time.Sleep(500 * time.Millisecond)
		rets := []string{}
		acked := 0
		other := a
		for _, p := range []*proc{a, b, c} {
			if p != victim && p != via {
				other = p
			}
		}
		for i, p := range []*proc{via, other} {
			ctx, cancel := context.WithTimeout(context.Background(), 9*time.Second)
			var err error
			if i == 0 {
				_, err = pb.NewDataManagerClient(p.conn).Insert(ctx, &pb.InsertRequest{DatasetId: d.GetId(), Id: wid(2 + i), Value: []float32{2, 1, 0}})
			} else {
				_, err = pb.NewDataManagerClient(p.conn).Update(ctx, &pb.UpdateRequest{DatasetId: d.GetId(), Id: wid(1), Value: []float32{1, 1.5, 0}})
			}
			cancel()
			if err == nil {
				acked++
				rets = append(rets, "ok")
			} else {
				rets = append(rets, err.Error())
			}
		}
		emit(event{"ev": "noquorum", "tried": 2, "acked": acked, "rets": rets, "why": "first write with both replicas up: " + w0})
		victim.start()
		observe(ps, "restart")
	case "rejoin-stale":
		// a removed node joins again - same id, same address - through a member that applies late and has not yet
		// applied the removal: whatever that member believes locally, the join has to go through the log, or it is
		// acknowledged and then undone by the removal the member applies a moment later
		b.kill()
		b.start("VERIF_APPLY_DELAY_MS=2500")
		observe(ps, "restart")
		ctx, cancel := context.WithTimeout(context.Background(), 5*time.Second)
		_, err := pb.NewNodesManagerClient(a.conn).RemoveNode(ctx, &pb.Node{Id: 3})
		cancel()
		okv, es := 1, ""
		if err != nil {
			okv, es = 0, err.Error()
		}
		emit(event{"ev": "left", "node": 3, "ok": okv, "err": es})
		c.kill()
		c.join = "127.0.0.1:" + b.port
		ok := c.start()
		okv = 0
		if ok {
			okv = 1
		}
		emit(event{"ev": "joined", "node": 3, "addr": ":" + c.port, "ok": okv})
		time.Sleep(6 * time.Second) // the slow member catches up
		observe(ps, "join")
		create(a, 2, 2)
		observe(ps, "create")
	case "conf-burst":
		// two membership changes in quick succession while the leader of the zero group applies late: raft accepts
		// only one configuration change at a time and silently drops a second one that arrives before the leader
		// has applied the first.  A removal is requested, and before it is applied a new node asks to join
		d := mk(4, "127.0.0.1:"+a.port)
		ctx, cancel := context.WithTimeout(context.Background(), 5*time.Second)
		_, err := pb.NewNodesManagerClient(a.conn).RemoveNode(ctx, &pb.Node{Id: 3})
		cancel()
		okv, es := 1, ""
		if err != nil {
			okv, es = 0, err.Error()
		}
		emit(event{"ev": "left", "node": 3, "ok": okv, "err": es})
		okd := d.start()
		okv = 0
		if okd {
			okv = 1
			ps = append(ps, d)
		}
		emit(event{"ev": "joined", "node": 4, "addr": ":" + d.port, "ok": okv})
		time.Sleep(3 * time.Second)
		c.kill()
		observe(ps, "join")
		create(b, 2, 2)
		observe(ps, "create")
	case "size-down":
		// every partition on one node only, spread over the cluster; a node goes down, more items are written to the
		// partitions that are still there: a size reported through any node by any of the three ways of asking
		// (GetDatasetSize, Get / List with the size option) is the current sum - or the call fails
		ds := createDesc(a, 6, 1, 3, pb.Space_Euclidean)
		observe(ps, "create")
		if ds == "" {
			break
		}
		time.Sleep(1500 * time.Millisecond)
		for k := 1; k <= 12; k++ {
			writeItem(ds, "insert", ps[k%3], k)
		}
		findItems(ds, ps, "writes")
		c.kill()
		for k := 13; k <= 24; k++ {
			writeItemN(ds, "insert", ps[k%2], k, 1)
		}
		findItems(ds, ps, "minority-down")
		findItems(ds, ps, "minority-down")
	case "lagging-replace":
		// a follower is down while a node leaves AND another one joins (a failed machine is replaced) and the
		// membership log is compacted: the snapshot the follower catches up with names as many nodes as it knows
		// itself.  Four members to begin with, so that the zero group keeps its quorum without the follower
		d := mk(4, "127.0.0.1:"+a.port)
		okd := d.start()
		okv := 0
		if okd {
			okv = 1
			ps = append(ps, d)
		}
		emit(event{"ev": "joined", "node": 4, "addr": ":" + d.port, "ok": okv})
		observe(ps, "join")
		b.kill()
		ctx, cancel := context.WithTimeout(context.Background(), 15*time.Second)
		_, err := pb.NewNodesManagerClient(a.conn).RemoveNode(ctx, &pb.Node{Id: 3})
		cancel()
		okv, es := 1, ""
		if err != nil {
			okv, es = 0, err.Error()
		}
		emit(event{"ev": "left", "node": 3, "ok": okv, "err": es})
		time.Sleep(1500 * time.Millisecond)
		c.kill()
		e := mk(5, "127.0.0.1:"+a.port)
		oke := e.start()
		okv = 0
		if oke {
			okv = 1
			ps = append(ps, e)
		}
		emit(event{"ev": "joined", "node": 5, "addr": ":" + e.port, "ok": okv})
		observe(ps, "join")
		for _, p := range []*proc{a, d, e} {
			if p.checkAlive() {
				p.cmd.Process.Signal(syscall.SIGUSR1)
			}
		}
		time.Sleep(1500 * time.Millisecond)
		emit(event{"ev": "snapshotted"})
		b.start()
		observe(ps, "restart")
		// a dataset created through the follower is placed on members only
		create(b, 3, 3)
		observe(ps, "create")
	case "paused-replace":
		// as lagging-replace, but the follower is not restarted: it is frozen (SIGSTOP - a long pause of the process or
		// its machine) while a node leaves, another joins and the log is compacted, and then continues.  It repeats
		// no join hand-shake, so the snapshot is all it learns the changes from
		d := mk(4, "127.0.0.1:"+a.port)
		okd := d.start()
		okv := 0
		if okd {
			okv = 1
			ps = append(ps, d)
		}
		emit(event{"ev": "joined", "node": 4, "addr": ":" + d.port, "ok": okv})
		observe(ps, "join")
		b.cmd.Process.Signal(syscall.SIGSTOP)
		b.alive = false
		emit(event{"ev": "paused", "node": 2})
		ctx, cancel := context.WithTimeout(context.Background(), 15*time.Second)
		_, err := pb.NewNodesManagerClient(a.conn).RemoveNode(ctx, &pb.Node{Id: 3})
		cancel()
		okv, es := 1, ""
		if err != nil {
			okv, es = 0, err.Error()
		}
		emit(event{"ev": "left", "node": 3, "ok": okv, "err": es})
		time.Sleep(1500 * time.Millisecond)
		c.kill()
		e := mk(5, "127.0.0.1:"+a.port)
		oke := e.start()
		okv = 0
		if oke {
			okv = 1
			ps = append(ps, e)
		}
		emit(event{"ev": "joined", "node": 5, "addr": ":" + e.port, "ok": okv})
		observe(ps, "join")
		for _, p := range []*proc{a, d, e} {
			if p.checkAlive() {
				p.cmd.Process.Signal(syscall.SIGUSR1)
			}
		}
		time.Sleep(1500 * time.Millisecond)
		emit(event{"ev": "snapshotted"})
		b.cmd.Process.Signal(syscall.SIGCONT)
		b.alive = true
		emit(event{"ev": "resumed", "node": 2})
		observe(ps, "resume")
		// a dataset created through the follower is placed on members only
		create(b, 3, 3)
		observe(ps, "create")
	case "rejoin-overtaken":
		// a member restarts and repeats the join hand-shake, as every start does; the member's reply (its address
		// book at that moment) is processed late, after a newer join has already reached the restarted member through
		// the log: the reply has to be merged into the book, it must not replace it
		b.kill()
		done := make(chan bool, 1)
		go func() { done <- b.start("VERIF_JOIN_REPLY_DELAY_MS=4000") }()
		time.Sleep(1500 * time.Millisecond)
		d := mk(4, "127.0.0.1:"+a.port)
		okd := d.start()
		okv := 0
		if okd {
			okv = 1
			ps = append(ps, d)
		}
		emit(event{"ev": "joined", "node": 4, "addr": ":" + d.port, "ok": okv})
		<-done
		observe(ps, "restart")
		create(b, 2, 2)
		observe(ps, "create")
	case "leave-write":
		// every partition on one node; a node leaves the cluster (its partitions are left without any replica until a
		// node joins): writes and searches through the remaining nodes keep being answered - with an error for what
		// cannot be served - and the nodes stay up
		ds := createDesc(a, 6, 1, 3, pb.Space_Euclidean)
		observe(ps, "create")
		if ds == "" {
			break
		}
		time.Sleep(1500 * time.Millisecond)
		for k := 1; k <= 12; k++ {
			writeItem(ds, "insert", ps[k%3], k)
		}
		ctx, cancel := context.WithTimeout(context.Background(), 15*time.Second)
		_, err := pb.NewNodesManagerClient(a.conn).RemoveNode(ctx, &pb.Node{Id: 3})
		cancel()
		okv, es := 1, ""
		if err != nil {
			okv, es = 0, err.Error()
		}
		emit(event{"ev": "left", "node": 3, "ok": okv, "err": es})
		time.Sleep(3 * time.Second) // the leaving node takes itself out of its partitions' replica sets
		c.kill()
		observe(ps, "leave")
		for k := 13; k <= 30; k++ {
			writeItemN(ds, []string{"insert", "update", "remove"}[k%3], ps[k%2], k, 1)
		}
		observe(ps, "leave")
		findItems(ds, ps, "minority-down")
	case "leave":
		ctx, cancel := context.WithTimeout(context.Background(), 5*time.Second)
		_, err := pb.NewNodesManagerClient(a.conn).RemoveNode(ctx, &pb.Node{Id: 3})
		cancel()
		okv, es := 1, ""
		if err != nil {
			okv, es = 0, err.Error()
		}
		emit(event{"ev": "left", "node": 3, "ok": okv, "err": es})
		c.kill()
		observe(ps, "leave")
		b.kill()
		b.start()
		observe(ps, "restart")
	}
	for _, p := range ps {
		if p.alive {
			p.kill()
		}
	}
	emit(event{"ev": "end"})
}
