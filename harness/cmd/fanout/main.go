// Command fanout drives the real storage.Dataset scatter/gather code (Search,
// SearchPartitions, SizeInfo) against scripted remote nodes, forcing the schedules
// that TLC emits from spec/FanOutGen (properties C09, C17).
//
//	fanout search <schedules.ndjson> <trace.ndjson> <seed> <stride>
//	fanout size   <schedules.ndjson> <trace.ndjson> <seed> <stride>
//	fanout parts  <n> <trace.ndjson> <seed>
package main

import (
	"bufio"
	"context"
	"encoding/json"
	"fmt"
	"math/rand"
	"os"
	"sort"
	"strconv"
	"sync/atomic"
	"strings"
	"time"

	badger "github.com/dgraph-io/badger/v2"
	"github.com/marekgalovic/anndb/cluster"
	"github.com/marekgalovic/anndb/index"
	amath "github.com/marekgalovic/anndb/math"
	pb "github.com/marekgalovic/anndb/protobuf"
	"github.com/marekgalovic/anndb/storage"
	"github.com/marekgalovic/anndb/storage/raft"
	uuid "github.com/satori/go.uuid"
	"verifharness/internal/hx"
	"verifharness/internal/sim"
)

type sched struct {
	O map[string]string `json:"o"`
	S []string          `json:"s"`
}

type event struct {
	Ev     string              `json:"ev"`
	Hid    int                 `json:"hid"`
	O      map[string]string   `json:"o"`
	Local  int                 `json:"local"` // 1: an extra, local partition exists
	S      []string            `json:"s"`
	K      int                 `json:"k"`
	Parts  map[string][]int    `json:"parts"` // scores each worker's partitions hold / sizes
	Ret    string              `json:"ret"`   // ok | err | hang
	Res    [][]int             `json:"res"`   // [idnum, score] / for size: [[len, bytes]]
	Err    string              `json:"err"`
	Forced int                 `json:"forced"` // 1: every token of the schedule could be forced
	Calls  map[string][]string `json:"calls,omitempty"`
	Asked  int                 `json:"asked"` // search: 1 = every partition was requested exactly once
	Mut    int                 `json:"mutated"` // parts: 1 = a stored item's metadata differs after the search (a read changed state)
}

type world struct {
	conn  *cluster.Conn
	tr    *raft.RaftTransport
	db    *badger.DB
	nodes map[string]*sim.Node // w1..w3 -> node
	warm  bool
}

func newWorld() *world {
	opt := badger.DefaultOptions("").WithInMemory(true).WithLogger(nil)
	db, err := badger.Open(opt)
	if err != nil {
		panic(err)
	}
	conn, err := cluster.NewConn(1, "127.0.0.1:1", "")
	if err != nil {
		panic(err)
	}
	w := &world{conn: conn, db: db, nodes: map[string]*sim.Node{}}
	w.tr = raft.NewTransport(1, "127.0.0.1:1", conn)
	for i, name := range []string{"w1", "w2", "w3"} {
		n := sim.NewNode(uint64(i + 2))
		w.nodes[name] = n
		conn.AddNode(n.Id, n.Addr)
	}
	return w
}

func pid(n int) uuid.UUID {
	var u uuid.UUID
	u[0], u[15] = 0x20, byte(n)
	return u
}

func itemId(n int) uuid.UUID {
	var u uuid.UUID
	u[0], u[14], u[15] = 0x30, byte(n>>8), byte(n)
	return u
}

// dataset with one partition per remote worker (+ optionally a local one)
func (w *world) dataset(withLocal, colocated bool) *storage.Dataset {
	n := 0
	if withLocal {
		n = 1
	}
	return w.datasetN(n, colocated)
}

// datasetN: one partition per remote worker, nLocal partitions on the asked node itself
func (w *world) datasetN(nLocal int, colocated bool) *storage.Dataset {
	meta := pb.Dataset{Id: uuid.NewV4().Bytes(), Dimension: 3, Space: pb.Space_Euclidean, ReplicationFactor: 1}
	names := []string{"w1", "w2", "w3"}
	for i, name := range names {
		meta.Partitions = append(meta.Partitions, &pb.Partition{Id: pid(i + 1).Bytes(), NodeIds: []uint64{w.nodes[name].Id}})
	}
	for j := 0; j < nLocal; j++ {
		meta.Partitions = append(meta.Partitions, &pb.Partition{Id: pid(9 + j).Bytes(), NodeIds: []uint64{1}})
	}
	if colocated {
		// a second partition on w1's node: one worker, two partitions in its request
		meta.Partitions = append(meta.Partitions, &pb.Partition{Id: pid(4).Bytes(), NodeIds: []uint64{w.nodes["w1"].Id}})
	}
	meta.PartitionCount = uint32(len(meta.Partitions))
	ds, err := storage.NewVerifDataset(meta, w.db, w.tr, w.conn)
	if err != nil {
		panic(err)
	}
	return ds
}

func vec(x float32) amath.Vector { return amath.Vector{x, 0, 0} }

type gate struct {
	point string
	ch    chan struct{}
	open  chan struct{}
	seen  chan int
}

func installGate(point string) *gate {
	g := &gate{point: point, ch: make(chan struct{}, 16), open: make(chan struct{}), seen: make(chan int, 16)}
	storage.VerifGate = func(p string, i int) {
		if p != point {
			return
		}
		select {
		case g.seen <- i:
		default:
		}
		select {
		case <-g.ch:
		case <-g.open:
		}
	}
	return g
}

func (g *gate) release() { g.ch <- struct{}{} }
func (g *gate) openAll() {
	select {
	case <-g.open:
	default:
		close(g.open)
	}
}

const settle = 3 * time.Millisecond

// force runs one call under a schedule; `call` performs the real Dataset call.
func (w *world) force(s sched, point string, call func(ctx context.Context) (string, [][]int, string)) (ret string, res [][]int, errs string, forced bool) {
	for name, n := range w.nodes {
		n.Reset(s.O[name], true)
		// "gone": the node has left the cluster - it is still named in the replica sets, but the address book
		// no longer knows it.  Nothing can be asked of it; the call has to fail loudly
		if s.O[name] == "gone" {
			w.conn.RemoveNode(n.Id)
			defer w.conn.AddNode(n.Id, n.Addr)
		}
	}
	g := installGate(point)
	ctx, cancel := context.WithCancel(context.Background())
	defer cancel()
	type out struct {
		ret string
		res [][]int
		err string
	}
	done := make(chan out, 1)
	go func() {
		r, x, e := call(ctx)
		done <- out{r, x, e}
	}()
	// wait until every remote call is in flight (they were all spawned before the collector starts)
	forced = true
	budget := 120 * time.Millisecond
	if !w.warm {
		budget, w.warm = 2*time.Second, true // first call: connections are being dialled
	}
	deadline := time.Now().Add(budget)
	for name, n := range w.nodes {
		if s.O[name] == "gone" {
			continue
		}
		d := time.Until(deadline)
		if d < time.Millisecond {
			d = time.Millisecond
		}
		if !n.WaitArrived(d) {
			forced = false // this node was never asked (e.g. another one was asked twice)
		}
	}
	returned := false
	var o out
	for _, tok := range s.S {
		if returned {
			break
		}
		switch tok {
		case "C":
			select {
			case <-g.seen:
				g.release()
			case o = <-done:
				returned = true
			case <-time.After(100 * time.Millisecond):
				forced = false
			}
		case "X":
			cancel()
		default:
			n := w.nodes[tok]
			n.Release()
			if s.O[tok] != "slow" && s.O[tok] != "gone" {
				if !n.WaitFinished(150 * time.Millisecond) {
					forced = false
				}
			}
		}
		time.Sleep(settle)
	}
	g.openAll()
	if !returned {
		select {
		case o = <-done:
		case <-time.After(400 * time.Millisecond):
			// the schedule is exhausted: let everything that can finish, finish
			for name, n := range w.nodes {
				if s.O[name] != "slow" {
					n.Release()
				}
			}
			select {
			case o = <-done:
			case <-time.After(800 * time.Millisecond):
				cancel()
				select {
				case o = <-done:
					if o.ret != "ok" {
						o = out{"hang", nil, "returned only after the harness cancelled the context: " + o.err}
					}
				case <-time.After(2 * time.Second):
					o = out{"hang", nil, "call did not return"}
				}
			}
		}
	}
	cancel()
	for _, n := range w.nodes {
		n.Release()
	}
	storage.VerifGate = nil
	return o.ret, o.res, o.err, forced
}

func readScheds(path string) []sched {
	f, err := os.Open(path)
	if err != nil {
		panic(err)
	}
	defer f.Close()
	var out []sched
	sc := bufio.NewScanner(f)
	sc.Buffer(make([]byte, 1<<20), 1<<24)
	for sc.Scan() {
		var s sched
		if err := json.Unmarshal(sc.Bytes(), &s); err != nil {
			panic(err)
		}
		out = append(out, s)
	}
	return out
}

func main() {
	mode := os.Args[1]
	switch mode {
	case "search", "size":
		seed, _ := strconv.ParseInt(os.Args[4], 10, 64)
		stride, _ := strconv.Atoi(os.Args[5])
		runScheds(mode, readScheds(os.Args[2]), os.Args[3], seed, stride)
	case "parts":
		n, _ := strconv.Atoi(os.Args[2])
		seed, _ := strconv.ParseInt(os.Args[4], 10, 64)
		runParts(n, os.Args[3], seed)
	}
}

func runScheds(mode string, scheds []sched, out string, seed int64, stride int) {
	rng := rand.New(rand.NewSource(seed))
	w := newWorld()
	f, _ := os.Create(out)
	defer f.Close()
	bw := bufio.NewWriter(f)
	defer bw.Flush()
	enc := json.NewEncoder(bw)
	names := []string{"w1", "w2", "w3"}
	dsets := map[bool]*storage.Dataset{false: w.dataset(false, false), true: w.dataset(true, false)}
	colo := w.dataset(false, true)
	local3 := w.datasetN(3, false)
	for j := 0; j < 3; j++ {
		for x := 0; x <= j; x++ {
			local3.VerifPartitionIndex(3+j).Insert(itemId(200+10*j+x), vec(float32(x)), index.Metadata{"k": "v"}, 0)
		}
	}
	// contents: worker j's partition holds scores j and 10+j (as distances from the zero query)
	parts := map[string][]int{}
	for j, name := range names {
		n := w.nodes[name]
		n.Items[pid(j+1)] = []sim.Item{{Id: itemId(j + 1), Score: float32(j + 1)}, {Id: itemId(10 + j + 1), Score: float32(10 + j + 1)}}
		n.Sizes[pid(j+1)] = [2]uint64{1 << uint(j), 1 << uint(8+j)}
		parts[name] = []int{4 * (j + 1), 4 * (10 + j + 1)}
	}
	w.nodes["w1"].Items[pid(4)] = []sim.Item{{Id: itemId(40), Score: 2.5}, {Id: itemId(41), Score: 20.5}}
	localParts := []int{}
	// the local partition (dataset `true`) holds scores 5 and 6
	for _, sc := range []int{5, 6} {
		// Euclidean distance here is the squared one or not depending on the kernel: place by probing
		dsets[true].VerifPartitionIndex(3).Insert(itemId(100+sc), vec(float32(sc)), index.Metadata{}, 0)
		localParts = append(localParts, int(hx.NewSpace("euclidean").Distance(vec(0), vec(float32(sc)))*4+0.5))
	}
	hid := 0
	if mode == "size" {
		// the serving side of the remote lookups: a node answers only for partitions it hosts (an answer
		// for a partition hosted elsewhere - empty or stale - would silently enter somebody's sum)
		for _, d := range []struct {
			name string
			ds   *storage.Dataset
			loc  int
		}{{"remote3", dsets[false], 0}, {"remote3+local1", dsets[true], 1}, {"remote3+local3", local3, 3}} {
			for j := 0; j < 3+d.loc; j++ {
				p := pid(j + 1)
				if j >= 3 {
					p = pid(9 + j - 3)
				}
				hosted := 0
				if j >= 3 {
					hosted = 1
				}
				ln, by, err := d.ds.PartitionInfo(context.Background(), p)
				ev := event{Ev: "pinfo", Hid: hid, O: map[string]string{}, S: []string{d.name}, K: hosted, Parts: map[string][]int{}, Ret: "ok", Res: [][]int{{int(ln), int(by)}}}
				if err != nil {
					ev.Ret, ev.Err, ev.Res = "err", err.Error(), [][]int{}
				}
				if hosted == 1 {
					ev.Parts["local"] = []int{d.ds.VerifPartitionIndex(j).Len(), int(d.ds.VerifPartitionIndex(j).BytesSize())}
				}
				enc.Encode(ev)
			}
		}
	}
	for si, s := range scheds {
		if stride > 1 && (si+int(seed))%stride != 0 {
			continue
		}
		hid++
		if hid%5 == 2 {
			// every fifth schedule: the failing workers have left the cluster instead of answering with an error
			o2 := map[string]string{}
			for k, v := range s.O {
				if v == "err" {
					v = "gone"
				}
				o2[k] = v
			}
			s.O = o2
		}
		withLocal := mode == "size" && rng.Intn(2) == 0
		ds := dsets[withLocal]
		// as many local partitions as remote ones: the local answers alone must not satisfy the collector
		manyLocal := mode == "size" && !withLocal && rng.Intn(2) == 0
		if manyLocal {
			ds = local3
		}
		k := []int{1, 2, 3, 8}[rng.Intn(4)]
		colocated := mode == "search" && rng.Intn(3) == 0
		if colocated {
			ds = colo
		}
		ev := event{Ev: mode, Hid: hid, O: s.O, S: s.S, K: k, Parts: map[string][]int{}}
		for j, name := range names {
			if mode == "size" {
				ev.Parts[name] = []int{1 << uint(j), 1 << uint(8+j)}
			} else {
				ev.Parts[name] = parts[name]
			}
		}
		if withLocal {
			ev.Local = 1
			if mode == "search" {
				ev.Parts["local"] = localParts
			}
		}
		if colocated {
			ev.Parts["w1"] = append(append([]int{}, ev.Parts["w1"]...), 10, 82)
		}
		var forced bool
		if mode == "search" {
			ev.Ret, ev.Res, ev.Err, forced = w.force(s, "search.collect", func(ctx context.Context) (string, [][]int, string) {
				res, err := ds.Search(ctx, vec(0), uint(k))
				if err != nil {
					return "err", [][]int{}, err.Error()
				}
				out := [][]int{}
				for _, it := range res {
					out = append(out, []int{int(it.Id[14])<<8 | int(it.Id[15]), int(it.Score*4 + 0.5)})
				}
				if res == nil {
					return "ok", [][]int{}, "nil result"
				}
				return "ok", out, ""
			})
		} else {
			ev.Ret, ev.Res, ev.Err, forced = w.force(s, "size.collect", func(ctx context.Context) (string, [][]int, string) {
				l, b, err := ds.SizeInfo(ctx)
				if err != nil {
					return "err", [][]int{}, err.Error()
				}
				return "ok", [][]int{{int(l), int(b)}}, ""
			})
			if withLocal {
				ev.Parts["local"] = []int{dsets[true].VerifPartitionIndex(3).Len(), int(dsets[true].VerifPartitionIndex(3).BytesSize())}
			}
			if manyLocal {
				ev.Local = 3
				for j := 0; j < 3; j++ {
					ev.Parts[fmt.Sprintf("local%d", j+1)] = []int{local3.VerifPartitionIndex(3 + j).Len(), int(local3.VerifPartitionIndex(3 + j).BytesSize())}
				}
			}
			ev.Calls = map[string][]string{}
			for name, n := range w.nodes {
				c, _ := n.Snapshot()
				sort.Strings(c)
				ev.Calls[name] = c
			}
		}
		if mode == "search" {
			ev.Calls = map[string][]string{}
			for name, n := range w.nodes {
				c, _ := n.Snapshot()
				sort.Strings(c)
				ev.Calls[name] = c
			}
			np := 3
			if colocated {
				np = 4
			}
			ev.Asked = askedOnce(ev.Calls, np)
		}
		if ev.Res == nil {
			ev.Res = [][]int{}
		}
		if forced {
			ev.Forced = 1
		}
		enc.Encode(ev)
	}
	if mode == "search" {
		midStream(w, enc, hid)
	}
}

// midStream: partitions with TWO replicas (both scripted); the node that is asked first goes away in the middle of its
// answer, after one item.  The search fails loudly - or, if it is answered from the other replica after all, with exactly
// the top k of the partitions' items, each once (event "failover": parts = everything the two partitions hold).
func midStream(w *world, enc *json.Encoder, hid int) {
	w1, w2 := w.nodes["w1"], w.nodes["w2"]
	meta := pb.Dataset{Id: uuid.NewV4().Bytes(), Dimension: 3, Space: pb.Space_Euclidean, ReplicationFactor: 2, PartitionCount: 2}
	for i := 0; i < 2; i++ {
		meta.Partitions = append(meta.Partitions, &pb.Partition{Id: pid(20 + i).Bytes(), NodeIds: []uint64{w1.Id, w2.Id}})
	}
	ds, err := storage.NewVerifDataset(meta, w.db, w.tr, w.conn)
	if err != nil {
		panic(err)
	}
	for _, n := range []*sim.Node{w1, w2} {
		for i := 0; i < 2; i++ {
			n.Items[pid(20+i)] = []sim.Item{{Id: itemId(300 + i), Score: float32(1 + i)}, {Id: itemId(310 + i), Score: float32(11 + i)}}
		}
	}
	storage.VerifGate = nil
	for round := 0; round < 12; round++ {
		for _, n := range w.nodes {
			n.Reset("ok", false)
		}
		atomic.StoreUint64(&sim.MidStreamFailed, 0)
		atomic.StoreInt32(&sim.FailMidStreamOnce, 1)
		ctx, cancel := context.WithTimeout(context.Background(), 3*time.Second)
		res, err := ds.Search(ctx, vec(0), 4)
		cancel()
		atomic.StoreInt32(&sim.FailMidStreamOnce, 0)
		failed := atomic.LoadUint64(&sim.MidStreamFailed)
		o := map[string]string{"w1": "ok", "w2": "ok"}
		if failed == w1.Id {
			o["w1"] = "err"
		} else if failed == w2.Id {
			o["w2"] = "err"
		}
		ev := event{Ev: "failover", Hid: hid + 1 + round, O: o, S: []string{}, K: 4, Parts: map[string][]int{"all": {4, 8, 44, 48}},
			Ret: "ok", Res: [][]int{}, Asked: 1, Forced: 1}
		if err != nil {
			ev.Ret, ev.Err = "err", err.Error()
		} else {
			for _, r := range res {
				ev.Res = append(ev.Res, []int{int(r.Id[14])<<8 | int(r.Id[15]), int(r.Score*4 + 0.5)})
			}
		}
		enc.Encode(ev)
	}
}

// askedOnce: 1 if every one of the np partitions appears in exactly one request, 0 otherwise
func askedOnce(calls map[string][]string, np int) int {
	seen := map[string]int{}
	for _, cs := range calls {
		for _, c := range cs {
			for _, p := range strings.Split(c, ":")[1:] {
				seen[p]++
			}
		}
	}
	if len(seen) != np {
		return 0
	}
	for _, n := range seen {
		if n != 1 {
			return 0
		}
	}
	return 1
}

// runParts: SearchPartitions on local partitions; the collector is released
// early (before the workers can have finished) or late (after all of them have).
func runParts(n int, out string, seed int64) {
	rng := rand.New(rand.NewSource(seed))
	opt := badger.DefaultOptions("").WithInMemory(true).WithLogger(nil)
	db, _ := badger.Open(opt)
	conn, _ := cluster.NewConn(1, "127.0.0.1:1", "")
	tr := raft.NewTransport(1, "127.0.0.1:1", conn)
	f, _ := os.Create(out)
	defer f.Close()
	bw := bufio.NewWriter(f)
	defer bw.Flush()
	enc := json.NewEncoder(bw)
	for hid := 1; hid <= n; hid++ {
		np := 1 + rng.Intn(3)
		meta := pb.Dataset{Id: uuid.NewV4().Bytes(), Dimension: 3, Space: pb.Space_Euclidean, ReplicationFactor: 1}
		for i := 0; i < np; i++ {
			meta.Partitions = append(meta.Partitions, &pb.Partition{Id: pid(i + 1).Bytes(), NodeIds: []uint64{1}})
		}
		meta.PartitionCount = uint32(np)
		ds, err := storage.NewVerifDataset(meta, db, tr, conn)
		if err != nil {
			panic(err)
		}
		ev := event{Ev: "parts", Hid: hid, O: map[string]string{}, S: []string{}, Parts: map[string][]int{}}
		var pids []uuid.UUID
		for i := 0; i < np; i++ {
			name := fmt.Sprintf("w%d", i+1)
			ev.O[name] = "ok"
			ev.Parts[name] = []int{}
			for j := 0; j < rng.Intn(3); j++ {
				sc := 1 + i + 4*j
				ds.VerifPartitionIndex(i).Insert(itemId(sc), vec(float32(sc)), index.Metadata{"k": fmt.Sprint(sc)}, 0)
				ev.Parts[name] = append(ev.Parts[name], int(hx.NewSpace("euclidean").Distance(vec(0), vec(float32(sc)))*4+0.5))
			}
			pids = append(pids, pid(i+1))
		}
		ev.K = []int{1, 2, 8}[rng.Intn(3)]
		contents := func() string {
			out := []string{}
			for i := 0; i < np; i++ {
				for _, v := range ds.VerifPartitionIndex(i).VerifDump().Vertices {
					if v.Stored && !v.Deleted {
						ks := []string{}
						for k, x := range v.Metadata {
							ks = append(ks, k+"="+x)
						}
						sort.Strings(ks)
						out = append(out, fmt.Sprintf("%d:%s:%v:%s", i, v.Id, v.Vector, strings.Join(ks, ",")))
					}
				}
			}
			sort.Strings(out)
			return strings.Join(out, ";")
		}
		before := contents()
		late := rng.Intn(3) != 0
		g := installGate("searchpartitions.collect")
		if late {
			ev.S = []string{"late"}
		} else {
			ev.S = []string{"early"}
			g.openAll()
		}
		type outT struct {
			res index.SearchResult
			err error
		}
		done := make(chan outT, 1)
		go func() {
			r, e := ds.SearchPartitions(context.Background(), pids, vec(0), uint(ev.K))
			done <- outT{r, e}
		}()
		if late {
			time.Sleep(2 * time.Millisecond) // local workers (and a closer, if any) have long finished
			g.openAll()
		}
		select {
		case o := <-done:
			if o.err != nil {
				ev.Ret, ev.Err = "err", o.err.Error()
			} else {
				ev.Ret = "ok"
				if o.res == nil {
					ev.Err = "nil result"
				}
				for _, it := range o.res {
					ev.Res = append(ev.Res, []int{int(it.Id[14])<<8 | int(it.Id[15]), int(it.Score*4 + 0.5)})
				}
			}
		case <-time.After(3 * time.Second):
			ev.Ret, ev.Err = "hang", "call did not return"
		}
		if ev.Res == nil {
			ev.Res = [][]int{}
		}
		ev.Forced = 1
		storage.VerifGate = nil
		if ev.Ret != "hang" && contents() != before {
			ev.Mut = 1
		}
		enc.Encode(ev)
	}
}
