// Command route observes where the real Dataset write paths send an item (C10):
// every partition lives on its own scripted node, so the node (and, for batch
// paths, the partition id in the request) that receives a write identifies the
// owner the entry node computed.
//
//	route <trace.ndjson> <seed> <nids>
package main

import (
	"bufio"
	"context"
	"encoding/json"
	"math/rand"
	"os"
	"strconv"
	"strings"
	"time"

	badger "github.com/dgraph-io/badger/v2"
	"github.com/marekgalovic/anndb/cluster"
	amath "github.com/marekgalovic/anndb/math"
	pb "github.com/marekgalovic/anndb/protobuf"
	"github.com/marekgalovic/anndb/storage"
	"github.com/marekgalovic/anndb/storage/raft"
	uuid "github.com/satori/go.uuid"
	_ "verifharness/internal/hx"
	"verifharness/internal/sim"
)

type event struct {
	Ev    string `json:"ev"`
	Entry string `json:"entry"`
	Path  string `json:"path"`
	Id    int    `json:"id"`
	Np    int    `json:"np"`
	Got   int    `json:"got"`
	Dup   int    `json:"dup"`
	Err   string `json:"err"`
	Hex   string `json:"hex"`
}

func main() {
	out := os.Args[1]
	seed, _ := strconv.ParseInt(os.Args[2], 10, 64)
	nids, _ := strconv.Atoi(os.Args[3])
	rng := rand.New(rand.NewSource(seed))
	nbatches := nids
	f, _ := os.Create(out)
	defer f.Close()
	bw := bufio.NewWriter(f)
	defer bw.Flush()
	enc := json.NewEncoder(bw)
	db, _ := badger.Open(badger.DefaultOptions("").WithInMemory(true).WithLogger(nil))
	maxP := 67
	nodes := make([]*sim.Node, maxP)
	for i := range nodes {
		nodes[i] = sim.NewNode(uint64(10 + i))
	}
	// ids: extremes of both 64-bit halves plus random ones
	var ids []uuid.UUID
	ext := [][]byte{{0}, {0xff}, {0x80}, {0x7f}, {1}}
	for _, a := range ext {
		for _, b := range ext {
			var u uuid.UUID
			for i := 0; i < 8; i++ {
				u[i], u[8+i] = a[0], b[0]
			}
			ids = append(ids, u)
		}
	}
	for len(ids) < nids {
		var u uuid.UUID
		rng.Read(u[:])
		ids = append(ids, u)
	}
	for _, np := range []int{1, 2, 3, 7, 16, 64, 67} {
		enc.Encode(event{Ev: "dataset", Np: np})
		meta := pb.Dataset{Id: uuid.NewV4().Bytes(), Dimension: 2, Space: pb.Space_Euclidean, ReplicationFactor: 1, PartitionCount: uint32(np)}
		pids := make([]uuid.UUID, np)
		for i := 0; i < np; i++ {
			pids[i][0], pids[i][15] = 0x20, byte(i+1)
			meta.Partitions = append(meta.Partitions, &pb.Partition{Id: pids[i].Bytes(), NodeIds: []uint64{uint64(10 + i)}})
		}
		mk := func(self uint64) *storage.Dataset {
			conn, _ := cluster.NewConn(self, "127.0.0.1:1", "")
			tr := raft.NewTransport(self, "127.0.0.1:1", conn)
			for i := 0; i < np; i++ {
				if uint64(10+i) != self {
					conn.AddNode(uint64(10+i), nodes[i].Addr)
				}
			}
			ds, err := storage.NewVerifDataset(meta, db, tr, conn)
			if err != nil {
				panic(err)
			}
			return ds
		}
		entries := map[string]*storage.Dataset{"outside": mk(100), "host0": mk(10), "outside-restarted": mk(100)}
		for _, ename := range []string{"outside", "host0", "outside-restarted"} {
			ds := entries[ename]
			// reads through the entry node first (size, search): they must leave its routing table alone
			func() {
				for i := 0; i < np; i++ {
					nodes[i].Reset("ok", false)
					nodes[i].Sizes[pids[i]] = [2]uint64{uint64(i + 1), uint64(100 * (i + 1))}
				}
				ctx, cancel := context.WithTimeout(context.Background(), 2*time.Second)
				defer cancel()
				ds.SizeInfo(ctx)
				ds.Search(ctx, amath.Vector{1, 2}, 3)
				time.Sleep(30 * time.Millisecond)
			}()
			for k, id := range ids {
				for _, path := range []string{"insert", "update", "remove", "binsert", "bupdate", "bremove"} {
					for _, n := range nodes {
						n.Reset("ok", false)
					}
					ctx, cancel := context.WithTimeout(context.Background(), 2*time.Second)
					var err error
					item := []*pb.BatchItem{{Id: id.Bytes(), Value: []float32{1, 2}}}
					switch path {
					case "insert":
						err = ds.Insert(ctx, id, amath.Vector{1, 2}, nil)
					case "update":
						err = ds.Update(ctx, id, amath.Vector{1, 2}, nil)
					case "remove":
						err = ds.Remove(ctx, id)
					case "binsert":
						var errs map[uuid.UUID]error
						errs, err = ds.BatchInsert(ctx, item)
						if err == nil && errs[id] != nil {
							err = errs[id]
						}
					case "bupdate":
						var errs map[uuid.UUID]error
						errs, err = ds.BatchUpdate(ctx, item)
						if err == nil && errs[id] != nil {
							err = errs[id]
						}
					case "bremove":
						var errs map[uuid.UUID]error
						errs, err = ds.BatchRemove(ctx, item)
						if err == nil && errs[id] != nil {
							err = errs[id]
						}
					}
					cancel()
					ev := event{Ev: "route", Entry: ename, Path: path, Id: k, Np: np, Got: -1, Hex: id.String()}
					if err != nil {
						ev.Err = err.Error()
					}
					hits := 0
					for i := 0; i < np; i++ {
						calls, _ := nodes[i].Snapshot()
						for _, c := range calls {
							if strings.HasPrefix(c, "SearchPartitions") || strings.HasPrefix(c, "PartitionInfo") || strings.HasPrefix(c, "search") {
								continue // a straggler of the reads made before the writes
							}
							hits++
							ev.Got = i
							// batch paths carry the partition id: it must be the one this node hosts
							if strings.HasPrefix(c, "b") && !strings.HasSuffix(c, pids[i].String()) {
								ev.Got = -2
							}
						}
					}
					if err != nil && strings.Contains(err.Error(), storage.RaftNotLoadedOnNodeErr.Error()) && ename == "host0" {
						// applied locally at the entry node (its partition has no raft group in this harness)
						hits++
						ev.Got = 0
					}
					if hits > 1 {
						ev.Dup = 1
					}
					enc.Encode(ev)
				}
			}
			// batches of several items spanning partitions: every item is observed where it arrives
			for round := 0; round < nbatches; round++ {
				for _, path := range []string{"binsert", "bupdate", "bremove"} {
					for _, n := range nodes {
						n.Reset("ok", false)
					}
					size := 2 + rng.Intn(7)
					perm := rng.Perm(len(ids))[:size]
					var items []*pb.BatchItem
					for _, k := range perm {
						items = append(items, &pb.BatchItem{Id: ids[k].Bytes(), Value: []float32{1, 2}})
					}
					ctx, cancel := context.WithTimeout(context.Background(), 3*time.Second)
					var errs map[uuid.UUID]error
					var err error
					switch path {
					case "binsert":
						errs, err = ds.BatchInsert(ctx, items)
					case "bupdate":
						errs, err = ds.BatchUpdate(ctx, items)
					case "bremove":
						errs, err = ds.BatchRemove(ctx, items)
					}
					cancel()
					for _, k := range perm {
						id := ids[k]
						ev := event{Ev: "route", Entry: ename, Path: "m" + path, Id: k, Np: np, Got: -1, Hex: id.String()}
						e := err
						if e == nil {
							e = errs[id]
						}
						if e != nil {
							ev.Err = e.Error()
						}
						hits := 0
						for i := 0; i < np; i++ {
							for _, b := range nodes[i].BatchSnapshot() {
								if b[2] != id.String() {
									continue
								}
								hits++
								ev.Got = i
								if b[0] != path || b[1] != pids[i].String() {
									ev.Got = -2
								}
							}
						}
						if e != nil && strings.Contains(e.Error(), storage.RaftNotLoadedOnNodeErr.Error()) && ename == "host0" {
							hits++
							ev.Got = 0
						}
						if hits > 1 {
							ev.Dup = 1
						}
						enc.Encode(ev)
					}
				}
			}
		}
	}
}
