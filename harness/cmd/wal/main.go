// Command wal drives storage/wal's Badger log store next to etcd/raft's
// MemoryStorage for property C06.
//
//	wal replay <hist.ndjson> <trace.ndjson> [maxidx]
//	wal random <n> <maxlen> <seed> <trace.ndjson>
//	wal long <trace.ndjson> <n>:<snapshot bytes> ...   (logs of n entries compacted by one local snapshot)
//
// Every call is issued to both stores (several groups in ONE Badger database);
// after it every group's store is asked every query and both answer sets are logged.
package main

import (
	"bufio"
	"encoding/json"
	"fmt"
	"io/ioutil"
	"math/rand"
	"os"
	"strconv"

	etcdRaft "github.com/coreos/etcd/raft"
	pb "github.com/coreos/etcd/raft/raftpb"
	badger "github.com/dgraph-io/badger/v2"
	"github.com/marekgalovic/anndb/storage/wal"
	uuid "github.com/satori/go.uuid"
	_ "verifharness/internal/hx"
)

type wop struct {
	Op    string `json:"op"`
	G     string `json:"g"`
	Start int    `json:"start"`
	Terms []int  `json:"terms"`
	Hs    int    `json:"hs"`
	Sidx  int    `json:"sidx"`
	Sterm int    `json:"sterm"`
	Idx   int    `json:"idx"`
}

type obs struct {
	First int             `json:"first"`
	Last  int             `json:"last"`
	Terms [][]interface{} `json:"terms"`
	Sidx  int             `json:"sidx"`
	Sterm int             `json:"sterm"`
	Sdata string          `json:"sdata"`
	Scs   int             `json:"scs"`
	Hs    int             `json:"hs"`
	Ics   int             `json:"ics"`
	Ents  [][]interface{} `json:"ents"`
	Err   string          `json:"qerr,omitempty"`
}

type event struct {
	Ev    string         `json:"ev"`
	Hid   int            `json:"hid"`
	G     string         `json:"g"`
	Start int            `json:"start"`
	Terms []int          `json:"terms"`
	Hs    int            `json:"hs"`
	Sidx  int            `json:"sidx"`
	Sterm int            `json:"sterm"`
	Idx   int            `json:"idx"`
	Err   string         `json:"err"`
	B     map[string]obs `json:"b,omitempty"`
	M     map[string]obs `json:"m,omitempty"`
}

func code(err error) string {
	switch err {
	case nil:
		return "ok"
	case etcdRaft.ErrCompacted:
		return "compacted"
	case etcdRaft.ErrUnavailable:
		return "unavailable"
	}
	return "err:" + err.Error()
}

func observe(s etcdRaft.Storage, maxIdx int) (o obs) {
	defer func() {
		if r := recover(); r != nil {
			o.Err = fmt.Sprint("panic: ", r)
		}
	}()
	o.Terms, o.Ents = [][]interface{}{}, [][]interface{}{}
	fi, e1 := s.FirstIndex()
	li, e2 := s.LastIndex()
	o.First, o.Last = int(fi), int(li)
	if e1 != nil || e2 != nil {
		o.Err = fmt.Sprint("first/last: ", e1, e2)
		o.First, o.Last = -1, -1
	}
	for i := 0; i <= maxIdx+1; i++ {
		tm, err := s.Term(uint64(i))
		o.Terms = append(o.Terms, []interface{}{int(tm), code(err)})
	}
	sn, err := s.Snapshot()
	if err != nil {
		o.Err += " snapshot: " + err.Error()
	}
	o.Sidx, o.Sterm, o.Sdata, o.Scs = int(sn.Metadata.Index), int(sn.Metadata.Term), string(sn.Data), len(sn.Metadata.ConfState.Nodes)
	hs, cs, err := s.InitialState()
	if err != nil {
		o.Err += " initialstate: " + err.Error()
	}
	o.Hs, o.Ics = int(hs.Term), len(cs.Nodes)
	if e1 == nil && e2 == nil && li < 1<<20 {
		lo0 := fi
		if lo0 > 1 {
			lo0--
		}
		for lo := lo0; lo <= li; lo++ {
			for hi := lo + 1; hi <= li+1; hi++ {
				for _, units := range []int{-1, 0, 1, 2} {
					var mx uint64 = 1 << 40
					if units >= 0 {
						mx = uint64(units) * uint64(entSize)
					}
					es, err := s.Entries(lo, hi, mx)
					lst := []interface{}{}
					for _, e := range es {
						d := 0
						if string(e.Data) == "d" {
							d = 1
						}
						lst = append(lst, []interface{}{int(e.Index), int(e.Term), d})
					}
					o.Ents = append(o.Ents, []interface{}{int(lo), int(hi), units, lst, code(err)})
				}
			}
		}
	}
	return o
}

var entSize = (&pb.Entry{Index: 1, Term: 1, Data: []byte("d")}).Size()

type stores struct {
	db   *badger.DB
	gids map[string]uuid.UUID
	bw   map[string]wal.WAL
	ms   map[string]*etcdRaft.MemoryStorage
	cs   *pb.ConfState
}

// groupIds: the ids of the groups of history hid.  Fresh per history (all histories share one database), but
// not always two unrelated random ids: the server keeps the zero group (uuid.Nil) next to partition groups in one
// database, and "groups never see each other's data" must hold for ids that differ in a single byte at either
// end of the key, wherever the key layout puts the id.
var storeSeq int

func groupIds(db *badger.DB, groups []string) map[string]uuid.UUID {
	storeSeq++
	out := map[string]uuid.UUID{}
	base := uuid.NewV4()
	for i, g := range groups {
		id := base
		switch storeSeq % 6 {
		case 0, 3:
			id = uuid.NewV4()
		case 1: // differ only in the last byte
			id[15] = byte(i)
		case 2: // differ only in the first byte
			id[0] = byte(i)
		case 4: // differ only in the last but one byte, 0xff / 0xfe at the end
			id[14] = byte(0xff - i)
			id[15] = 0xff
		case 5: // differ only in byte 13
			id[13] = byte(i * 16)
		}
		out[g] = id
	}
	if storeSeq%101 == 7 { // the zero group's id and its neighbour
		if err := db.DropAll(); err != nil {
			panic(err)
		}
		for i, g := range groups {
			id := uuid.Nil
			id[15] = byte(i)
			out[g] = id
		}
	}
	return out
}

func newStores(db *badger.DB, groups []string) *stores {
	s := &stores{db: db, gids: groupIds(db, groups), bw: map[string]wal.WAL{}, ms: map[string]*etcdRaft.MemoryStorage{},
		cs: &pb.ConfState{Nodes: []uint64{1}}}
	for _, g := range groups {
		s.bw[g] = wal.NewBadgerWAL(db, s.gids[g])
		s.ms[g] = etcdRaft.NewMemoryStorage()
	}
	return s
}

func (s *stores) exec(o wop, hid, maxIdx int) (ev event) {
	ev = event{Ev: o.Op, Hid: hid, G: o.G, Start: o.Start, Terms: o.Terms, Hs: o.Hs, Sidx: o.Sidx, Sterm: o.Sterm, Idx: o.Idx}
	if ev.Terms == nil {
		ev.Terms = []int{}
	}
	func() {
		defer func() {
			if p := recover(); p != nil {
				ev.Err = fmt.Sprint("panic: ", p)
			}
		}()
		switch o.Op {
		case "save":
			var ents []pb.Entry
			for i, tm := range o.Terms {
				ents = append(ents, pb.Entry{Index: uint64(o.Start + i), Term: uint64(tm), Data: []byte("d")})
			}
			var hs pb.HardState
			if o.Hs != 0 {
				hs = pb.HardState{Term: uint64(o.Hs), Vote: 1, Commit: 0}
			}
			var sn pb.Snapshot
			if o.Sidx > 0 {
				sn = pb.Snapshot{Data: []byte("s"), Metadata: pb.SnapshotMetadata{Index: uint64(o.Sidx), Term: uint64(o.Sterm), ConfState: *s.cs}}
			}
			if err := s.bw[o.G].Save(hs, ents, sn); err != nil {
				ev.Err = "save: " + err.Error()
			}
			if o.Sidx > 0 {
				s.ms[o.G].ApplySnapshot(sn)
			}
			if len(ents) > 0 {
				s.ms[o.G].Append(ents)
			}
			if o.Hs != 0 {
				s.ms[o.G].SetHardState(hs)
			}
		case "compact":
			if _, err := s.bw[o.G].CreateSnapshot(uint64(o.Idx), s.cs, []byte("c")); err != nil {
				ev.Err = "createsnapshot: " + err.Error()
			}
			s.ms[o.G].CreateSnapshot(uint64(o.Idx), s.cs, []byte("c"))
			s.ms[o.G].Compact(uint64(o.Idx))
		case "reopen":
			s.bw[o.G] = wal.NewBadgerWAL(s.db, s.gids[o.G])
		case "delete":
			if err := s.bw[o.G].DeleteGroup(); err != nil {
				ev.Err = "deletegroup: " + err.Error()
			}
			// the group may come back under the same id (a replica that moved away and returns): through a new
			// instance, or - as storage.partition does, which keeps its instance across unloadRaft / loadRaft -
			// through the very instance that deleted it.  Either must look like a fresh store
			if (hid+len(o.G))%2 == 0 {
				s.bw[o.G] = wal.NewBadgerWAL(s.db, s.gids[o.G])
			}
			s.ms[o.G] = etcdRaft.NewMemoryStorage()
		}
	}()
	ev.B, ev.M = map[string]obs{}, map[string]obs{}
	for g := range s.gids {
		ev.B[g] = observe(s.bw[g], maxIdx)
		ev.M[g] = observe(s.ms[g], maxIdx)
	}
	return ev
}

func main() {
	dir, _ := ioutil.TempDir(os.Getenv("VERIF_SCRATCH"), "walconf")
	defer os.RemoveAll(dir)
	db, err := badger.Open(badger.LSMOnlyOptions(dir).WithLogger(nil))
	if err != nil {
		panic(err)
	}
	defer db.Close()
	groups := []string{"g1", "g2"}
	switch os.Args[1] {
	case "replay":
		maxIdx := 4
		if len(os.Args) > 4 {
			maxIdx, _ = strconv.Atoi(os.Args[4])
		}
		f, err := os.Open(os.Args[2])
		if err != nil {
			panic(err)
		}
		defer f.Close()
		w, _ := os.Create(os.Args[3])
		defer w.Close()
		bw := bufio.NewWriterSize(w, 1<<20)
		defer bw.Flush()
		enc := json.NewEncoder(bw)
		sc := bufio.NewScanner(f)
		sc.Buffer(make([]byte, 1<<20), 1<<26)
		hid := 0
		for sc.Scan() {
			var r struct {
				H []wop `json:"h"`
			}
			if err := json.Unmarshal(sc.Bytes(), &r); err != nil {
				panic(err)
			}
			hid++
			s := newStores(db, groups)
			enc.Encode(event{Ev: "reset", Hid: hid, Terms: []int{}})
			for _, o := range r.H {
				enc.Encode(s.exec(o, hid, maxIdx))
			}
			enc.Encode(event{Ev: "end", Hid: hid, Terms: []int{}})
		}
	case "long":
		w, _ := os.Create(os.Args[2])
		defer w.Close()
		for hid, a := range os.Args[3:] {
			var n, sb int
			fmt.Sscanf(a, "%d:%d", &n, &sb)
			long(db, json.NewEncoder(w), hid+1, n, sb)
		}
	case "random":
		n, _ := strconv.Atoi(os.Args[2])
		maxlen, _ := strconv.Atoi(os.Args[3])
		seed, _ := strconv.ParseInt(os.Args[4], 10, 64)
		random(db, groups, n, maxlen, seed, os.Args[5])
	}
}

// random: legal call sequences over a larger index / term range, driven by the
// MemoryStorage's own answers (which the trace validation checks against the spec).
func random(db *badger.DB, groups []string, n, maxlen int, seed int64, out string) {
	rng := rand.New(rand.NewSource(seed))
	w, _ := os.Create(out)
	defer w.Close()
	bw := bufio.NewWriterSize(w, 1<<20)
	defer bw.Flush()
	enc := json.NewEncoder(bw)
	const maxIdx, maxTerm = 8, 5
	for hid := 1; hid <= n; hid++ {
		s := newStores(db, groups)
		enc.Encode(event{Ev: "reset", Hid: hid, Terms: []int{}})
		hsn := map[string]int{}
		last := ""
		for i := 0; i < 1+rng.Intn(maxlen); i++ {
			g := groups[rng.Intn(len(groups))]
			m := s.ms[g]
			fi, _ := m.FirstIndex()
			li, _ := m.LastIndex()
			sn, _ := m.Snapshot()
			var o wop
			switch x := rng.Intn(100); {
			case x < 45: // append / overwrite
				start := int(fi) + rng.Intn(int(li)-int(fi)+2)
				pt, _ := m.Term(uint64(start - 1))
				t := int(pt)
				if t == 0 {
					t = 1
				}
				var terms []int
				for k := 0; k < 1+rng.Intn(3) && start+k <= maxIdx; k++ {
					if rng.Intn(3) == 0 && t < maxTerm {
						t++
					}
					terms = append(terms, t)
				}
				if len(terms) == 0 {
					continue
				}
				o = wop{Op: "save", G: g, Start: start, Terms: terms}
				if rng.Intn(2) == 0 {
					hsn[g] = hsn[g]%3 + 1
					o.Hs = hsn[g]
				}
			case x < 55:
				hsn[g] = hsn[g]%3 + 1
				o = wop{Op: "save", G: g, Hs: hsn[g]}
			case x < 67: // received snapshot
				if int(sn.Metadata.Index) >= maxIdx {
					continue
				}
				idx := int(sn.Metadata.Index) + 1 + rng.Intn(maxIdx-int(sn.Metadata.Index))
				t := 1 + rng.Intn(maxTerm)
				if uint64(idx) <= li && uint64(idx) >= fi-1 {
					if et, err := m.Term(uint64(idx)); err == nil && int(et) == t {
						continue
					}
				}
				o = wop{Op: "save", G: g, Sidx: idx, Sterm: t}
				if rng.Intn(2) == 0 && idx+1 <= maxIdx {
					o.Start, o.Terms = idx+1, []int{t}
				}
			case x < 80: // local snapshot + compaction
				lo := int(sn.Metadata.Index) + 1
				if lo < int(fi) {
					lo = int(fi)
				}
				if lo > int(li) {
					continue
				}
				o = wop{Op: "compact", G: g, Idx: lo + rng.Intn(int(li)-lo+1)}
			case x < 93:
				if last == "reopen" {
					continue
				}
				o = wop{Op: "reopen", G: g}
			default:
				o = wop{Op: "delete", G: g}
				hsn[g] = 0
			}
			last = o.Op
			enc.Encode(s.exec(o, hid, maxIdx))
		}
		enc.Encode(event{Ev: "end", Hid: hid, Terms: []int{}})
	}
}

// summary: the answers of a store with a long log, at the places where something can differ
func summary(s etcdRaft.Storage) (out string) {
	defer func() {
		if r := recover(); r != nil {
			out = fmt.Sprint("panic: ", r)
		}
	}()
	fi, e1 := s.FirstIndex()
	li, e2 := s.LastIndex()
	out = fmt.Sprintf("first=%d,%s last=%d,%s", fi, code(e1), li, code(e2))
	for _, i := range []uint64{0, 1, 2, fi - 2, fi - 1, fi, fi + 1, li - 1, li, li + 1} {
		if int64(i) < 0 {
			continue
		}
		tm, err := s.Term(i)
		out += fmt.Sprintf(" t%d=%d,%s", i, tm, code(err))
	}
	sn, err := s.Snapshot()
	dh := uint64(0)
	for _, b := range sn.Data {
		dh = dh*1000003 + uint64(b)
	}
	out += fmt.Sprintf(" snap=%d,%d,%d:%x,%d,%s", sn.Metadata.Index, sn.Metadata.Term, len(sn.Data), dh, len(sn.Metadata.ConfState.Nodes), code(err))
	hs, cs, err := s.InitialState()
	out += fmt.Sprintf(" init=%d,%d,%s", hs.Term, len(cs.Nodes), code(err))
	for _, r := range [][2]uint64{{fi, li + 1}, {fi - 1, fi + 1}, {1, 3}, {li, li + 1}} {
		if int64(r[0]) < 0 {
			continue
		}
		es, err := s.Entries(r[0], r[1], 1<<40)
		h := uint64(0)
		for _, e := range es {
			h = h*1000003 + e.Index*31 + e.Term
		}
		out += fmt.Sprintf(" e[%d,%d)=%d,%x,%s", r[0], r[1], len(es), h, code(err))
	}
	return out
}

// long: a write burst between two snapshot rounds.  n entries are appended in batches, a local snapshot at n-2
// compacts them in one call, the store is reopened and written to again; after every stage both stores answer.
func long(db *badger.DB, enc *json.Encoder, hid, n, snapBytes int) {
	gid := uuid.NewV4()
	data := make([]byte, snapBytes)
	for i := range data {
		data[i] = byte('a' + i%7)
	}
	var bw wal.WAL = wal.NewBadgerWAL(db, gid)
	ms := etcdRaft.NewMemoryStorage()
	cs := &pb.ConfState{Nodes: []uint64{1}}
	enc.Encode(event{Ev: "reset", Hid: hid, Terms: []int{}})
	stage := func(name string, fn func() error) {
		errs := ""
		func() {
			defer func() {
				if r := recover(); r != nil {
					errs = fmt.Sprint("panic: ", r)
				}
			}()
			if err := fn(); err != nil {
				errs = err.Error()
			}
		}()
		enc.Encode(map[string]interface{}{"ev": "long", "stage": name, "n": n, "snapbytes": snapBytes, "err": errs, "lb": summary(bw), "lm": summary(ms)})
	}
	stage("append", func() error {
		for at := 1; at <= n; at += 5000 {
			var ents []pb.Entry
			for i := at; i < at+5000 && i <= n; i++ {
				ents = append(ents, pb.Entry{Index: uint64(i), Term: uint64(1 + i/(n/3+1)), Data: []byte("d")})
			}
			if err := bw.Save(pb.HardState{Term: 3, Vote: 1}, ents, pb.Snapshot{}); err != nil {
				return err
			}
			ms.Append(ents)
			ms.SetHardState(pb.HardState{Term: 3, Vote: 1})
		}
		return nil
	})
	stage("compact", func() error {
		ms.CreateSnapshot(uint64(n-2), cs, data)
		ms.Compact(uint64(n - 2))
		_, err := bw.CreateSnapshot(uint64(n-2), cs, data)
		return err
	})
	stage("reopen", func() error { bw = wal.NewBadgerWAL(db, gid); return nil })
	stage("append2", func() error {
		ents := []pb.Entry{{Index: uint64(n + 1), Term: 3, Data: []byte("d")}, {Index: uint64(n + 2), Term: 3, Data: []byte("d")}}
		ms.Append(ents)
		return bw.Save(pb.HardState{}, ents, pb.Snapshot{})
	})
	stage("compact2", func() error {
		ms.CreateSnapshot(uint64(n+1), cs, []byte("c"))
		ms.Compact(uint64(n + 1))
		_, err := bw.CreateSnapshot(uint64(n+1), cs, []byte("c"))
		return err
	})
	stage("reopen2", func() error { bw = wal.NewBadgerWAL(db, gid); return nil })
	enc.Encode(event{Ev: "end", Hid: hid, Terms: []int{}})
}
