// Command pq drives the real utils.PriorityQueue for property C19.
//
//	pq replay <histories.ndjson> <trace.ndjson> <drift.json>
//	    replays TLC-emitted histories {h:[ops], st:[model projection]} and logs one
//	    event per call (result + ToSlice of every queue object after it); compares
//	    the final contents with the model's projection (exact layer -> drift).
//	pq random <n> <maxlen> <seed> <trace.ndjson>
//	    seeded random histories beyond the bounded universe (ties, 3 queue objects).
package main

import (
	"bufio"
	"encoding/json"
	"fmt"
	"math"
	"math/rand"
	"os"
	"strconv"

	"github.com/marekgalovic/anndb/utils"
)

type item struct {
	P int
	T string
}

type op struct {
	Op    string `json:"op"`
	Items []struct {
		P int    `json:"p"`
		T string `json:"t"`
	} `json:"items,omitempty"`
	Kind string `json:"kind,omitempty"`
	Q    int    `json:"q,omitempty"`
	P    int    `json:"p,omitempty"`
	T    string `json:"t,omitempty"`
}

type qproj struct {
	Kind string          `json:"kind"`
	Arr  [][]interface{} `json:"arr"`
}

type hist struct {
	H  []op    `json:"h"`
	St []qproj `json:"st"`
}

type event struct {
	Ev    string          `json:"ev"`
	Hid   int             `json:"hid"`
	I     int             `json:"i"`
	Kind  string          `json:"kind,omitempty"`
	Q     int             `json:"q,omitempty"`
	P     int             `json:"p"`
	T     string          `json:"t"`
	Msg   string          `json:"msg,omitempty"`
	Items [][]interface{} `json:"items,omitempty"`
	Qs    [][]interface{} `json:"qs"`
	Quiet int             `json:"quiet"` // 1: the queues were NOT looked at after this call (qs is empty)
}

type runner struct {
	qs    []utils.PriorityQueue
	kinds []string
	// quiet: no accessor is called between the operations of the history (looking at a queue - ToSlice, Values, Len -
	// may itself tidy up what an operation left behind); the queues are dumped after the last operation only
	quiet bool
}

func contents(q utils.PriorityQueue) []interface{} {
	s := q.ToSlice()
	out := make([]interface{}, len(s))
	for i, it := range s {
		v := it.Value().(item)
		out[i] = []interface{}{int(it.Priority()), v.T}
	}
	return out
}

func (r *runner) dump() [][]interface{} {
	out := make([][]interface{}, len(r.qs))
	for i, q := range r.qs {
		out[i] = contents(q)
	}
	return out
}

// exec runs one op; returns the event (with real result).
func (r *runner) exec(o op, hid, i int) (ev event) {
	ev = event{Ev: o.Op, Hid: hid, I: i, Q: o.Q}
	defer func() {
		if x := recover(); x != nil {
			ev = event{Ev: "panic", Hid: hid, I: i, Q: o.Q, Msg: fmt.Sprint(x)}
			ev.Qs = [][]interface{}{}
		}
	}()
	switch o.Op {
	case "new":
		var its []*utils.PriorityQueueItem
		ev.Items = [][]interface{}{}
		for _, it := range o.Items {
			its = append(its, utils.NewPriorityQueueItem(float32(it.P), item{it.P, it.T}))
			ev.Items = append(ev.Items, []interface{}{it.P, it.T})
		}
		if o.Kind == "min" {
			r.qs = []utils.PriorityQueue{utils.NewMinPriorityQueue(its...)}
		} else {
			r.qs = []utils.PriorityQueue{utils.NewMaxPriorityQueue(its...)}
		}
		r.kinds = []string{o.Kind}
		ev.Kind = o.Kind
	case "push":
		prio := float32(o.P)
		if o.P == 0 && o.T >= "e" {
			prio = float32(math.Copysign(0, -1)) // negative zero: equal to zero, not below it - a legal priority
		}
		r.qs[o.Q-1].Push(utils.NewPriorityQueueItem(prio, item{o.P, o.T}))
		ev.P, ev.T = o.P, o.T
	case "pop":
		if (hid+i)%3 == 0 && !r.quiet {
			readOnly(r.qs[o.Q-1])
		}
		it := r.qs[o.Q-1].Pop()
		ev.P, ev.T = int(it.Priority()), it.Value().(item).T
	case "peek":
		if (hid+i)%2 == 0 && !r.quiet {
			readOnly(r.qs[o.Q-1])
		}
		it := r.qs[o.Q-1].Peek()
		ev.P, ev.T = int(it.Priority()), it.Value().(item).T
	case "reverse":
		nq := r.qs[o.Q-1].Reverse()
		r.qs = append(r.qs, nq)
		// the new queue's kind is observable only through its later pops / peeks,
		// which the trace specification checks against the opposite order
	}
	if r.quiet {
		ev.Qs, ev.Quiet = [][]interface{}{}, 1
	} else {
		ev.Qs = r.dump()
	}
	return ev
}

// readOnly calls the accessors that only look at a queue; whatever order they report in, the queue itself pops and
// peeks afterwards as if nobody had looked
func readOnly(q utils.PriorityQueue) {
	if n := len(q.Values()); n != q.Len() {
		panic(fmt.Sprintf("Values() has %d elements, Len() is %d", n, q.Len()))
	}
	_ = q.ToSlice()
}

func main() {
	if len(os.Args) < 2 {
		fmt.Fprintln(os.Stderr, "usage: pq replay|random ...")
		os.Exit(2)
	}
	switch os.Args[1] {
	case "replay":
		replay(os.Args[2], os.Args[3], os.Args[4])
	case "random":
		n, _ := strconv.Atoi(os.Args[2])
		ml, _ := strconv.Atoi(os.Args[3])
		seed, _ := strconv.ParseInt(os.Args[4], 10, 64)
		random(n, ml, seed, os.Args[5])
	}
}

func replay(in, out, driftOut string) {
	f, err := os.Open(in)
	if err != nil {
		panic(err)
	}
	defer f.Close()
	w, _ := os.Create(out)
	defer w.Close()
	bw := bufio.NewWriterSize(w, 1<<20)
	defer bw.Flush()
	enc := json.NewEncoder(bw)
	sc := bufio.NewScanner(f)
	sc.Buffer(make([]byte, 1<<20), 1<<26)
	type drift struct {
		Hid  int         `json:"hid"`
		H    []op        `json:"h"`
		Real interface{} `json:"real"`
		Exp  interface{} `json:"model"`
	}
	var drifts []drift
	nd, hid, nev := 0, 0, 0
	for sc.Scan() {
		var h hist
		if err := json.Unmarshal(sc.Bytes(), &h); err != nil {
			panic(err)
		}
		hid++
		r := &runner{}
		var last event
		for i, o := range h.H {
			r.quiet = hid%2 == 1 && i < len(h.H)-1
			last = r.exec(o, hid, i)
			enc.Encode(last)
			nev++
			if last.Ev == "panic" {
				break
			}
		}
		// exact layer: contents in array order
		real, _ := json.Marshal(last.Qs)
		exp := make([][]interface{}, len(h.St))
		for i, q := range h.St {
			exp[i] = make([]interface{}, len(q.Arr))
			for j, a := range q.Arr {
				exp[i][j] = a
			}
		}
		expj, _ := json.Marshal(exp)
		if string(real) != string(expj) {
			nd++
			if len(drifts) < 20 {
				drifts = append(drifts, drift{hid, h.H, last.Qs, exp})
			}
		}
	}
	df, _ := os.Create(driftOut)
	json.NewEncoder(df).Encode(map[string]interface{}{"histories": hid, "events": nev, "drift": nd, "samples": drifts})
	df.Close()
}

func random(n, maxlen int, seed int64, out string) {
	rng := rand.New(rand.NewSource(seed))
	w, _ := os.Create(out)
	defer w.Close()
	bw := bufio.NewWriterSize(w, 1<<20)
	defer bw.Flush()
	enc := json.NewEncoder(bw)
	tags := []string{"a", "b", "c", "d", "e", "f", "g", "h"}
	for hid := 1; hid <= n; hid++ {
		r := &runner{}
		kind := "min"
		if rng.Intn(2) == 0 {
			kind = "max"
		}
		first := op{Op: "new", Kind: kind}
		held := []map[item]bool{{}}
		for k := rng.Intn(4); k > 0; k-- {
			it := item{1 + rng.Intn(5), tags[rng.Intn(len(tags))]}
			if !held[0][it] {
				held[0][it] = true
				first.Items = append(first.Items, struct {
					P int    `json:"p"`
					T string `json:"t"`
				}{it.P, it.T})
			}
		}
		enc.Encode(r.exec(first, hid, 0))
		nprio := 1 + rng.Intn(6)
		ln := 1 + rng.Intn(maxlen)
		for i := 1; i <= ln; i++ {
			q := rng.Intn(len(r.qs))
			var o op
			x := rng.Intn(10)
			switch {
			case x < 5 || r.qs[q].Len() == 0:
				it := item{rng.Intn(nprio + 1), tags[rng.Intn(len(tags))]}
				if held[q][it] {
					continue
				}
				o = op{Op: "push", Q: q + 1, P: it.P, T: it.T}
			case x < 8:
				o = op{Op: "pop", Q: q + 1}
			case x < 9:
				o = op{Op: "peek", Q: q + 1}
			default:
				if len(r.qs) >= 4 {
					continue
				}
				o = op{Op: "reverse", Q: q + 1}
			}
			ev := r.exec(o, hid, i)
			enc.Encode(ev)
			if ev.Ev == "panic" {
				break
			}
			switch o.Op {
			case "push":
				held[q][item{o.P, o.T}] = true
			case "pop":
				delete(held[q], item{ev.P, ev.T})
			case "reverse":
				m := map[item]bool{}
				for k := range held[q] {
					m[k] = true
				}
				held = append(held, m)
			}
		}
	}
}
