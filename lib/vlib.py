"""Common machinery for the anndb TLA+ model-based checks.

A check is a python module /verif/checks/cNN.py exposing run(ctx).  The driver
(/verif/bin/check) builds a Ctx, calls run, writes the evidence file and maps
the outcome onto the exit-code contract of DESIGN.md section 3:

  0  property held on everything explored (KNOWN-FINDING / MODEL-DRIFT lines allowed)
  1  VIOLATION property=<id> replay=<path>   (real-code behaviour violates the property)
  2  no verdict (tool failure, harness failure, spec bug, unreproduced stall)
"""
import hashlib
import json
import os
import re
import shutil
import subprocess
import sys
import time

VERIF = os.path.dirname(os.path.dirname(os.path.abspath(__file__)))
REPO = os.environ.get("VERIF_REPO", "/repo")
SPEC = os.path.join(VERIF, "spec")
HARNESS = os.path.join(VERIF, "harness")
TLA_CP = "/opt/veriftools/tla/tla2tools.jar:/opt/veriftools/tla/CommunityModules-deps.jar"
NCPU = os.cpu_count() or 4


class NoVerdict(Exception):
    """Raised when the machinery itself failed: exit 2, never a violation."""


def goenv():
    e = dict(os.environ)
    e.update(GOFLAGS="-mod=mod", GOPROXY="off", GOSUMDB="off", GOTOOLCHAIN="local")
    e.setdefault("GOCACHE", os.path.expanduser("~/.cache/go-build"))
    return e


class TlcResult:
    def __init__(self, rc, out_path, wall):
        self.rc = rc
        self.out_path = out_path
        self.wall = wall
        self.generated = 0
        self.distinct = 0
        self.depth = 0
        self.violated = []      # names of violated invariants / properties
        self.deadlock = False
        self.errors = []        # other error lines
        self.finished = False
        self.coverage_zero = []

    def text(self, limit=4000):
        with open(self.out_path, errors="replace") as f:
            t = f.read()
        return t[-limit:]


_RE_STATES = re.compile(r"^(\d+) states generated, (\d+) distinct states found, (\d+) states left on queue")
_RE_DEPTH = re.compile(r"The depth of the complete state graph search is (\d+)")
_RE_INV = re.compile(r"Error: Invariant (\S+) is violated")
_RE_PROP = re.compile(r"Error: (?:Action|Temporal) property (\S+) (?:is|was) violated")
_RE_SIMSTATES = re.compile(r"The number of states generated: (\d+)")


def parse_tlc(res, keep_lines=None):
    """Scan a TLC output file for counts and errors.  keep_lines: optional
    callable(line) invoked for every line (used to harvest PrintT output)."""
    with open(res.out_path, errors="replace") as f:
        for line in f:
            if keep_lines is not None:
                keep_lines(line)
            m = _RE_STATES.match(line)
            if m:
                res.generated, res.distinct = int(m.group(1)), int(m.group(2))
                continue
            if line.startswith("Model checking completed") or line.startswith("Finished in"):
                res.finished = True
            m = _RE_DEPTH.search(line)
            if m:
                res.depth = int(m.group(1))
            m = _RE_SIMSTATES.search(line)
            if m:
                res.generated = max(res.generated, int(m.group(1)))
            if line.startswith("Error:"):
                m = _RE_INV.match(line)
                if m:
                    res.violated.append(m.group(1))
                    continue
                m = _RE_PROP.match(line)
                if m:
                    res.violated.append(m.group(1))
                    continue
                if "Deadlock reached" in line:
                    res.deadlock = True
                    continue
                if "The behavior up to this point is" in line or "The following behavior" in line:
                    continue
                res.errors.append(line.strip())
    return res


class Ctx:
    def __init__(self, pid, tier, seed, replay=None):
        self.pid = pid
        self.tier = tier
        self.seed = seed
        self.replay = replay
        self.t0 = time.time()
        self.scratch = os.path.join(VERIF, ".scratch", "%s-%s-%d" % (pid, tier, os.getpid()))
        shutil.rmtree(self.scratch, ignore_errors=True)
        os.makedirs(self.scratch)
        self.replay_dir = os.path.join(VERIF, "replays")
        os.makedirs(self.replay_dir, exist_ok=True)
        self.violations = []        # (signature, replay_path)
        self.known_hit = {}         # signature -> count
        self.drift = []
        self.cov = {"states": 0, "transitions": 0, "traces_validated_against_impl": 0,
                    "samples": [], "configs": [], "coverage_zero_actions": [],
                    "binding_selftest": {}, "exhaustive": False}
        self.assumptions = []
        self.notes = []
        self._spec_ready = False
        self._known = load_known()
        self._printed_known = set()
        # --replay <file>: checks with a dedicated replay path read ctx.replay themselves; for the others the
        # driver re-runs the check with the replay file's tier and seed and reports only that file's signature
        self.replay_sig = None

    # ------------------------------------------------------------------ utils
    def log(self, *a):
        print("[%s %6.1fs]" % (self.pid, time.time() - self.t0), *a, flush=True)

    def cleanup(self):
        if not os.environ.get("VERIF_KEEP"):
            shutil.rmtree(self.scratch, ignore_errors=True)

    def path(self, *p):
        return os.path.join(self.scratch, *p)

    # ------------------------------------------------------------------- TLC
    def specdir(self):
        d = self.path("spec")
        if not self._spec_ready:
            os.makedirs(d, exist_ok=True)
            for f in os.listdir(SPEC):
                if f.endswith(".tla") or f.endswith(".cfg"):
                    shutil.copy(os.path.join(SPEC, f), d)
            self._spec_ready = True
        return d

    def tlc(self, module, cfg, workers=None, timeout=600, heap="6g", simulate=None, depth=None,
            deque=False, coverage=False, name=None, extra=(), keep_lines=None, files=None,
            expect_violation=False, count=True):
        """Run TLC on spec/<module>.tla with spec/<cfg>.  Returns TlcResult.
        Raises NoVerdict on tool failure (parse errors, timeouts, OOM)."""
        d = self.specdir()
        for src, dst in (files or {}).items():
            shutil.copy(src, os.path.join(d, dst))
        name = name or (module + "-" + os.path.splitext(os.path.basename(cfg))[0])
        out = self.path(name + ".tlcout")
        meta = self.path("meta-" + name)
        props = ["-XX:+UseParallelGC", "-Xmx" + heap, "-Xss64m", "-Djava.io.tmpdir=" + self.scratch]
        if deque:
            props.append("-Dtlc2.tool.queue.IStateQueue=StateDeque")
        cmd = ["java"] + props + ["-cp", TLA_CP, "tlc2.TLC", "-noGenerateSpecTE", "-metadir", meta,
                                  "-config", cfg]
        if workers is None:
            workers = max(1, NCPU - 2)
        cmd += ["-workers", str(workers)]
        if simulate is not None:
            cmd += ["-simulate", "num=%d" % simulate]
            if depth:
                cmd += ["-depth", str(depth)]
            cmd += ["-seed", str(self.seed)]
        if coverage:
            cmd += ["-coverage", "1"]
        cmd += list(extra) + [module]
        t = time.time()
        with open(out, "w") as fo:
            try:
                p = subprocess.run(cmd, cwd=d, stdout=fo, stderr=subprocess.STDOUT, timeout=timeout)
                rc = p.returncode
            except subprocess.TimeoutExpired:
                subprocess.run(["pkill", "-f", "metadir " + meta], check=False)
                raise NoVerdict("TLC timed out after %ds on %s/%s" % (timeout, module, cfg))
        res = parse_tlc(TlcResult(rc, out, time.time() - t), keep_lines)
        shutil.rmtree(meta, ignore_errors=True)
        if coverage:
            res.coverage_zero = coverage_zero(out)
        bad = [e for e in res.errors if e]
        if bad and not (res.violated or res.deadlock):
            raise NoVerdict("TLC error on %s/%s: %s" % (module, cfg, bad[:3]))
        if rc != 0 and not (res.violated or res.deadlock):
            raise NoVerdict("TLC exit %d on %s/%s: %s" % (rc, module, cfg, res.text(1500)))
        if (res.violated or res.deadlock) and not expect_violation:
            pass  # caller decides what a model-level violation means
        if count:
            self.cov["states"] += res.distinct
            self.cov["transitions"] += res.generated
            self.cov["configs"].append({"module": module, "cfg": cfg, "distinct": res.distinct,
                                        "generated": res.generated, "depth": res.depth,
                                        "wall_s": round(res.wall, 1),
                                        "mode": "simulate" if simulate is not None else "bfs",
                                        "violated": res.violated, "deadlock": res.deadlock})
            for z in res.coverage_zero:
                self.cov["coverage_zero_actions"].append(module + ":" + z)
        return res

    def cfg(self, template, overrides=None, name=None):
        """Instantiate spec/<template> with CONSTANT overrides (NAME = value lines)."""
        d = self.specdir()
        with open(os.path.join(SPEC, template)) as f:
            txt = f.read()
        for k, v in (overrides or {}).items():
            txt, n = re.subn(r"(?m)^(\s*%s\s*=\s*).*$" % re.escape(k), lambda m: m.group(1) + str(v), txt)
            if n != 1:
                raise NoVerdict("cfg %s: constant %s not found exactly once" % (template, k))
        name = name or (os.path.splitext(template)[0] + "." + hashlib.sha1(txt.encode()).hexdigest()[:6] + ".cfg")
        with open(os.path.join(d, name), "w") as f:
            f.write(txt)
        return name

    # -------------------------------------------------------------------- Go
    def go_build(self, pkg, out_name, tags="verif", race=False, test=False):
        """Build harness/<pkg> against /repo's current working tree."""
        sync_gosum()
        out = self.path(out_name)
        if test:
            cmd = ["go", "test", "-c", "-tags", tags, "-o", out]
        else:
            cmd = ["go", "build", "-tags", tags, "-o", out]
        if REPO != "/repo":
            # development aid (bin/mutant-eval): build against another checkout of anndb through an
            # alternate go.mod; the registered checks always run with REPO = /repo
            alt = self.path("go.alt.mod")
            with open(os.path.join(HARNESS, "go.mod")) as f:
                txt = f.read().replace("=> /repo", "=> " + REPO)
            with open(alt, "w") as f:
                f.write(txt)
            shutil.copy(os.path.join(HARNESS, "go.sum"), self.path("go.alt.sum"))
            cmd += ["-modfile", alt]
        if race:
            cmd.append("-race")
        cmd.append("./" + pkg)
        p = subprocess.run(cmd, cwd=HARNESS, env=goenv(), stdout=subprocess.PIPE, stderr=subprocess.STDOUT,
                           timeout=900)
        if p.returncode != 0:
            raise NoVerdict("harness build failed (%s): %s" % (pkg, p.stdout.decode(errors="replace")[-3000:]))
        return out

    def run(self, cmd, timeout=600, cwd=None, env=None, ok_codes=(0,), stdin=None, stdout_path=None, rlimit_as=None):
        e = goenv()
        e["VERIF_SEED"] = str(self.seed)
        e["VERIF_TIER"] = self.tier
        e["VERIF_SCRATCH"] = self.scratch
        if env:
            e.update(env)
        pre = None
        if rlimit_as:
            import resource

            def pre():
                resource.setrlimit(resource.RLIMIT_AS, (rlimit_as, rlimit_as))
        try:
            if stdout_path:
                with open(stdout_path, "w") as fo:
                    p = subprocess.run(cmd, cwd=cwd or self.scratch, env=e, stdout=fo, stderr=subprocess.PIPE,
                                       timeout=timeout, stdin=stdin, preexec_fn=pre)
                out = ""
            else:
                p = subprocess.run(cmd, cwd=cwd or self.scratch, env=e, stdout=subprocess.PIPE,
                                   stderr=subprocess.PIPE, timeout=timeout, stdin=stdin, preexec_fn=pre)
                out = p.stdout.decode(errors="replace")
        except subprocess.TimeoutExpired:
            raise NoVerdict("harness timed out after %ds: %s" % (timeout, " ".join(cmd[:3])))
        if p.returncode == 7 and "STALL:" in p.stderr.decode(errors="replace"):
            # the harness' watchdog: an operation of the real code did not return for 60 s
            err = p.stderr.decode(errors="replace")
            hist = err.rsplit("history=", 1)[-1].strip().splitlines()[0] if "history=" in err else "?"
            main_g = err.split("goroutine 1 ", 1)[-1].split("\n\n", 1)[0]
            frames = re.findall(r"anndb/(?:index|storage|utils)\.\(\*?(\w+)\)\.(\w+)", main_g)
            if frames and self.pid == "C02":
                short = ",".join({"insert": "ins", "remove": "rem", "update": "upd"}.get(x, x) for x in hist.split(","))
                self.finding("Outcome_hang@" + short, "Outcome_hang: after %s the real index does not return from %s (60 s): %s"
                             % (hist, hist.split(",")[-1], "<".join("%s.%s" % f for f in frames[:4])), {"history": hist.split(","), "frames": frames[:8]})
            raise NoVerdict("the real code does not return from an operation (history %s, frames %s)%s" % (
                hist, "<".join("%s.%s" % f for f in frames[:3]), "" if self.pid == "C02" else "; decided by C02 (Outcome_hang)"))
        if p.returncode == 2 and p.returncode not in ok_codes:
            # a Go panic ended the harness process.  If the panicking goroutine was created by anndb code (nothing
            # in the harness is on its stack, so nothing could have recovered it) the real code takes down whatever
            # process runs it: that is a behaviour of the code under test, not a tool failure
            err = p.stderr.decode(errors="replace")
            m = re.search(r"^(panic: [^\n]*|fatal error: [^\n]*)\n(?:.*\n)*?\ngoroutine \d+ [^\n]*\n((?:.+\n)+)", err, re.M)
            if m:
                block = m.group(2)
                frames = re.findall(r"github.com/marekgalovic/anndb/([\w/]+)\.\(?\*?(\w+)\)?\.(\w+)", block)
                if frames and "verifharness" not in block and "main." not in block and "created by github.com/marekgalovic/anndb/" in block:
                    top = "%s.%s" % (frames[0][1], frames[0][2])
                    self.finding("ProcessCrash@" + top, "ProcessCrash: %s in a goroutine started by %s (%s): the process running the call dies"
                                 % (m.group(1)[:120], top, " ".join(cmd[1:3])[-80:]), {"panic": m.group(1), "stack": block[:2500], "cmd": cmd[1:]})
        if p.returncode not in ok_codes:
            raise NoVerdict("harness exit %d: %s\n%s" % (p.returncode, " ".join(cmd[:3]),
                                                          p.stderr.decode(errors="replace")[-3000:]))
        return p.returncode, out, p.stderr.decode(errors="replace")

    # -------------------------------------------------------------- verdicts
    def finding(self, signature, what, replay_obj):
        """Report a real-code behaviour that violates the property.  Known open
        findings are printed once and suppress only their own signature."""
        if self.replay_sig is not None and signature != self.replay_sig:
            return False
        k = match_known(self._known, self.pid, signature)
        if k is not None:
            self.known_hit[k["signature"]] = self.known_hit.get(k["signature"], 0) + 1
            if k["signature"] not in self._printed_known:
                self._printed_known.add(k["signature"])
                print("KNOWN-FINDING: property=%s %s [%s]" % (self.pid, k["what"], k["signature"]), flush=True)
            return False
        if any(s == signature for s, _ in self.violations):
            return True
        h = hashlib.sha1((self.pid + signature).encode()).hexdigest()[:10]
        rp = os.path.join(self.replay_dir, "%s-%s.json" % (self.pid, h))
        with open(rp, "w") as f:
            json.dump({"property": self.pid, "signature": signature, "what": what, "seed": self.seed,
                       "tier": self.tier, "case": replay_obj}, f, indent=1, default=str)
        self.violations.append((signature, rp))
        print("VIOLATION property=%s replay=%s" % (self.pid, rp), flush=True)
        print("  signature: %s\n  what: %s" % (signature, what), flush=True)
        return True

    def model_drift(self, what, detail=None):
        self.drift.append({"what": what, "detail": detail})
        if len(self.drift) <= 5:
            print("MODEL-DRIFT: property=%s %s" % (self.pid, what), flush=True)

    def sample(self, obj, cap=6):
        if len(self.cov["samples"]) < cap:
            self.cov["samples"].append(obj)

    # -------------------------------------------------------------- evidence
    def write_evidence(self, level="model_checking"):
        cov = dict(self.cov)
        cov["drift"] = self.drift[:20]
        cov["drift_count"] = len(self.drift)
        cov["known_findings_hit"] = self.known_hit
        cov["notes"] = self.notes
        if not cov["samples"]:
            cov["samples"] = ["(no sample recorded)"]
        ev = {"property_id": self.pid, "tier": self.tier, "seed": self.seed, "level": level,
              "coverage": cov, "assumptions": self.assumptions,
              "wall_s": round(time.time() - self.t0, 2), "violations": len(self.violations)}
        # evidence is a statement about /repo: runs against another tree (seeded-change evaluation) keep theirs apart
        evdir = os.path.join(VERIF, "evidence") if REPO == "/repo" else os.path.join(VERIF, ".scratch", "evidence-other-tree")
        os.makedirs(evdir, exist_ok=True)
        with open(os.path.join(evdir, self.pid + ".json"), "w") as f:
            json.dump(ev, f, indent=1, default=str)


# ---------------------------------------------------------------------------
def coverage_zero(out_path):
    """Names of actions / sub-expressions TLC reports with a zero count."""
    zero = []
    cur = None
    with open(out_path, errors="replace") as f:
        for line in f:
            m = re.match(r"^<(\w+) line \d+, col \d+ to line \d+, col \d+ of module (\w+)>: (\d+):(\d+)", line)
            if m:
                cur = m.group(1)
                if int(m.group(4)) == 0 and int(m.group(3)) == 0:
                    zero.append(cur)
    return sorted(set(zero))


_gosum_done = False


def sync_gosum():
    """The harness module replaces the anndb module by /repo and reuses its go.sum."""
    global _gosum_done
    if _gosum_done:
        return
    src = os.path.join(REPO, "go.sum")
    dst = os.path.join(HARNESS, "go.sum")
    try:
        with open(src, "rb") as f:
            a = f.read()
        b = b""
        if os.path.exists(dst):
            with open(dst, "rb") as f:
                b = f.read()
        if not b.startswith(a):
            extra = b""
            xs = os.path.join(HARNESS, "go.sum.extra")
            if os.path.exists(xs):
                with open(xs, "rb") as f:
                    extra = f.read()
            with open(dst, "wb") as f:
                f.write(a + extra)
    except OSError as e:
        raise NoVerdict("cannot sync go.sum: %s" % e)
    _gosum_done = True


def load_known():
    p = os.path.join(VERIF, "known_findings.json")
    if not os.path.exists(p):
        return []
    with open(p) as f:
        return json.load(f).get("findings", [])


def match_known(known, pid, signature):
    for k in known:
        if k.get("property") == pid and k.get("status") == "open" and k.get("signature") == signature:
            return k
    return None


def jdump(obj):
    return json.dumps(obj, sort_keys=True, separators=(",", ":"))


def read_ndjson(path):
    out = []
    with open(path) as f:
        for line in f:
            line = line.strip()
            if line:
                out.append(json.loads(line))
    return out


def harvest_printt(tag):
    """Returns (collector, list).  TLC prints PrintT(<<"TAG", jsonstring>>) as
    <<"TAG", "....">>; the json string is TLA+-escaped (\\" and \\\\)."""
    acc = []
    prefix = '<<"%s", "' % tag

    def keep(line):
        if line.startswith(prefix):
            s = line.rstrip("\n")
            body = s[len(prefix) - 1:-2]     # the quoted string incl. quotes
            try:
                acc.append(json.loads(json.loads(body)))
            except Exception:
                # TLA+ string escapes are a subset of JSON's; fall back to manual unescape
                inner = body[1:-1].replace('\\"', '"').replace("\\\\", "\\")
                acc.append(json.loads(inner))
    return keep, acc


# checks that re-execute exactly the recorded case (the others re-run with the recorded tier and seed)
DEDICATED_REPLAY = {"C19", "C06", "C05", "C03", "C12"}


def main(run_fn, pid):
    import argparse
    ap = argparse.ArgumentParser()
    ap.add_argument("--tier", default=os.environ.get("VERIF_TIER", "quick"))
    ap.add_argument("--replay", default=None)
    ap.add_argument("--seed", type=int, default=int(os.environ.get("VERIF_SEED", "1") or 1))
    a = ap.parse_args(sys.argv[2:])
    tier = a.tier if a.tier in ("quick", "thorough") else "quick"
    seed = a.seed
    generic_replay = None
    if a.replay and pid not in DEDICATED_REPLAY:
        with open(a.replay) as f:
            rp = json.load(f)
        tier, seed, generic_replay = rp.get("tier", tier), rp.get("seed", seed), rp["signature"]
        a.replay = None
    ctx = Ctx(pid, tier, seed, a.replay)
    ctx.replay_sig = generic_replay
    code = 0
    try:
        level = run_fn(ctx) or "model_checking"
        ctx.write_evidence(level)
        code = 1 if ctx.violations else 0
    except NoVerdict as e:
        print("NO-VERDICT property=%s %s" % (pid, e), flush=True)
        ctx.notes.append("no verdict: %s" % e)
        try:
            ctx.write_evidence("model_checking")
        except Exception:
            pass
        code = 1 if ctx.violations else 2
    except Exception as e:      # a bug in the machinery is never a verdict about the code
        import traceback
        traceback.print_exc()
        print("NO-VERDICT property=%s internal error in the check: %s: %s" % (pid, type(e).__name__, e), flush=True)
        code = 1 if ctx.violations else 2
    finally:
        ctx.cleanup()
    ctx.log("done: exit %d, %d violation(s), %d known finding(s) hit, %d drift" %
            (code, len(ctx.violations), len(ctx.known_hit), len(ctx.drift)))
    sys.exit(code)


# ---------------------------------------------------------------------------
# Chunked, parallel trace validation (binding V).
#
# A trace is an ndjson file of events; events for which is_reset(line) holds
# start an independent behaviour, so the file can be cut there.  Each chunk is
# validated by its own single-worker JVM running <module> with <cfg_template>,
# in which the string __TRACE__ is replaced by the chunk's file name.  A trace
# specification reports through one PrintT(<<"VIOL", ToJson([n |-> events
# consumed, v |-> failed checks])>>) line, printed only when the whole chunk was
# consumed; a chunk without that line is a tool failure (exit 2), never a pass.
def validate_trace(ctx, module, cfg_template, trace_path, is_reset, chunk_events=40000, par=None,
                   timeout=900, heap="3g", tag="VIOL"):
    d = ctx.specdir()
    par = par or max(1, min(14, NCPU - 2))
    with open(os.path.join(SPEC, cfg_template)) as f:
        tmpl = f.read()
    # ---- split
    chunks = []          # (file name, first global line number (0-based), nlines)
    cur, cur_n, start, total = None, 0, 0, 0
    base = os.path.splitext(os.path.basename(trace_path))[0]

    def open_chunk(first):
        name = "%s.%s.%d.ndjson" % (base, module, len(chunks))
        return open(os.path.join(d, name), "w"), name, first

    with open(trace_path) as f:
        fh, name, start = open_chunk(0)
        for line in f:
            if not line.strip():
                continue
            if cur_n >= chunk_events and is_reset(line):
                fh.close()
                chunks.append((name, start, cur_n))
                fh, name, start = open_chunk(total)
                cur_n = 0
            fh.write(line)
            cur_n += 1
            total += 1
        fh.close()
        if cur_n:
            chunks.append((name, start, cur_n))
        else:
            os.unlink(os.path.join(d, name))
    if total == 0:
        raise NoVerdict("empty trace %s" % trace_path)
    # ---- run
    procs = []
    results = []
    pending = list(enumerate(chunks))
    t0 = time.time()

    def launch(i, ch):
        cfgname = "%s.%d.cfg" % (module, i)
        with open(os.path.join(d, cfgname), "w") as f:
            f.write(tmpl.replace("__TRACE__", ch[0]))
        out = ctx.path("%s.%s.%d.tlcout" % (base, module, i))
        meta = ctx.path("meta-%s-%s-%d" % (base, module, i))
        cmd = ["java", "-XX:+UseParallelGC", "-XX:ParallelGCThreads=2", "-Xmx" + heap, "-Xss64m", "-Djava.io.tmpdir=" + ctx.scratch, "-cp", TLA_CP, "tlc2.TLC",
               "-noGenerateSpecTE", "-metadir", meta, "-workers", "1", "-config", cfgname, module]
        fo = open(out, "w")
        p = subprocess.Popen(cmd, cwd=d, stdout=fo, stderr=subprocess.STDOUT)
        return (p, fo, out, meta, i, ch)

    viols = []
    consumed = 0
    while pending or procs:
        while pending and len(procs) < par:
            i, ch = pending.pop(0)
            procs.append(launch(i, ch))
        time.sleep(0.05)
        still = []
        for pr in procs:
            p, fo, out, meta, i, ch = pr
            if p.poll() is None:
                if time.time() - t0 > timeout:
                    p.kill()
                    raise NoVerdict("trace validation timed out (%s chunk %d)" % (module, i))
                still.append(pr)
                continue
            fo.close()
            shutil.rmtree(meta, ignore_errors=True)
            keep, acc = harvest_printt(tag)
            res = parse_tlc(TlcResult(p.returncode, out, 0), keep)
            if res.errors or not acc:
                raise NoVerdict("trace validation failed (%s chunk %d): %s %s" %
                                (module, i, res.errors[:3], res.text(1200)))
            rep = acc[-1]
            if rep["n"] != ch[2]:
                raise NoVerdict("trace chunk %d: consumed %s of %d events" % (i, rep["n"], ch[2]))
            consumed += rep["n"]
            for v in rep["v"]:
                viols.append([ch[1] + int(v[0]) - 1] + list(v[1:]))   # 0-based global line number
            results.append(res)
        procs = still
    ctx.cov["trace_events_validated"] = ctx.cov.get("trace_events_validated", 0) + consumed
    viols.sort(key=lambda v: v[0])
    return viols, consumed
