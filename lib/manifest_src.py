"""Source of /verif/MANIFEST.json (regenerate with bin/mkmanifest)."""

HOOKS = {
    "guard": "verif",
    "enable": "go build -tags verif (harness module /verif/harness, replace github.com/marekgalovic/anndb => /repo)",
    "baseline_off_cmd": "cd /repo && GOFLAGS=-mod=mod GOPROXY=off GOSUMDB=off GOTOOLCHAIN=local go test -vet=off -count=1 ./...",
    "source_commits": ["a362471", "177728c", "4a0b422", "d8bf8b2", "8d16dd9", "bdaf43b", "d01d65e", "1fb9c1d", "3c4cd95"],
    "add_only": True,
}

ENGINES = [
    {"name": "tlc", "path": "/opt/veriftools/tla/tla2tools.jar", "serves_properties": [],
     "kind_free_text": "TLC 1.8.0 explicit-state model checker: exhaustive BFS of the bounded specifications, -simulate beyond, and trace validation of ndjson traces recorded from the real code"},
    {"name": "harness", "path": "/verif/harness", "serves_properties": [],
     "kind_free_text": "Go conformance harness built with -tags verif against /repo's working tree: replays TLC-emitted histories/schedules on the real code and records traces"},
]

# property id -> dict(level text, note, technique, design_ref, thorough(bool))
CHECKS = {
    "C19": dict(
        text="TLC enumerates the two-layer PQueue specification (abstract bags vs Go slices + container/heap) exhaustively for all push/pop/peek/reverse histories up to the bound, starting from queues constructed with zero, one or two initial items; every emitted history is replayed on utils.PriorityQueue and every recorded call is validated against the abstract layer by PQueueTrace; seeded random histories extend beyond the bound. Exhaustive within the bound, sampled beyond it.",
        note="Trusts TLC, Go's container/heap and the JSON trace plumbing; items are distinguishable (priority, tag) pairs.",
        technique="TLA+ model checking (TLC) + replay of TLC-generated histories on the real queue + TLC trace validation",
        ref="5/C19"),
}

FAM_NOTE = ("Trusts TLC, the rank-table abstraction of distances (dense ranks of the float32 values the real kernels return), "
            "the verif-tagged read-only dump of the index, and Go's determinism on tie-free instances. The exact model covers instances whose "
            "beam never truncates and the Simple/Heuristic selection modes; beyond that only the property-level trace validation applies.")
FAM_TECH = "TLA+ model checking (TLC) of an exact index model + replay of every TLC-generated history on the real partition state machine + TLC trace validation"
CHECKS.update({
    "C01": dict(
        text="Hnsw.tla is an exact model of index/hnsw.go on small instances; TLC checks EpLive/SearchSound for every query and k in every reachable state (exhaustive within 3 ids x 4 points x 2 levels x 4 objects). Every emitted history is replayed through the real partition.process on index.Hnsw for 3 metrics x 3 selection modes, compared with the model state (0 drift expected) and validated at property level by HnswTrace; seeded random histories with larger M, tiny ef/efConstruction, ties and batches are validated at property level only.",
        note=FAM_NOTE, technique=FAM_TECH, ref="5/C01"),
    "C02": dict(
        text="PartitionMap.tla specifies the sequential map with exact outcomes and counters (TLC: CountersOK, FailedUnchanged; Hnsw refines it, property RefinesMap). For each of the 1000 map states TLC emits, the harness tries every single-item change, save/load and seeded batch changes on the real partition state machine; HnswTrace validates outcome, contents, counters and the byte-size window of every call.",
        note=FAM_NOTE, technique=FAM_TECH, ref="5/C02"),
    "C07": dict(
        text="Clause 1 (exact top-k on small insert-only collections) is the invariant SmallExact of Hnsw.tla, checked exhaustively by TLC and, on the real index, by HnswTrace on every replayed history and on random insert-only histories with M up to 16 (cosine universes contain collinear points of different norm, where 1 - cos is zero up to float32 rounding); a search that fails inside the premise counts as not exact. Clause 2 (recall floor) is statistical and is not decided by the specification.",
        note=FAM_NOTE + " The recall clause is outside the specification (DESIGN.md section 6).", technique=FAM_TECH, ref="5/C07"),
    "C08": dict(
        text="Hnsw.tla's RoundTrip invariant (a snapshot of every reachable state reproduces items, links among live items, entry point and every probe answer) is checked exhaustively; on the real code every save/load step of every replayed history goes through partition.snapshot/processSnapshot into a fresh and a used index and HnswTrace compares both with the pre-state.",
        note=FAM_NOTE + " Memory use on foreign byte streams is outside the specification.", technique=FAM_TECH, ref="5/C08"),
})

CHECKS.update({
    "C04": dict(
        text="PartitionSM.tla (replicas over a common log with snapshot / restore / restart) is checked exhaustively by TLC (SameIndexSameStore, EqualsReplay, SnapshotIsPrefix, OutcomesAgree). On the real code every log 'map state history + one more change' (all six change kinds) is applied by one real partition state machine, a snapshot is taken after every entry, and for every cut point a second real state machine is started from that snapshot (fresh, or after applying a prefix itself) and fed the same bytes; PartitionSMTrace compares outcomes and contents with the first replica and with the sequential map.",
        note="Assumes the replicated log delivers identical bytes in identical order (C05). " + FAM_NOTE,
        technique="TLA+ model checking (TLC) + multi-replica replay of TLC-generated logs on real partition state machines + TLC trace validation", ref="5/C04"),
    "C06": dict(
        text="WalStore.tla is a transcription of raft.MemoryStorage plus the wal calls for two groups in one key space; TLC checks its invariants and the isolation / delete-is-fresh action properties exhaustively and emits every bounded legal call history. Each is executed against the Badger store and MemoryStorage side by side in one database, all queries after every call; WalStoreTrace must accept the MemoryStorage answers (else the transcription is wrong: no verdict) and decides the property on the Badger answers. Seeded random legal call sequences extend the index/term range.",
        note="Trusts Badger itself and etcd's MemoryStorage as the reference; entry sizes are uniform so size limits are exercised in whole entries.",
        technique="TLA+ model checking (TLC) + three-way conformance (spec / reference storage / Badger store) by replay of TLC-generated call histories + TLC trace validation", ref="5/C06"),
})

FAN_NOTE = ("Remote nodes are scripted gRPC servers on loopback; only storage.Dataset is under test. Go's random choice among ready select cases "
            "cannot be forced: the gates fix the state in which the choice is made and hundreds of schedules reach each state.")
CHECKS.update({
    "C09": dict(
        text="FanOut.tla models the worker / helper / collector / context protocol of Dataset.Search and SearchPartitions with the switch CloseChans; TLC checks NoNilNil, OkMeansAll, FailLoud and termination exhaustively for 3 workers x {ok, err, slow} (holds for 'none', counterexamples for 'both' and 'resOnly'). FanOutGen emits every complete behaviour's environment schedule (worker completion order, collector iterations, cancellation); the harness forces them on the real Dataset through gates at the collector loop and scripted remote nodes, and FanOutTrace accepts a call only if its return is one the repaired model allows (exact top-k of the union on success, an error whenever a worker failed, was stuck or the context was cancelled, never a hang or an empty success). The real gRPC handlers of a server process are asked to search a dataset / partition that is not there and with wrong dimensions: they must fail, not return an empty success (ApiTrace: SilentSuccess). On three real server processes (four partitions, two replicas each, so that every search fans out to real peers) searches through every node - before and after kill -9 / restart, and with one node down - return exactly the acknowledged items, and the 5 nearest are the 5 nearest of the full result (ClusterViewTrace: TopKNotUnion, AckedLostOnRestart, GhostAfterRestart); a search that fails loudly is accepted.",
        note=FAN_NOTE, technique="TLA+ model checking (TLC) + forcing TLC-generated schedules on the real Dataset via gates + TLC trace validation", ref="5/C09"),
    "C17": dict(
        text="FanOutSize.tla models SizeInfo's inline local counting, per-partition goroutines (switch LoopVarShared for the go 1.14 loop-variable capture), the helper that closes errorCh and the counting collector; TLC checks EachOnce / FailLoud / termination exhaustively for 3 partitions x local/remote x ok/fail. The TLC-generated schedules are forced on the real Dataset with scripted remote nodes holding distinct power-of-two sizes, for placements with no, one and as many local partitions as remote ones; FanOutTrace requires exact sums with every remote partition asked exactly once, or an error. The serving side (Dataset.PartitionInfo) must answer for hosted partitions only (ForeignPartitionAnswered). On three real server processes the size every node reports (local partitions + lookups at the real peers) lies within what the acknowledged writes allow - the number of live items when nothing is uncertain - also after kill -9 / restart (ClusterViewTrace: SizeNotSum).",
        note=FAN_NOTE, technique="TLA+ model checking (TLC) + forcing TLC-generated schedules on the real Dataset via gates + TLC trace validation", ref="5/C17"),
})

CHECKS.update({
    "C11": dict(
        text="ProposeWait.tla models the register / propose / gap / select protocol of proposeAndWaitForCommit against the non-blocking notify of the apply loop, with the switch NotifCap (TLC: Truthful and Delivered hold for capacity 1, counterexample for the shipped capacity 0). On the real code a gate after raft.Propose forces both orders (caller first, apply loop first) for every outcome class on a real single-replica raft group, concurrent gated callers on equal and distinct ids, scripted remote owners (ok / failing / no address), dimension mismatches, and batches mixing partitions and item kinds; ProposeWaitTrace requires the sequential-set outcome for every local call, an error whenever the owner was not reached, and exactly the failed ids in batch answers. On three real server processes a sequential client writes through every node: every acknowledgement and every definite refusal (exists / not found) must be true of the item at that moment, and what Search returns later must be exactly what was acknowledged (ClusterViewTrace: DuplicateInsertAcked, AbsentItemAcked, SpuriousExists, SpuriousNotFound, AckedLostOnRestart, GhostAfterRestart).",
        note="One real single-replica raft group on in-memory Badger; remote owners are scripted gRPC servers; multi-replica log behaviour is C05.",
        technique="TLA+ model checking (TLC) + gate-forced caller/apply-loop orders on the real write path + TLC trace validation", ref="5/C11"),
})

RAFT_NOTE = ("etcd/raft and Badger are trusted. Nodes are simulated in one process per scenario: real RaftGroups, RaftTransports and gRPC servers on loopback, "
             "in-memory Badger handles that survive the simulated crash (Goexit of the ready loop at a boundary + dark transport), restart with fresh objects as the allocator does. "
             "Crash instants inside one Badger flush are not modelled. Convergence is decided on bounded runs and a stall only counts if it reproduces.")
CHECKS.update({
    "C05": dict(
        text="RaftHost.tla models the ready loop of storage/raft/group.go over an abstract etcd-style library, with durable variables, a crash at every boundary of the cycle, restart, message loss, and the switches RestartMode / SendPolicy. TLC checks NoBad (Attested, ApplySafety, apply-only-durable), ElectionSafety and term >= durable term exhaustively for 2 replicas (3 replicas with symmetry in the thorough tier; counterexamples for RestartMode=start and SendPolicy=allFirst). RaftConf.tla adds what RaftHost leaves out - groups whose membership changes: the host's raftConfState against the log, local snapshots, received snapshots, restart (TLC: the ConfState of every stored snapshot is the membership at its index; counterexample when installing a received snapshot does not update it). On the real code dozens (thorough: hundreds) of scenarios - every boundary x role x cycle number, 1/3/5 replicas, drop/duplicate/delay, partitions, local snapshots and lost snapshot messages to a follower behind the compacted log, a leader forced to step down (by a returning follower's vote request, by the new leader's delayed first append) and killed inside the very cycle in which it stepped down, a crashed minority of two, nodes joining the group while a follower is away that then catches up by snapshot, snapshots locally and restarts - run on real RaftGroups with the verif hooks recording every boundary; RaftHostTrace rebuilds each node's durable state from the 'saved' events and checks Rebootstrap, ResumeOlder, Unattested, ApplyMismatch, ApplyOrder, ApplyNotDurable, Panic, NoConverge and SnapshotConfStale on every run.",
        note=RAFT_NOTE, technique="TLA+ model checking (TLC) + crash/fault scenarios over the spec's crash points on real replicas + TLC trace validation of hook-recorded runs", ref="5/C05"),
    "C03": dict(
        text="The same RaftHost model and scenarios, with real Datasets on top of the replicated partitions: the client's submits and acknowledgements and every replica's final contents are part of the trace; RaftHostTrace requires every acknowledged write to be in the applied log (AckedLost), every applied change to have been submitted (NeverSubmitted), and every live replica's recovered contents to equal the sequential map applied to the applied log (ContentsVsLog), for a crash at every boundary of the ready cycle (before/after wal.Save, after each applied entry, around local snapshots) followed by restart and replay. On three real server processes acknowledged inserts / updates / removes through every node are followed by kill -9 of all nodes and restart on the same directories, then of one node, and what Search returns afterwards through every node is checked against the acknowledgements (ClusterViewTrace: AckedLostOnRestart, GhostAfterRestart).",
        note=RAFT_NOTE, technique="TLA+ model checking (TLC) + crash-point sweep on real replicated Datasets + TLC trace validation", ref="5/C03"),
})

CHECKS.update({
    "C16": dict(
        text="Catalogue.tla defines the allowed placements (per partition any min(R,N)-subset of the members, chosen independently; TLC enumerates the set for small N, R, P). The real allocator is called over a real cluster.Conn for N in {1..16}, R in {1,2,3,8}, P in {1,2,3,7,64} and many seeds; CatalogueTrace accepts a placement iff it is in the allowed set, and rejects a parameter point whose draws are all confined to the diagonal (all partitions on the same nodes) although R < N and P >= 2.",
        note="Independence is a possibility property, decided with false-alarm probability <= 2^-64 (quick) per parameter point.",
        technique="TLA+ specification of the allowed placement set (TLC) + TLC trace validation of real allocator draws", ref="5/C16"),
})

CHECKS.update({
    "C10": dict(
        text="Cluster.tla states routing as a fixed owner function with entry nodes that host or do not host the owner and six API paths (TLC: OwnerOnly / Stable hold; a path computing another owner gives a counterexample). On the real code every partition lives on its own scripted node, so the node (and for batch paths the partition id in the request) that receives a write identifies the owner the real Dataset computed; for partition counts 1,2,3,7,16, ids spanning the extremes of both 64-bit halves plus seeded random ids, three entry Datasets (outside the owners, hosting partition 0, a re-created one) and all six paths, plus batches of 2-8 items spanning partitions whose items are observed one by one where they arrive, ClusterTrace requires a defined owner in range for every call and the same owner for the same id everywhere. On real server processes a dataset's partition list (what routing indexes into) must keep the order it was created with through descriptor reads, log compaction, snapshot restore and restart (ClusterViewTrace: PartitionOrderChanged).",
        note="The quantifier 'all 128-bit ids, partition counts up to 1024' is arithmetic on one pure function beyond TLC's integers and is only sampled (DESIGN.md section 6). Owners are scripted gRPC servers in the routing phase; the partition-order phase runs on real servers.",
        technique="TLA+ model checking (TLC) + TLC trace validation of routed writes observed at scripted owners", ref="5/C10"),
})

L2_NOTE = ("Real anndb server processes (cmd/anndb's main with the verif hooks wired) on loopback ports with on-disk Badger directories, driven over their public gRPC services; "
           "crash = SIGKILL; zero-group snapshots are requested through the verif hook instead of waiting for 5000 entries; views are read after a bounded quiescence wait.")
CHECKS.update({
    "C14": dict(
        text="Catalogue.tla models the catalogue state machine over the zero group's log with snapshots, restores and restarts, and the switches RestoreMode / WireFirst (TLC: every node equals the replay of the log it applied - holds in the repaired positions, counterexamples for add-only restore, for a restore that keeps the replica sets of known datasets, and for starting the apply loop before the consumer is wired). The real storage.DatasetManager is driven by hundreds (thorough: thousands) of random logs of create / delete / add-node / remove-node entries on three managers - whole log; a prefix, then the snapshot of a later index, then the rest; snapshot and rest - which must end with the same datasets, partitions in the same order and replica sets without duplicates (CatalogueReplayTrace). Thirteen scenarios run on three to five real server processes - create / delete through different nodes, kill -9 and restart of a follower and of the bootstrap node, with the consumer wired late (gate), after a zero-group snapshot (with descriptor reads before it), after a node left, a follower that was down while datasets were created and deleted and the logs compacted and that catches up through a snapshot installed into the catalogue it already holds (also a snapshot of an empty catalogue), the bootstrap node being removed through another member and stopped (the rest carries on: creation, restart), a node leaving while a member is down (with three and with four nodes, so that the replica-set changes are committed behind the absent member and reach it only through the snapshot), a lost join hand-shake - and ClusterViewTrace compares every node's List() with what the acknowledged operations imply (ids, dimension, partitions, replica sets identical on all nodes, also after restart).",
        note=L2_NOTE + "",
        technique="TLA+ model checking (TLC) + scenarios on real server processes + TLC trace validation of every node's catalogue view", ref="5/C14"),
    "C20": dict(
        text="Membership.tla models the address book fed by the membership log, the join hand-shake, compaction and restart, with the switches SnapshotHasBook / BootHasAddr / ForgetClientOnRemove (TLC: a caught-up member lists exactly the members with usable addresses, and no member holds a transport client on a closed connection for another member - holds in the repaired positions, counterexamples for the three shipped positions; the empty bootstrap address was found by TLC first and then confirmed on real servers). The same real-server scenarios, including a join whose hand-shake is lost on every address (the node must report the failure - if it claims to be ready the join counts as acknowledged and every member has to list it), a join list whose first address is dead, a retry, a member that is removed and joins again under the same id (with writes and searches through every node before and after), and a joiner that is killed after the members recorded it but before it could report (the unacknowledged joiner may be listed; once the restarted process reports, it must be); ClusterViewTrace compares every node's ListNodes() with the acknowledged joins and removals, including after restart from a compacted log.",
        note=L2_NOTE, technique="TLA+ model checking (TLC) + scenarios on real server processes + TLC trace validation of every node's membership view", ref="5/C20"),
})

CHECKS.update({
    "C18": dict(
        text="ControlPlane.tla models the zero group's apply goroutine against the allocator loop (locks, the capacity-10 notification channel, the unbuffered updates channel, the loop's blocking proposal) and TLC's deadlock check decides it per entry sequence and switch position: all entry sequences are deadlock-free with the worker queue of the repaired allocator (switch InlineNodeChanges = FALSE); the shipped positions - send under lock, inline handling of a node change with a dataset creation behind it, inline handling with more membership changes behind it than the notification channel holds - each deadlock. The real cluster.Conn + Allocator + DatasetManager run over a scripted zero group for every entry sequence up to length 3 (thorough: 4) over {join, leave, create R=1, create R=2, delete}, queued one by one or as a restart burst, plus TLC's deadlock trace, membership histories of 18 (thorough: 60) changes with catalogue changes in between, and replica-set changes proposed by other nodes for partitions this node does or does not host, and removals of the peer of a partition group that has no leader followed by deletions and creations; a watchdog decides whether the log drained and the node still applies a further entry, and a stall's signature is the blocked frames of the apply goroutine and the allocator's goroutines; a panic on one of those goroutines is reported the same way (crash@frames). Real servers are killed and restarted with existing datasets, with and without a catalogue snapshot; in the scenario dead-leave a member dies and is then removed (partitions it shared with one other node are left without a leader), datasets are deleted and created, and every remaining node must keep answering List and applying the changes (Wedged@dead-leave).",
        note="The zero group is scripted (one apply goroutine, entries in order). A stall = log not drained 6 s after the last entry. Two open known findings (one wait-for cycle, both lock orders) are suppressed by their exact signature; any other stall is a violation.",
        technique="TLA+ deadlock checking (TLC) + entry sequences on the real control plane under a watchdog + TLC trace validation", ref="5/C18"),
})

CHECKS.update({
    "C12": dict(
        text="Api.tla states the request surface as a decision table: every request class is valid or ill-formed, the only outcomes are Ok (valid classes) and Err (no effect), the process stays alive and comes back alive after kill -9 + restart replaying its logs (TLC: Alive / NoPoison hold with validation, counterexamples without). 80 request classes covering every RPC of DatasetManager, DataManager (including the partition-level ones) and Search - malformed / short / long / empty ids, unknown datasets, wrong / zero dimensions, NaN / Inf, over-long and over-numerous metadata, k = 0 and huge k, batch sizes 0 / 100 / 101, bad items inside batches, zero partition / replica counts, unknown, negative and huge space values (a dataset that is accepted is also used), foreign partition ids, and updates / batch updates / removes of items that exist with empty, short, long and NaN vectors, over-long metadata and duplicate ids (so that the apply path really runs) - are each fired at a real single-node server process holding a valid dataset; after the request the process must be alive and serve a valid insert + search, and after kill -9 + restart on the same directory it must start and serve again; ApiTrace accepts exactly the behaviours of the validating model. On a cluster of three real servers the partition-level RPCs are also sent to members that know the partition but do not host it: every node has to survive them.",
        note="Model-driven exploration over request feature classes, not exhaustive over protobuf values; one class per server process (sequences of classes only through the set-up + probe requests around it).",
        technique="TLA+ decision-table model (TLC) + request classes on real server processes with kill -9 / restart + TLC trace validation", ref="5/C12"),
})

CHECKS.update({
    "C13": dict(
        text="HnswConc.tla cuts Insert / Remove / Search at the points between which another goroutine can observe an intermediate state (the verif yield points) and TLC checks LenOK, QuiescentEpLive and NoNilDeref for thread programs: one writer with readers (the server's usage) and two writers (the benchmark's); the shipped hand-over (switch SafeHandOver = FALSE) gives two counterexamples with two writers, the repaired one none - TLC also found the hole in the first version of the repair. On the real index the TLC counterexamples and the single writer parked at each yield point are forced through the yield gates, and free-running stress runs (1 writer + readers, many writers) are recorded with call-interval stamps; HnswConcTrace checks: no panic, entry point live and counter exact at quiescence, all C01 probe checks at quiescence, successful inserts / removes per id balance and agree with final presence, and no concurrent search returns a ghost (an item definitely removed before the search began) or a wrong score. A run in which the Go runtime aborts the process inside index code (concurrent map iteration and map write) is a violation (RuntimeFatal).",
        note="'No data races' is a statement about the Go memory model and is not decided (the stress binary is also run under -race and the count recorded). Per-id linearizability is checked through a necessary condition only. Link sets are abstracted in the model; the real link structure is checked at quiescence through the C01 probes.",
        technique="TLA+ model checking (TLC) of the operations cut at their yield points + gate-forced counterexample schedules and stress traces of the real index + TLC trace validation", ref="5/C13"),
})

NOT_APPLICABLE = {
    "C15": "Numeric agreement and memory safety of hand-written AVX/SSE kernels: no state machine to specify, TLC has neither IEEE-754 floats nor a memory model; a differential/sanitizer technique would be needed (DESIGN.md section 6).",
}

NOT_YET = "check not built yet in this round (planned, see DESIGN.md section 5)"
