"""Source of /verif/MANIFEST.json (regenerate with bin/mkmanifest)."""

HOOKS = {
    "guard": "verif",
    "enable": "go build -tags verif (harness module /verif/harness, replace github.com/marekgalovic/anndb => /repo)",
    "baseline_off_cmd": "cd /repo && GOFLAGS=-mod=mod GOPROXY=off GOSUMDB=off GOTOOLCHAIN=local go test -vet=off -count=1 ./...",
    "source_commits": [],
    "add_only": True,
}

ENGINES = [
    {"name": "tlc", "path": "/opt/veriftools/tla/tla2tools.jar", "serves_properties": [],
     "kind_free_text": "TLC 1.8.0 explicit-state model checker: exhaustive BFS of the bounded specifications, -simulate beyond, and trace validation of ndjson traces recorded from the real code"},
    {"name": "harness", "path": "/verif/harness", "serves_properties": [],
     "kind_free_text": "Go conformance harness built with -tags verif against /repo's working tree: replays TLC-emitted histories/schedules on the real code and records traces"},
]

# property id -> dict(level text, note, technique, design_ref, thorough(bool))
CHECKS = {
    "C19": dict(
        text="TLC enumerates the two-layer PQueue specification (abstract bags vs Go slices + container/heap) exhaustively for all push/pop/peek/reverse histories up to the bound; every emitted history is replayed on utils.PriorityQueue and every recorded call is validated against the abstract layer by PQueueTrace; seeded random histories extend beyond the bound. Exhaustive within the bound, sampled beyond it.",
        note="Trusts TLC, Go's container/heap and the JSON trace plumbing; items are distinguishable (priority, tag) pairs.",
        technique="TLA+ model checking (TLC) + replay of TLC-generated histories on the real queue + TLC trace validation",
        ref="5/C19"),
}

NOT_APPLICABLE = {
    "C15": "Numeric agreement and memory safety of hand-written AVX/SSE kernels: no state machine to specify, TLC has neither IEEE-754 floats nor a memory model; a differential/sanitizer technique would be needed (DESIGN.md section 6).",
}

NOT_YET = "check not built yet in this round (planned, see DESIGN.md section 5)"
